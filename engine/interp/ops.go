package interp

import (
	"fmt"
	"go/constant"
	"go/token"
	"go/types"
	"math"
	"os"
	"strings"
	"unicode/utf8"

	"golang.org/x/tools/go/ssa"
	"verif/engine/sym"
)

func (e *Engine) constValue(c *ssa.Const) Value {
	if c.Value == nil {
		return e.zero(c.Type())
	}
	if t, ok := c.Type().Underlying().(*types.Basic); ok {
		info := t.Info()
		switch {
		case info&types.IsBoolean != 0:
			return e.T.Bool(constant.BoolVal(c.Value))
		case info&types.IsInteger != 0:
			w, signed := intWidth(t)
			if signed {
				return e.T.Const(w, uint64(c.Int64()))
			}
			return e.T.Const(w, c.Uint64())
		case info&types.IsFloat != 0:
			f := c.Float64()
			if t.Kind() == types.Float32 {
				f = float64(float32(f))
			}
			return f
		case info&types.IsString != 0:
			if c.Value.Kind() == constant.String {
				return Str{S: constant.StringVal(c.Value)}
			}
			return Str{S: string(rune(c.Int64()))}
		case info&types.IsComplex != 0:
			return Opaque{"complex constant"}
		}
	}
	panic(fmt.Sprintf("constValue: %s", c))
}

// asTerm extends/truncates an integer term to 64 bits according to its static type.
func (e *Engine) to64(t types.Type, v *sym.Term) *sym.Term {
	if v.W == 64 {
		return v
	}
	_, signed := intWidth(t)
	if signed {
		return e.T.Sext(v, 64)
	}
	return e.T.Zext(v, 64)
}

// concreteInt returns the concrete value of an integer Value, forking if symbolic.
func (e *Engine) concreteInt(fr *frame, v Value, max int, what string) int64 {
	switch v := v.(type) {
	case nil:
		return 0
	case *sym.Term:
		if v.IsConst() {
			return v.SignedVal()
		}
		return e.Concretize(v, max, what+" at "+e.where(fr))
	case Opaque:
		e.unsupported("integer from opaque: " + v.Why)
	}
	panic(fmt.Sprintf("concreteInt of %T", v))
}

func (e *Engine) intC(v int64) *sym.Term { return e.T.Const(64, uint64(v)) }

// ---- load / store ----

func (e *Engine) fixPoison(p *Value, t types.Type) {
	if _, ok := (*p).(Poison); ok {
		e.poisonReads++
		e.notes = append(e.notes, "read of stale-capacity byte")
		w := 8
		if t != nil && (isInteger(t) || isBool(t)) {
			w, _ = intWidth(t)
		}
		*p = e.NewSym("poison", w)
	}
}

func (e *Engine) load(fr *frame, T types.Type, addr Value) Value {
	switch p := addr.(type) {
	case *Value:
		if p == nil {
			e.rtPanic(fr, "invalid memory address or nil pointer dereference")
		}
		e.fixPoison(p, T)
		v := *p
		// unsafe re-interpretation idioms
		switch vv := v.(type) {
		case []Value:
			if isString(T) {
				return e.bytesToStr(fr, vv)
			}
		case Str:
			if _, isSlice := T.Underlying().(*types.Slice); isSlice {
				return e.strToBytes(vv)
			}
		}
		return copyVal(v)
	case SymPtr:
		n := len(p.S)
		for i := range p.S {
			e.fixPoison(&p.S[i], T)
		}
		return e.selectTree(p.Idx, n, func(i int) *sym.Term { return p.S[i].(*sym.Term) })
	case Opaque:
		e.unsupported("load through opaque pointer at " + e.where(fr) + ": " + p.Why)
	case UnsafePtr:
		return e.load(fr, T, p.P)
	}
	panic(fmt.Sprintf("load from %T at %s", addr, e.where(fr)))
}

func (e *Engine) store(fr *frame, addr Value, v Value) {
	switch p := addr.(type) {
	case *Value:
		if p == nil {
			e.rtPanic(fr, "invalid memory address or nil pointer dereference")
		}
		storeVal(p, v)
	case SymPtr:
		vt, ok := v.(*sym.Term)
		if !ok {
			e.unsupported("store of non-scalar through symbolic index")
		}
		for i := range p.S {
			e.fixPoisonQuiet(&p.S[i], vt.W)
			p.S[i] = e.T.Ite(e.T.Eq(p.Idx, e.intC(int64(i))), vt, p.S[i].(*sym.Term))
		}
	case Opaque:
		e.unsupported("store through opaque pointer: " + p.Why)
	default:
		panic(fmt.Sprintf("store to %T at %s", addr, e.where(fr)))
	}
}

func (e *Engine) fixPoisonQuiet(p *Value, w int) {
	if _, ok := (*p).(Poison); ok {
		*p = e.NewSym("stale", w)
	}
}

func (e *Engine) bytesToStr(fr *frame, b []Value) Str {
	bs := make([]*sym.Term, len(b))
	for i := range b {
		e.fixPoison(&b[i], nil)
		t, ok := b[i].(*sym.Term)
		if !ok {
			e.unsupported(fmt.Sprintf("byte slice element %T", b[i]))
		}
		bs[i] = t
	}
	return mkStr(bs)
}

func (e *Engine) strToBytes(s Str) []Value {
	n := s.Len()
	out := make([]Value, n)
	for i := 0; i < n; i++ {
		out[i] = e.strByte(s, i)
	}
	return out
}

// ---- indexing ----

func scalarSlice(s []Value) bool {
	for _, x := range s {
		switch x.(type) {
		case *sym.Term, Poison:
		default:
			return false
		}
	}
	return true
}

func (e *Engine) boundsCheck(fr *frame, idx *sym.Term, n int, what string) {
	inb := e.T.Ult(idx, e.intC(int64(n)))
	if !e.Branch(inb) {
		e.rtPanic(fr, fmt.Sprintf("index out of range [%s] with length %d", idx, n))
	}
}

func (e *Engine) idx64(v Value) *sym.Term {
	t, ok := v.(*sym.Term)
	if !ok {
		if o, isO := v.(Opaque); isO {
			e.unsupported("index is opaque: " + o.Why)
		}
		panic(fmt.Sprintf("index of %T", v))
	}
	if t.W < 64 {
		// indices of narrower types: ssa converts to int first in practice; be
		// conservative and zero-extend unsigned widths (signed narrow indexes are
		// converted by an explicit Convert in SSA).
		return e.T.Zext(t, 64)
	}
	return t
}

func (e *Engine) indexAddr(fr *frame, x Value, idxV Value) Value {
	var s []Value
	switch x := x.(type) {
	case []Value:
		s = x
	case *Value:
		if x == nil {
			e.rtPanic(fr, "nil pointer dereference (index of nil *array)")
		}
		s = []Value((*x).(Array))
	case Opaque:
		e.unsupported("index of opaque: " + x.Why)
	default:
		panic(fmt.Sprintf("IndexAddr on %T", x))
	}
	idx := e.idx64(idxV)
	if idx.IsConst() {
		i := idx.SignedVal()
		if i < 0 || i >= int64(len(s)) {
			e.rtPanic(fr, fmt.Sprintf("index out of range [%d] with length %d", i, len(s)))
		}
		return &s[i]
	}
	e.boundsCheck(fr, idx, len(s), "index")
	if len(s) == 1 {
		return &s[0]
	}
	if scalarSlice(s) {
		return SymPtr{S: s[:len(s):len(s)], Idx: idx}
	}
	i := e.Concretize(idx, len(s), "index into non-scalar slice at "+e.where(fr))
	return &s[i]
}

func (e *Engine) index(fr *frame, x Value, idxV Value) Value {
	idx := e.idx64(idxV)
	switch x := x.(type) {
	case Array:
		if idx.IsConst() {
			i := idx.SignedVal()
			if i < 0 || i >= int64(len(x)) {
				e.rtPanic(fr, fmt.Sprintf("index out of range [%d] with length %d", i, len(x)))
			}
			return copyVal(x[i])
		}
		e.boundsCheck(fr, idx, len(x), "index")
		if scalarSlice(x) {
			return e.selectTree(idx, len(x), func(i int) *sym.Term { return x[i].(*sym.Term) })
		}
		i := e.Concretize(idx, len(x), "index into array")
		return copyVal(x[i])
	case Str:
		n := x.Len()
		if idx.IsConst() {
			i := idx.SignedVal()
			if i < 0 || i >= int64(n) {
				e.rtPanic(fr, fmt.Sprintf("index out of range [%d] with length %d", i, n))
			}
			return e.strByte(x, int(i))
		}
		e.boundsCheck(fr, idx, n, "string index")
		return e.selectTree(idx, n, func(i int) *sym.Term { return e.strByte(x, i) })
	case Opaque:
		return x
	}
	panic(fmt.Sprintf("Index on %T", x))
}

func (e *Engine) slice(fr *frame, instr *ssa.Slice, x, lo, hi, max Value) Value {
	var Len, Cap int
	var base []Value
	var str Str
	isStr := false
	switch x := x.(type) {
	case Str:
		Len = x.Len()
		Cap = Len
		str = x
		isStr = true
	case []Value:
		Len, Cap = len(x), cap(x)
		base = x
	case *Value:
		if x == nil {
			e.rtPanic(fr, "nil pointer dereference (slice of nil *array)")
		}
		a := (*x).(Array)
		Len, Cap = len(a), len(a)
		base = []Value(a)
	case Opaque:
		return x
	default:
		panic(fmt.Sprintf("slice of %T", x))
	}
	bound := func(v Value, def int, what string) (int64, bool) {
		if v == nil {
			return int64(def), true
		}
		t := e.idx64(v)
		if t.IsConst() {
			return t.SignedVal(), true
		}
		// check range first so that concretisation enumerates only legal values
		ok := e.T.Ule(t, e.intC(int64(Cap)))
		if !e.Branch(ok) {
			e.rtPanic(fr, fmt.Sprintf("slice bounds out of range [%s %s] with capacity %d", what, t, Cap))
		}
		return e.Concretize(t, Cap+1, "slice bound at "+e.where(fr)), true
	}
	l, _ := bound(lo, 0, "low")
	h, _ := bound(hi, Len, "high")
	m, _ := bound(max, Cap, "max")
	limit := int64(Cap)
	if isStr {
		limit = int64(Len)
	}
	if l < 0 || h < l || h > m || m > limit || (isStr && h > int64(Len)) {
		e.rtPanic(fr, fmt.Sprintf("slice bounds out of range [%d:%d:%d] with capacity %d", l, h, m, Cap))
	}
	if isStr {
		return e.strSlice(str, int(l), int(h))
	}
	if base == nil {
		return []Value(nil)
	}
	return base[l:h:m]
}

func (e *Engine) sliceToArrayPointer(fr *frame, tDst types.Type, x Value) Value {
	n := tDst.Underlying().(*types.Pointer).Elem().Underlying().(*types.Array).Len()
	s := x.([]Value)
	if int64(len(s)) < n {
		e.rtPanic(fr, "cannot convert slice to array pointer: length too small")
	}
	if s == nil {
		return (*Value)(nil)
	}
	var v Value = Array(s[:n:n])
	return &v
}

// ---- equality ----

func (e *Engine) equals(fr *frame, t types.Type, x, y Value) *sym.Term {
	if o, ok := x.(Opaque); ok {
		e.unsupported("comparison with opaque: " + o.Why)
	}
	if o, ok := y.(Opaque); ok {
		e.unsupported("comparison with opaque: " + o.Why)
	}
	switch x := x.(type) {
	case *sym.Term:
		return e.T.Eq(x, y.(*sym.Term))
	case float64:
		return e.T.Bool(x == y.(float64))
	case Str:
		return e.strEq(x, y.(Str))
	case *Value:
		switch y := y.(type) {
		case *Value:
			return e.T.Bool(x == y)
		case UnsafePtr:
			yp, _ := y.P.(*Value)
			return e.T.Bool(x == yp)
		}
	case UnsafePtr:
		xp, _ := x.P.(*Value)
		switch y := y.(type) {
		case UnsafePtr:
			yp, _ := y.P.(*Value)
			return e.T.Bool(xp == yp)
		case *Value:
			return e.T.Bool(xp == y)
		}
	case *Chan:
		return e.T.Bool(x == y.(*Chan))
	case *Map:
		return e.T.Bool(x == y.(*Map))
	case RType:
		return e.T.Bool(types.Identical(x.T, y.(RType).T))
	case Iface:
		yi := y.(Iface)
		if x.T == nil || yi.T == nil {
			return e.T.Bool(x.T == nil && yi.T == nil)
		}
		if !types.Identical(x.T, yi.T) {
			return e.T.False
		}
		if !types.Comparable(x.T) {
			panic(targetPanic{runtime: true, msg: "comparing uncomparable type " + x.T.String(), where: e.where(fr)})
		}
		return e.equals(fr, x.T, x.V, yi.V)
	case Struct:
		ys := y.(Struct)
		st := t.Underlying().(*types.Struct)
		r := e.T.True
		for i := range x {
			if st.Field(i).Name() == "_" {
				continue
			}
			r = e.T.And(r, e.equals(fr, st.Field(i).Type(), x[i], ys[i]))
			if r.IsFalse() {
				return r
			}
		}
		return r
	case Array:
		ya := y.(Array)
		et := t.Underlying().(*types.Array).Elem()
		r := e.T.True
		for i := range x {
			r = e.T.And(r, e.equals(fr, et, x[i], ya[i]))
			if r.IsFalse() {
				return r
			}
		}
		return r
	case *ssa.Function:
		switch y := y.(type) {
		case *ssa.Function:
			return e.T.Bool(x == y)
		case *Closure:
			return e.T.Bool(false)
		}
	case *Closure:
		switch y := y.(type) {
		case *ssa.Function:
			return e.T.Bool(y == nil && x == nil)
		case *Closure:
			return e.T.Bool(x == y)
		}
	case []Value:
		ys := y.([]Value)
		return e.T.Bool((x == nil) == (ys == nil))
	}
	panic(fmt.Sprintf("equals: %T vs %T (%v) at %s", x, y, t, e.where(fr)))
}

func (e *Engine) eqnil(fr *frame, t types.Type, x, y Value) *sym.Term {
	switch t.Underlying().(type) {
	case *types.Map:
		xm, _ := x.(*Map)
		ym, _ := y.(*Map)
		return e.T.Bool((xm != nil) == (ym != nil))
	case *types.Signature:
		isNil := func(v Value) bool {
			switch v := v.(type) {
			case *ssa.Function:
				return v == nil
			case *Closure:
				return v == nil
			case *nativeFn:
				return v == nil
			case *stubCall:
				return false
			}
			panic(fmt.Sprintf("eqnil func %T", v))
		}
		return e.T.Bool(isNil(x) == isNil(y))
	case *types.Slice:
		xs, _ := x.([]Value)
		ys, _ := y.([]Value)
		return e.T.Bool((xs != nil) == (ys != nil))
	}
	return e.equals(fr, t, x, y)
}

// ---- binary operators ----

func (e *Engine) binop(fr *frame, op token.Token, t types.Type, x, y Value) Value {
	if o, ok := x.(Opaque); ok {
		if op == token.EQL || op == token.NEQ {
			e.unsupported("comparison of opaque at " + e.where(fr) + ": " + o.Why)
		}
		return o
	}
	if o, ok := y.(Opaque); ok {
		if op == token.EQL || op == token.NEQ {
			e.unsupported("comparison of opaque at " + e.where(fr) + ": " + o.Why)
		}
		return o
	}
	switch op {
	case token.EQL:
		return e.eqnil(fr, t, x, y)
	case token.NEQ:
		return e.T.Not(e.eqnil(fr, t, x, y))
	}
	switch xv := x.(type) {
	case *sym.Term:
		yv := y.(*sym.Term)
		if xv.W == 0 { // bool
			switch op {
			case token.AND, token.LAND:
				return e.T.And(xv, yv)
			case token.OR, token.LOR:
				return e.T.Or(xv, yv)
			case token.XOR:
				return e.T.Not(e.T.Eq(xv, yv))
			}
			panic("bool binop " + op.String())
		}
		_, signed := intWidth(t)
		T := e.T
		switch op {
		case token.ADD:
			return T.Add(xv, yv)
		case token.SUB:
			return T.Sub(xv, yv)
		case token.MUL:
			return T.Mul(xv, yv)
		case token.QUO, token.REM:
			if !e.Branch(T.Not(T.Eq(yv, T.Const(yv.W, 0)))) {
				e.rtPanic(fr, "integer divide by zero")
			}
			if signed {
				if op == token.QUO {
					return T.SDiv(xv, yv)
				}
				return T.SRem(xv, yv)
			}
			if op == token.QUO {
				return T.UDiv(xv, yv)
			}
			return T.URem(xv, yv)
		case token.AND:
			return T.BAnd(xv, yv)
		case token.OR:
			return T.BOr(xv, yv)
		case token.XOR:
			return T.BXor(xv, yv)
		case token.AND_NOT:
			return T.BAnd(xv, T.BNot(yv))
		case token.SHL, token.SHR:
			// normalise the count to x's width with saturation
			var cnt *sym.Term
			switch {
			case yv.W == xv.W:
				cnt = yv
			case yv.W < xv.W:
				cnt = T.Zext(yv, xv.W)
			default:
				big := T.Not(T.Ult(yv, T.Const(yv.W, uint64(xv.W))))
				cnt = T.Ite(big, T.Const(xv.W, uint64(xv.W)), T.Extract(yv, xv.W-1, 0))
			}
			if op == token.SHL {
				return T.Shl(xv, cnt)
			}
			if signed {
				return T.AShr(xv, cnt)
			}
			return T.LShr(xv, cnt)
		case token.LSS:
			if signed {
				return T.Slt(xv, yv)
			}
			return T.Ult(xv, yv)
		case token.LEQ:
			if signed {
				return T.Sle(xv, yv)
			}
			return T.Ule(xv, yv)
		case token.GTR:
			if signed {
				return T.Slt(yv, xv)
			}
			return T.Ult(yv, xv)
		case token.GEQ:
			if signed {
				return T.Sle(yv, xv)
			}
			return T.Ule(yv, xv)
		}
	case float64:
		yv := y.(float64)
		f32 := false
		if b, ok := t.Underlying().(*types.Basic); ok && b.Kind() == types.Float32 {
			f32 = true
		}
		rnd := func(f float64) float64 {
			if f32 {
				return float64(float32(f))
			}
			return f
		}
		switch op {
		case token.ADD:
			return rnd(xv + yv)
		case token.SUB:
			return rnd(xv - yv)
		case token.MUL:
			return rnd(xv * yv)
		case token.QUO:
			return rnd(xv / yv)
		case token.LSS:
			return e.T.Bool(xv < yv)
		case token.LEQ:
			return e.T.Bool(xv <= yv)
		case token.GTR:
			return e.T.Bool(xv > yv)
		case token.GEQ:
			return e.T.Bool(xv >= yv)
		}
	case Str:
		yv := y.(Str)
		switch op {
		case token.ADD:
			return e.strConcat(xv, yv)
		case token.LSS:
			return e.strLess(xv, yv)
		case token.LEQ:
			return e.T.Not(e.strLess(yv, xv))
		case token.GTR:
			return e.strLess(yv, xv)
		case token.GEQ:
			return e.T.Not(e.strLess(xv, yv))
		}
	}
	panic(fmt.Sprintf("invalid binary op: %T %s %T at %s", x, op, y, e.where(fr)))
}

func (e *Engine) unop(fr *frame, instr *ssa.UnOp, x Value) Value {
	switch instr.Op {
	case token.ARROW:
		return e.chanRecv(fr, instr, x)
	case token.MUL:
		return e.load(fr, deref(instr.X.Type()), x)
	}
	if o, ok := x.(Opaque); ok {
		return o
	}
	switch instr.Op {
	case token.SUB:
		switch x := x.(type) {
		case *sym.Term:
			return e.T.Neg(x)
		case float64:
			return -x
		}
	case token.NOT:
		return e.T.Not(x.(*sym.Term))
	case token.XOR:
		return e.T.BNot(x.(*sym.Term))
	}
	panic(fmt.Sprintf("invalid unary op %s %T", instr.Op, x))
}

// ---- conversions ----

func (e *Engine) conv(fr *frame, tDst, tSrc types.Type, x Value) Value {
	utSrc := tSrc.Underlying()
	utDst := tDst.Underlying()
	if o, ok := x.(Opaque); ok {
		return o
	}
	// type parameters (MultiConvert) are instantiated away; treat by underlying
	switch utDst := utDst.(type) {
	case *types.Pointer:
		switch x := x.(type) {
		case UnsafePtr:
			if x.P == nil {
				return (*Value)(nil)
			}
			if p, ok := x.P.(*Value); ok {
				return p
			}
			return x.P
		case *Value:
			return x
		}
	case *types.Slice:
		switch x := x.(type) {
		case Str:
			if b, ok := utDst.Elem().Underlying().(*types.Basic); ok && b.Kind() == types.Int32 {
				s, ok := x.Concrete()
				if !ok {
					e.unsupported("[]rune of symbolic string")
				}
				var out []Value
				for _, r := range s {
					out = append(out, e.T.Const(32, uint64(r)))
				}
				if out == nil {
					out = []Value{}
				}
				return out
			}
			out := e.strToBytes(x)
			e.tick(len(out) / 4)
			return out
		case []Value:
			return x
		}
	case *types.Basic:
		if utDst.Kind() == types.UnsafePointer {
			switch x := x.(type) {
			case UnsafePtr:
				return x
			case *Value:
				if x == nil {
					return UnsafePtr{}
				}
				return UnsafePtr{P: x}
			case SymPtr:
				return UnsafePtr{P: x}
			case *sym.Term:
				return Opaque{"uintptr to unsafe.Pointer"}
			}
		}
		if utDst.Info()&types.IsString != 0 {
			switch x := x.(type) {
			case Str:
				return x
			case []Value:
				if sl, ok := utSrc.(*types.Slice); ok {
					if b, ok := sl.Elem().Underlying().(*types.Basic); ok && b.Kind() == types.Int32 {
						var sb strings.Builder
						for _, r := range x {
							rt := r.(*sym.Term)
							if !rt.IsConst() {
								e.unsupported("string of symbolic runes")
							}
							sb.WriteRune(rune(rt.SignedVal()))
						}
						return Str{S: sb.String()}
					}
				}
				e.tick(len(x) / 4)
				return e.bytesToStr(fr, x)
			case *sym.Term:
				// string(rune)
				if !x.IsConst() {
					// ASCII only
					xs := e.to64(tSrc, x)
					if !e.Branch(e.T.Ult(xs, e.intC(0x80))) {
						e.unsupported("string(rune) of symbolic non-ASCII rune")
					}
					return Str{B: []*sym.Term{e.T.Extract(xs, 7, 0)}}
				}
				_, signed := intWidth(tSrc)
				var r rune
				if signed {
					v := x.SignedVal()
					if v < 0 || v > utf8.MaxRune {
						r = utf8.RuneError
					} else {
						r = rune(v)
					}
				} else if x.V > utf8.MaxRune {
					r = utf8.RuneError
				} else {
					r = rune(x.V)
				}
				return Str{S: string(r)}
			}
		}
		if utDst.Info()&(types.IsInteger) != 0 {
			dw, _ := intWidth(utDst)
			switch x := x.(type) {
			case *sym.Term:
				if x.W == 0 {
					panic("conv bool to int")
				}
				_, ssigned := intWidth(utSrc)
				switch {
				case dw == x.W:
					return x
				case dw < x.W:
					return e.T.Extract(x, dw-1, 0)
				case ssigned:
					return e.T.Sext(x, dw)
				default:
					return e.T.Zext(x, dw)
				}
			case float64:
				_, dsigned := intWidth(utDst)
				if math.IsNaN(x) || math.IsInf(x, 0) {
					return e.T.Const(dw, 1<<63)
				}
				if dsigned {
					return e.T.Const(dw, uint64(int64(x)))
				}
				if x < 0 {
					return e.T.Const(dw, uint64(int64(x)))
				}
				return e.T.Const(dw, uint64(x))
			case UnsafePtr:
				return Opaque{"unsafe.Pointer to uintptr"}
			}
		}
		if utDst.Info()&types.IsFloat != 0 {
			f32 := utDst.Kind() == types.Float32
			switch x := x.(type) {
			case float64:
				if f32 {
					return float64(float32(x))
				}
				return x
			case *sym.Term:
				if !x.IsConst() {
					// few feasible values (e.g. an ite of constants): fork over them
					v := e.Concretize(x, 64, "integer converted to float at "+e.where(fr))
					x = e.T.Const(x.W, uint64(v))
				}
				_, ssigned := intWidth(utSrc)
				var f float64
				if ssigned {
					f = float64(x.SignedVal())
				} else {
					f = float64(x.V)
				}
				if f32 {
					f = float64(float32(f))
				}
				return f
			}
		}
		if utDst.Info()&types.IsBoolean != 0 {
			return x
		}
	}
	panic(fmt.Sprintf("unsupported conversion: %s -> %s, value %T at %s", tSrc, tDst, x, e.where(fr)))
}

// ---- type assertions ----

func (e *Engine) implements(T types.Type, I *types.Interface) bool {
	return types.Implements(T, I)
}

func (e *Engine) typeAssert(fr *frame, instr *ssa.TypeAssert, xv Value) Value {
	if o, ok := xv.(Opaque); ok {
		e.unsupported("type assertion on opaque: " + o.Why)
	}
	itf := xv.(Iface)
	var v Value
	err := ""
	if itf.T == nil {
		err = fmt.Sprintf("interface conversion: interface is nil, not %s", instr.AssertedType)
	} else if idst, ok := instr.AssertedType.Underlying().(*types.Interface); ok {
		v = itf
		if !e.implements(itf.T, idst) {
			err = fmt.Sprintf("interface conversion: %s does not implement %s", itf.T, instr.AssertedType)
		}
	} else if types.Identical(itf.T, instr.AssertedType) {
		v = itf.V
	} else {
		err = fmt.Sprintf("interface conversion: interface is %s, not %s", itf.T, instr.AssertedType)
	}
	if err != "" {
		if !instr.CommaOk {
			e.rtPanic(fr, err)
		}
		return Tuple{e.zero(instr.AssertedType), e.T.False}
	}
	if instr.CommaOk {
		return Tuple{v, e.T.True}
	}
	return v
}

// ---- maps ----

func (e *Engine) mapFind(fr *frame, m *Map, k Value) int {
	if m == nil {
		return -1
	}
	if ck, ok := concreteKey(k); ok && !m.hasSym {
		if i, ok := m.idx[ck]; ok {
			return i
		}
		return -1
	}
	for i, ent := range m.Ents {
		eq := e.equals(fr, m.KT, ent.k, k)
		if eq.IsTrue() {
			return i
		}
		if eq.IsFalse() {
			continue
		}
		if e.Branch(eq) {
			return i
		}
	}
	return -1
}

func (e *Engine) mapInsert(fr *frame, m *Map, k, v Value) {
	if i := e.mapFind(fr, m, k); i >= 0 {
		m.Ents[i].v = v
		return
	}
	ck, ok := concreteKey(k)
	if !ok {
		m.hasSym = true
	} else if !m.hasSym {
		m.idx[ck] = len(m.Ents)
	}
	m.Ents = append(m.Ents, &mapEnt{k: copyVal(k), v: v})
	m.Version++
}

func (e *Engine) mapDelete(fr *frame, m *Map, k Value) {
	i := e.mapFind(fr, m, k)
	if i < 0 {
		return
	}
	m.Ents[i].k = nil // tombstone for live iterators
	m.Ents = append(append([]*mapEnt{}, m.Ents[:i]...), m.Ents[i+1:]...)
	m.Version++
	if !m.hasSym {
		m.idx = map[string]int{}
		for j, ent := range m.Ents {
			ck, _ := concreteKey(ent.k)
			m.idx[ck] = j
		}
	}
}

func (e *Engine) lookup(fr *frame, instr *ssa.Lookup, x, idx Value) Value {
	switch x := x.(type) {
	case *Map:
		var v Value
		ok := false
		if i := e.mapFind(fr, x, idx); i >= 0 {
			v = copyVal(x.Ents[i].v)
			ok = true
		} else {
			v = e.zero(instr.X.Type().Underlying().(*types.Map).Elem())
		}
		if instr.CommaOk {
			return Tuple{v, e.T.Bool(ok)}
		}
		return v
	case Opaque:
		if instr.CommaOk {
			return Tuple{x, x}
		}
		return x
	}
	panic(fmt.Sprintf("unexpected x type in Lookup: %T", x))
}

// ---- iteration ----

type iter interface {
	next(e *Engine, fr *frame) Tuple
}

type mapIter struct {
	ents []*mapEnt
	i    int
}

func (it *mapIter) next(e *Engine, fr *frame) Tuple {
	for it.i < len(it.ents) {
		ent := it.ents[it.i]
		it.i++
		if ent.k == nil {
			continue // deleted during iteration
		}
		return Tuple{e.T.True, copyVal(ent.k), copyVal(ent.v)}
	}
	return Tuple{e.T.False, nil, nil}
}

type strIter struct {
	s Str
	i int
}

func (it *strIter) next(e *Engine, fr *frame) Tuple {
	n := it.s.Len()
	if it.i >= n {
		return Tuple{e.T.False, nil, nil}
	}
	b := e.strByte(it.s, it.i)
	pos := it.i
	if b.IsConst() && b.V < 0x80 {
		it.i++
		return Tuple{e.T.True, e.intC(int64(pos)), e.T.Const(32, b.V)}
	}
	// try concrete decode of the remaining bytes
	end := pos + 4
	if end > n {
		end = n
	}
	if sub, ok := e.strSlice(it.s, pos, end).Concrete(); ok {
		r, sz := utf8.DecodeRuneInString(sub)
		it.i += sz
		return Tuple{e.T.True, e.intC(int64(pos)), e.T.Const(32, uint64(r))}
	}
	if !b.IsConst() {
		if e.Branch(e.T.Ult(b, e.T.Const(8, 0x80))) {
			it.i++
			return Tuple{e.T.True, e.intC(int64(pos)), e.T.Zext(b, 32)}
		}
	}
	e.unsupported("range over string with symbolic non-ASCII bytes")
	return nil
}

func permutations(n int) [][]int {
	if n <= 1 {
		return [][]int{{0}}[:n+0]
	}
	var res [][]int
	var rec func(cur []int, used []bool)
	rec = func(cur []int, used []bool) {
		if len(cur) == n {
			res = append(res, append([]int{}, cur...))
			return
		}
		for i := 0; i < n; i++ {
			if !used[i] {
				used[i] = true
				rec(append(cur, i), used)
				used[i] = false
			}
		}
	}
	rec(nil, make([]bool, n))
	return res
}

func (e *Engine) rangeIter(fr *frame, x Value, t types.Type) iter {
	switch x := x.(type) {
	case *Map:
		if x == nil {
			return &mapIter{}
		}
		ents := append([]*mapEnt{}, x.Ents...)
		if x.Nondet && len(ents) > 1 {
			if len(ents) > 5 {
				e.unsupported("nondeterministic map order over more than 5 entries")
			}
			perms := permutations(len(ents))
			p := perms[e.Choose(len(perms))]
			out := make([]*mapEnt, len(ents))
			for i, j := range p {
				out[i] = ents[j]
			}
			e.notes = append(e.notes, fmt.Sprintf("map order %v", p))
			ents = out
		}
		return &mapIter{ents: ents}
	case Str:
		return &strIter{s: x}
	case Opaque:
		e.unsupported("range over opaque: " + x.Why)
	}
	panic(fmt.Sprintf("cannot range over %T", x))
}

// ---- builtins ----

func (e *Engine) callBuiltin(caller *frame, callpos token.Pos, fn *ssa.Builtin, args []Value) (ret Value) {
	switch fn.Name() {
	case "append":
		if len(args) == 1 {
			return args[0]
		}
		a0, _ := args[0].([]Value)
		defer func(oldCap int) {
			// cells of a grown backing array beyond len hold zero values, as in Go
			if r, ok := ret.([]Value); ok && cap(r) != oldCap {
				full := r[:cap(r)]
				var z Value
				for i := len(r); i < len(full); i++ {
					if full[i] == nil {
						if z == nil {
							z = e.zero(fn.Type().(*types.Signature).Params().At(0).Type().Underlying().(*types.Slice).Elem())
						}
						full[i] = copyVal(z)
					}
				}
			}
		}(cap(a0))
		switch a1 := args[1].(type) {
		case Str:
			n := a1.Len()
			e.tick(n / 4)
			for i := 0; i < n; i++ {
				a0 = append(a0, e.strByte(a1, i))
			}
			return a0
		case []Value:
			e.tick(len(a1) / 4)
			// elements are copied by value
			for _, v := range a1 {
				if _, isP := v.(Poison); isP {
					pv := v
					e.fixPoison(&pv, nil)
					v = pv
				}
				a0 = append(a0, copyVal(v))
			}
			return a0
		case Opaque:
			return a1
		}
		panic(fmt.Sprintf("append: %T", args[1]))
	case "copy":
		dst, _ := args[0].([]Value)
		switch src := args[1].(type) {
		case Str:
			n := src.Len()
			if len(dst) < n {
				n = len(dst)
			}
			for i := 0; i < n; i++ {
				dst[i] = e.strByte(src, i)
			}
			e.tick(n / 4)
			return e.intC(int64(n))
		case []Value:
			n := len(src)
			if len(dst) < n {
				n = len(dst)
			}
			for i := 0; i < n; i++ {
				e.fixPoison(&src[i], nil)
			}
			// memmove semantics
			tmp := make([]Value, n)
			for i := 0; i < n; i++ {
				tmp[i] = copyVal(src[i])
			}
			for i := 0; i < n; i++ {
				storeVal(&dst[i], tmp[i])
			}
			e.tick(n / 4)
			return e.intC(int64(n))
		}
		panic(fmt.Sprintf("copy: %T", args[1]))
	case "close":
		e.chanClose(caller, args[0])
		return nil
	case "delete":
		m, ok := args[0].(*Map)
		if !ok {
			e.unsupported("delete on non-map")
		}
		e.mapDelete(caller, m, args[1])
		return nil
	case "clear":
		switch x := args[0].(type) {
		case *Map:
			if x != nil {
				for _, ent := range x.Ents {
					ent.k = nil
				}
				x.Ents = nil
				x.idx = map[string]int{}
				x.hasSym = false
			}
		case []Value:
			e.unsupported("clear(slice)")
		}
		return nil
	case "print", "println":
		var sb strings.Builder
		for i, a := range args {
			if i > 0 {
				sb.WriteString(" ")
			}
			sb.WriteString(describe(a))
		}
		fmt.Fprintln(os.Stderr, sb.String())
		return nil
	case "len":
		switch x := args[0].(type) {
		case Str:
			return e.intC(int64(x.Len()))
		case Array:
			return e.intC(int64(len(x)))
		case *Value:
			return e.intC(int64(len((*x).(Array))))
		case []Value:
			return e.intC(int64(len(x)))
		case *Map:
			if x == nil {
				return e.intC(0)
			}
			return e.intC(int64(len(x.Ents)))
		case *Chan:
			if x == nil {
				return e.intC(0)
			}
			return e.intC(int64(len(x.buf)))
		case Opaque:
			return x
		}
		panic(fmt.Sprintf("len: %T", args[0]))
	case "cap":
		switch x := args[0].(type) {
		case Array:
			return e.intC(int64(len(x)))
		case *Value:
			return e.intC(int64(len((*x).(Array))))
		case []Value:
			return e.intC(int64(cap(x)))
		case *Chan:
			if x == nil {
				return e.intC(0)
			}
			return e.intC(int64(x.cap))
		}
		panic(fmt.Sprintf("cap: %T", args[0]))
	case "min", "max":
		res := args[0]
		sig := fn.Type().(*types.Signature)
		t := sig.Params().At(0).Type()
		for _, a := range args[1:] {
			var less Value
			if fn.Name() == "min" {
				less = e.binop(caller, token.LSS, t, a, res)
			} else {
				less = e.binop(caller, token.GTR, t, a, res)
			}
			lt := less.(*sym.Term)
			switch rv := res.(type) {
			case *sym.Term:
				res = e.T.Ite(lt, a.(*sym.Term), rv)
			default:
				if e.Branch(lt) {
					res = a
				}
			}
		}
		return res
	case "panic":
		panic(targetPanic{v: args[0], where: e.where(caller)})
	case "recover":
		return e.doRecover(caller)
	case "ssa:wrapnilchk":
		recv := args[0]
		if p, ok := recv.(*Value); ok && p == nil {
			e.rtPanic(caller, "value method called using nil pointer")
		}
		return recv
	case "ssa:deferstack":
		return &caller.defers
	case "real", "imag", "complex":
		return Opaque{"complex"}
	case "SliceData":
		s, _ := args[0].([]Value)
		return UnsafePtr{P: SliceDataPtr{S: s}}
	case "StringData":
		return UnsafePtr{P: StrDataPtr{S: args[0].(Str)}}
	case "String":
		n := e.concreteInt(caller, args[1], 4096, "unsafe.String len")
		switch p := unwrapUnsafe(args[0]).(type) {
		case SliceDataPtr:
			return e.bytesToStr(caller, p.S[:n])
		case StrDataPtr:
			return e.strSlice(p.S, 0, int(n))
		case nil:
			if n == 0 {
				return Str{}
			}
		case *Value:
			if n == 0 {
				return Str{}
			}
			if n == 1 {
				return e.bytesToStr(caller, []Value{*p})
			}
		}
		e.unsupported(fmt.Sprintf("unsafe.String on %T", args[0]))
	case "Slice":
		n := e.concreteInt(caller, args[1], 4096, "unsafe.Slice len")
		switch p := unwrapUnsafe(args[0]).(type) {
		case SliceDataPtr:
			return p.S[:n]
		case StrDataPtr:
			return e.strToBytes(e.strSlice(p.S, 0, int(n)))
		case nil:
			if n == 0 {
				return []Value(nil)
			}
		}
		e.unsupported(fmt.Sprintf("unsafe.Slice on %T", args[0]))
	}
	panic("unknown built-in: " + fn.Name())
}

func unwrapUnsafe(v Value) Value {
	if u, ok := v.(UnsafePtr); ok {
		return u.P
	}
	return v
}

// selectTree is cell(idx) for a symbolic idx known to lie in [0,n): short
// tables as an ite chain, longer ones as a balanced ite tree over unsigned
// comparisons (depth log n instead of n, subtrees of equal cells collapse).
// For a table of constants the value range is added to the path condition as
// a lemma (valid, so it changes no verdict; it saves the solver from
// rediscovering it through the tree).
func (e *Engine) selectTree(idx *sym.Term, n int, cell func(i int) *sym.Term) *sym.Term {
	if n <= 8 {
		res := cell(n - 1)
		for i := n - 2; i >= 0; i-- {
			res = e.T.Ite(e.T.Eq(idx, e.intC(int64(i))), cell(i), res)
		}
		return res
	}
	cells := make([]*sym.Term, n)
	allConst := true
	for i := range cells {
		cells[i] = cell(i)
		if !cells[i].IsConst() {
			allConst = false
		}
	}
	var build func(lo, hi int) *sym.Term
	build = func(lo, hi int) *sym.Term {
		if lo == hi {
			return cells[lo]
		}
		mid := (lo + hi) / 2
		l, r := build(lo, mid), build(mid+1, hi)
		if l == r {
			return l
		}
		return e.T.Ite(e.T.Ult(idx, e.intC(int64(mid+1))), l, r)
	}
	res := build(0, n-1)
	if allConst && !cells[0].IsBool() && !res.IsConst() {
		mn, mx := cells[0].V, cells[0].V
		for _, c := range cells {
			if c.V < mn {
				mn = c.V
			}
			if c.V > mx {
				mx = c.V
			}
		}
		w := cells[0].W
		e.addPC(e.T.And(e.T.Ule(e.T.Const(w, mn), res), e.T.Ule(res, e.T.Const(w, mx))))
	}
	return res
}

// Package interp is a symbolic interpreter for go/ssa. Its structure follows
// golang.org/x/tools/go/ssa/interp (boxed values, pointers as Go pointers to
// cells), but every integer and boolean is a sym.Term, so that inputs can be
// SMT variables, and branches on non-constant terms are decided by a solver.
package interp

import (
	"fmt"
	"go/types"
	"strings"
	"sync"

	"golang.org/x/tools/go/ssa"
	"verif/engine/sym"
)

// Value is one of:
//
//	*sym.Term            bool and all integer kinds (width from static type)
//	float64              float32/float64 (concrete only)
//	Str                  string (concrete text or vector of byte terms)
//	[]Value              slice (nil slice = []Value(nil))
//	Array                array value
//	Struct               struct value
//	*Value               pointer
//	SymPtr               pointer to slice element with symbolic index
//	*Map                 map
//	Iface                interface
//	*ssa.Function, *Closure, *ssa.Builtin   functions
//	*Chan                channel
//	Tuple                multiple results
//	Opaque               result of unsupported operation (poisons what uses it)
//	Poison               uninitialised "stale capacity" cell
//	RType                reflect.Type stand-in
//	UnsafePtr            unsafe.Pointer wrapping a pointer value
type Value interface{}

type Tuple []Value
type Array []Value
type Struct []Value

type Iface struct {
	T types.Type
	V Value
}

type Closure struct {
	Fn  *ssa.Function
	Env []Value
}

type Opaque struct{ Why string }
type Poison struct{}
type RType struct{ T types.Type }
type UnsafePtr struct{ P Value }

// SymPtr addresses s[idx] for a symbolic idx already known to be in bounds.
type SymPtr struct {
	S   []Value
	Idx *sym.Term // 64-bit
}

// Str is an immutable string: concrete text, or a vector of 8-bit terms.
type Str struct {
	S string
	B []*sym.Term // non-nil => symbolic content, len(B) is the length
}

func (s Str) Len() int {
	if s.B != nil {
		return len(s.B)
	}
	return len(s.S)
}

func (s Str) IsConcrete() bool {
	if s.B == nil {
		return true
	}
	for _, b := range s.B {
		if !b.IsConst() {
			return false
		}
	}
	return true
}

// Concrete returns the text if all bytes are constants.
func (s Str) Concrete() (string, bool) {
	if s.B == nil {
		return s.S, true
	}
	bs := make([]byte, len(s.B))
	for i, b := range s.B {
		if !b.IsConst() {
			return "", false
		}
		bs[i] = byte(b.V)
	}
	return string(bs), true
}

func (e *Engine) strByte(s Str, i int) *sym.Term {
	if s.B != nil {
		return s.B[i]
	}
	return e.T.Const(8, uint64(s.S[i]))
}

func (e *Engine) strBytes(s Str) []*sym.Term {
	if s.B != nil {
		return s.B
	}
	out := make([]*sym.Term, len(s.S))
	for i := 0; i < len(s.S); i++ {
		out[i] = e.T.Const(8, uint64(s.S[i]))
	}
	return out
}

func mkStr(bs []*sym.Term) Str {
	all := true
	for _, b := range bs {
		if !b.IsConst() {
			all = false
			break
		}
	}
	if all {
		raw := make([]byte, len(bs))
		for i, b := range bs {
			raw[i] = byte(b.V)
		}
		return Str{S: string(raw)}
	}
	if bs == nil {
		bs = []*sym.Term{}
	}
	return Str{B: bs}
}

func (e *Engine) strConcat(a, b Str) Str {
	if a.B == nil && b.B == nil {
		return Str{S: a.S + b.S}
	}
	out := append(append([]*sym.Term{}, e.strBytes(a)...), e.strBytes(b)...)
	return Str{B: out}
}

func (e *Engine) strSlice(a Str, lo, hi int) Str {
	if a.B == nil {
		return Str{S: a.S[lo:hi]}
	}
	return mkStr(a.B[lo:hi:hi])
}

// strEq returns a Bool term.
func (e *Engine) strEq(a, b Str) *sym.Term {
	if a.Len() != b.Len() {
		return e.T.False
	}
	if a.B == nil && b.B == nil {
		return e.T.Bool(a.S == b.S)
	}
	r := e.T.True
	for i := 0; i < a.Len(); i++ {
		r = e.T.And(r, e.T.Eq(e.strByte(a, i), e.strByte(b, i)))
		if r.IsFalse() {
			return r
		}
	}
	return r
}

// strLess returns a Bool term for a < b (bytewise).
func (e *Engine) strLess(a, b Str) *sym.Term {
	if a.B == nil && b.B == nil {
		return e.T.Bool(a.S < b.S)
	}
	n := a.Len()
	if b.Len() < n {
		n = b.Len()
	}
	// result if all first n bytes equal:
	res := e.T.Bool(a.Len() < b.Len())
	for i := n - 1; i >= 0; i-- {
		x, y := e.strByte(a, i), e.strByte(b, i)
		res = e.T.Ite(e.T.Ult(x, y), e.T.True, e.T.Ite(e.T.Eq(x, y), res, e.T.False))
	}
	return res
}

// ---- maps ----

type mapEnt struct {
	k, v Value
}

type Map struct {
	KT      types.Type
	Ents    []*mapEnt
	idx     map[string]int // fast path for concrete hashable keys -> position in Ents
	hasSym  bool           // some key is symbolic (then idx is not used)
	Nondet  bool
	Version int
}

func newMap(kt types.Type) *Map {
	return &Map{KT: kt, idx: map[string]int{}}
}

// concreteKey returns a canonical string for a fully concrete key.
func concreteKey(v Value) (string, bool) {
	switch v := v.(type) {
	case *sym.Term:
		if v.IsConst() {
			return fmt.Sprintf("i%d:%d", v.W, v.V), true
		}
		return "", false
	case Str:
		s, ok := v.Concrete()
		return "s" + s, ok
	case float64:
		return fmt.Sprintf("f%v", v), true
	case *Value:
		return fmt.Sprintf("p%p", v), true
	case *Chan:
		return fmt.Sprintf("c%p", v), true
	case *Map:
		return fmt.Sprintf("m%p", v), true
	case Iface:
		if v.T == nil {
			return "nil", true
		}
		s, ok := concreteKey(v.V)
		return fmt.Sprintf("I%d/", typeID(v.T)) + s, ok
	case Struct:
		var sb strings.Builder
		sb.WriteString("{")
		for _, f := range v {
			s, ok := concreteKey(f)
			if !ok {
				return "", false
			}
			sb.WriteString(s + ",")
		}
		sb.WriteString("}")
		return sb.String(), true
	case Array:
		var sb strings.Builder
		sb.WriteString("[")
		for _, f := range v {
			s, ok := concreteKey(f)
			if !ok {
				return "", false
			}
			sb.WriteString(s + ",")
		}
		sb.WriteString("]")
		return sb.String(), true
	case RType:
		return fmt.Sprintf("T%d", typeID(v.T)), true
	case UnsafePtr:
		return concreteKey(v.P)
	}
	return "", false
}

// ---- channels (single-threaded semantics + scheduler hooks) ----

type Chan struct {
	buf         []Value
	cap         int
	closed      bool
	elem        types.Type
	sendq       []*sendItem
	recvWaiting int
}

// ---- zero values ----

func (e *Engine) zero(t types.Type) Value {
	switch t := t.(type) {
	case *types.Basic:
		if t.Kind() == types.UntypedNil {
			panic("untyped nil has no zero value")
		}
		if t.Info()&types.IsUntyped != 0 {
			t = types.Default(t).(*types.Basic)
		}
		switch {
		case t.Info()&types.IsBoolean != 0:
			return e.T.False
		case t.Info()&types.IsInteger != 0:
			w, _ := intWidth(t)
			return e.T.Const(w, 0)
		case t.Info()&types.IsFloat != 0:
			return float64(0)
		case t.Info()&types.IsString != 0:
			return Str{}
		case t.Kind() == types.UnsafePointer:
			return UnsafePtr{}
		case t.Info()&types.IsComplex != 0:
			return Opaque{"complex"}
		}
	case *types.Pointer:
		return (*Value)(nil)
	case *types.Array:
		a := make(Array, t.Len())
		for i := range a {
			a[i] = e.zero(t.Elem())
		}
		return a
	case *types.Named:
		return e.zero(t.Underlying())
	case *types.Alias:
		return e.zero(types.Unalias(t))
	case *types.Interface:
		return Iface{}
	case *types.Slice:
		return []Value(nil)
	case *types.Struct:
		s := make(Struct, t.NumFields())
		for i := range s {
			s[i] = e.zero(t.Field(i).Type())
		}
		return s
	case *types.Tuple:
		if t.Len() == 1 {
			return e.zero(t.At(0).Type())
		}
		s := make(Tuple, t.Len())
		for i := range s {
			s[i] = e.zero(t.At(i).Type())
		}
		return s
	case *types.Chan:
		return (*Chan)(nil)
	case *types.Map:
		return (*Map)(nil)
	case *types.Signature:
		return (*ssa.Function)(nil)
	case *types.TypeParam:
		panic("zero of type parameter")
	}
	panic(fmt.Sprintf("zero: unexpected type %T %v", t, t))
}

// intWidth returns bit width and signedness of an integer/bool basic type.
func intWidth(t types.Type) (int, bool) {
	b, ok := t.Underlying().(*types.Basic)
	if !ok {
		if _, isPtr := t.Underlying().(*types.Pointer); isPtr {
			return 64, false
		}
		panic(fmt.Sprintf("intWidth of %v", t))
	}
	switch b.Kind() {
	case types.Bool, types.UntypedBool:
		return 0, false
	case types.Int8:
		return 8, true
	case types.Int16:
		return 16, true
	case types.Int32, types.UntypedRune:
		return 32, true
	case types.Int64, types.Int, types.UntypedInt:
		return 64, true
	case types.Uint8:
		return 8, false
	case types.Uint16:
		return 16, false
	case types.Uint32:
		return 32, false
	case types.Uint64, types.Uint, types.Uintptr:
		return 64, false
	case types.UnsafePointer:
		return 64, false
	}
	panic(fmt.Sprintf("intWidth of %v", t))
}

func isInteger(t types.Type) bool {
	b, ok := t.Underlying().(*types.Basic)
	return ok && b.Info()&types.IsInteger != 0
}
func isFloat(t types.Type) bool {
	b, ok := t.Underlying().(*types.Basic)
	return ok && b.Info()&types.IsFloat != 0
}
func isString(t types.Type) bool {
	b, ok := t.Underlying().(*types.Basic)
	return ok && b.Info()&types.IsString != 0
}
func isBool(t types.Type) bool {
	b, ok := t.Underlying().(*types.Basic)
	return ok && b.Info()&types.IsBoolean != 0
}

// copyVal makes an unaliased copy of an aggregate value (struct/array); other
// values are immutable or references.
func copyVal(v Value) Value {
	switch v := v.(type) {
	case Struct:
		a := make(Struct, len(v))
		for i := range v {
			a[i] = copyVal(v[i])
		}
		return a
	case Array:
		a := make(Array, len(v))
		for i := range v {
			a[i] = copyVal(v[i])
		}
		return a
	}
	return v
}

// storeVal stores v into *addr preserving the identity of nested cells (so
// pointers to fields of *addr stay valid).
func storeVal(addr *Value, v Value) {
	switch rhs := v.(type) {
	case Struct:
		if lhs, ok := (*addr).(Struct); ok && len(lhs) == len(rhs) {
			for i := range lhs {
				storeVal(&lhs[i], rhs[i])
			}
			return
		}
		*addr = copyVal(rhs)
	case Array:
		if lhs, ok := (*addr).(Array); ok && len(lhs) == len(rhs) {
			for i := range lhs {
				storeVal(&lhs[i], rhs[i])
			}
			return
		}
		*addr = copyVal(rhs)
	default:
		*addr = v
	}
}

func typeString(t types.Type) string {
	if t == nil {
		return "<nil>"
	}
	return t.String()
}

// describe renders a value for samples/debugging.
func describe(v Value) string {
	switch v := v.(type) {
	case nil:
		return "<nil>"
	case *sym.Term:
		return v.String()
	case Str:
		if s, ok := v.Concrete(); ok {
			return fmt.Sprintf("%q", s)
		}
		return fmt.Sprintf("str[%d sym]", len(v.B))
	case []Value:
		if v == nil {
			return "[]nil"
		}
		if len(v) > 16 {
			return fmt.Sprintf("slice[%d]", len(v))
		}
		var sb strings.Builder
		sb.WriteString("[")
		for i, x := range v {
			if i > 0 {
				sb.WriteString(" ")
			}
			sb.WriteString(describe(x))
		}
		sb.WriteString("]")
		return sb.String()
	case Struct:
		return fmt.Sprintf("struct{%d}", len(v))
	case Iface:
		if v.T == nil {
			return "iface(nil)"
		}
		return "iface(" + v.T.String() + ")"
	case *Value:
		if v == nil {
			return "ptr(nil)"
		}
		return fmt.Sprintf("ptr(%p)", v)
	case Opaque:
		return "opaque(" + v.Why + ")"
	}
	return fmt.Sprintf("%T", v)
}

// typeID numbers types up to types.Identical (an alias and the type it names
// get the same number; their String() differs).
var (
	typeRegMu    sync.Mutex
	typeReg      []types.Type
	typeRegCache = map[types.Type]int{}
)

func typeID(t types.Type) int {
	typeRegMu.Lock()
	defer typeRegMu.Unlock()
	if id, ok := typeRegCache[t]; ok {
		return id
	}
	for i, u := range typeReg {
		if types.Identical(t, u) {
			typeRegCache[t] = i
			return i
		}
	}
	typeReg = append(typeReg, t)
	typeRegCache[t] = len(typeReg) - 1
	return len(typeReg) - 1
}

package interp

import (
	"fmt"
	"go/types"
	"os"
	"sort"
	"strings"
	"sync"
	"time"

	"golang.org/x/tools/go/ssa"
	"verif/engine/sym"
)

// ---- path termination signals (Go panics that target code cannot recover) ----

type pathEnd struct {
	kind string // "assume", "violation-end", "fuel", "unsupported", "depth", "deadlock", "exit"
	msg  string
}

// targetPanic is a panic raised by (or on behalf of) the interpreted program.
type targetPanic struct {
	v       Value  // the panic value (an Iface)
	runtime bool   // Go run-time error (index out of range, nil deref, ...)
	msg     string // text for run-time errors
	where   string
}

func (p targetPanic) String() string {
	if p.runtime {
		return "runtime error: " + p.msg + " @ " + p.where
	}
	if i, ok := p.v.(Iface); ok {
		if s, ok := i.V.(Str); ok {
			if c, ok := s.Concrete(); ok {
				return "panic: " + c + " @ " + p.where
			}
		}
		return "panic(" + typeString(i.T) + ") @ " + p.where
	}
	return "panic @ " + p.where
}

// Violation is an assertion failure with its witness.
type Violation struct {
	Harness string            `json:"harness"`
	Msg     string            `json:"assertion"`
	Where   string            `json:"where"`
	Model   map[string]uint64 `json:"model"`
	Symbols []string          `json:"symbols"` // creation order
	Choices []int64           `json:"choices"`
	Notes   []string          `json:"notes,omitempty"`
	PathLen int               `json:"path_len"`
}

// PathResult summarises one explored path.
type PathResult struct {
	Outcome    string // ok, panic, assume, fuel, unsupported, depth, engine-error, deadlock
	Detail     string
	Violations []*Violation
	Covers     []string
	Decisions  int
	SymBranch  int
	Instrs     int
	PCHash     string
	Sample     map[string]uint64
	Notes      []string
	Stubs      []string
	Assumes    int
	Unknowns   int
	Funcs      map[string]bool
}

// Config is shared by all workers of one harness run.
type Config struct {
	Prog       *ssa.Program
	Tier       int
	SolverKind string
	TimeoutMs  int
	MaxInstrs  int
	MaxDepth   int
	StubPkgs   map[string]bool // packages whose functions are no-ops returning zero
	Params     map[string]int
	Trace      bool
	SharedInit bool
	EagerAll   bool
	EagerInit  []string // packages initialised before the harness runs (registries the real program fills at start-up)
}

// Engine is one worker: term store, solver, and the state of the current path.
type Engine struct {
	blockFrame *frame // frame of the intrinsic about to block (deadlock messages)
	jsonPath []string // field path of the json.Unmarshal in progress (messages only)
	cfg   *Config
	T     *sym.Store
	S     *sym.Solver
	prog  *ssa.Program
	sizes types.Sizes

	// per path
	pc            []*sym.Term
	prefix        []int64
	decisions     []int64
	cursor        int
	newWork       [][]int64
	fresh         map[string]int
	symOrder      []string
	symTerms      map[string]*sym.Term
	instrs        int
	maxInstrs     int
	noPanic       bool
	covers        map[string]bool
	notes         []string
	stubsUsed     map[string]bool
	replace       map[string]Value
	stubPkgs      map[string]bool
	violations    []*Violation
	symBranches   int
	assumes       int
	unknowns      int
	poisonReads   int
	globals       map[*ssa.Global]*Value
	pkgInit       map[*ssa.Package]int // 0 none, 1 running, 2 done, 3 never (globals marked)
	forceInit     map[string]bool
	pools         map[*Value][]Value // sync.Pool contents in recycling mode (verif.PoolReuse)
	finishBudget  int                // verif.MustFinish: instruction count at which the bound is exceeded (0 = off)
	finishMsg     string
	sharedGlobals map[*ssa.Global]*Value
	sharedInit    map[*ssa.Package]int
	mapNondet     bool
	harness       string
	funcs         map[string]bool
	maxAlloc      int
	kv            map[string]Value // per-path scratch store (variable stub etc.)
	condWaiters   map[*Value][]*condWaiter
	sleepPark     bool             // time.Sleep parks non-main goroutines until WakeSleepers
	sleepGen      int
	sleepers      int
	mutexes       map[*Value]int
	sched         *scheduler
	timers        []*timerRec
	depth         int
	lastModel     map[string]uint64
	violSites     map[string]bool
	curFr         *frame
	inInit        int
}

func NewEngine(cfg *Config) (*Engine, error) {
	e := &Engine{cfg: cfg, T: sym.NewStore(), prog: cfg.Prog,
		sizes:         types.SizesFor("gc", "amd64"),
		sharedGlobals: map[*ssa.Global]*Value{}, sharedInit: map[*ssa.Package]int{},
		violSites: map[string]bool{}}
	s, err := sym.NewSolver(cfg.SolverKind, e.T, cfg.TimeoutMs)
	if err != nil {
		return nil, err
	}
	e.S = s
	return e, nil
}

func (e *Engine) Close() { e.S.Close() }

func (e *Engine) resetPath(prefix []int64) {
	e.jsonPath = nil
	e.pc = e.pc[:0]
	e.prefix = prefix
	e.decisions = e.decisions[:0]
	e.cursor = 0
	e.newWork = nil
	e.fresh = map[string]int{}
	e.symOrder = nil
	e.symTerms = map[string]*sym.Term{}
	e.instrs = 0
	e.maxInstrs = e.cfg.MaxInstrs
	e.noPanic = false
	e.covers = map[string]bool{}
	e.notes = nil
	e.stubsUsed = map[string]bool{}
	e.replace = map[string]Value{}
	e.stubPkgs = map[string]bool{}
	for k := range e.cfg.StubPkgs {
		e.stubPkgs[k] = true
	}
	e.violations = nil
	e.symBranches = 0
	e.assumes = 0
	e.unknowns = 0
	e.poisonReads = 0
	e.globals = map[*ssa.Global]*Value{}
	e.pkgInit = map[*ssa.Package]int{}
	e.mapNondet = false
	e.funcs = map[string]bool{}
	e.maxAlloc = 0
	e.kv = map[string]Value{}
	e.pools = nil
	e.sleepPark, e.sleepGen, e.sleepers = false, 0, 0
	e.condWaiters = nil
	e.finishBudget, e.finishMsg = 0, ""
	e.mutexes = map[*Value]int{}
	e.sched = nil
	e.timers = nil
	e.depth = 0
	e.inInit = 0
}

// ---- symbols ----

func (e *Engine) freshName(label string) string {
	k := e.fresh[label]
	e.fresh[label] = k + 1
	return fmt.Sprintf("%s#%d", label, k)
}

func (e *Engine) NewSym(label string, w int) *sym.Term {
	name := e.freshName(label)
	t := e.T.Var(name, w)
	e.symOrder = append(e.symOrder, name)
	e.symTerms[name] = t
	return t
}

// ---- solver interface ----

func (e *Engine) check(extra ...*sym.Term) sym.Result {
	as := make([]*sym.Term, 0, len(e.pc)+len(extra))
	as = append(as, e.pc...)
	as = append(as, extra...)
	t0 := time.Now()
	r := e.S.Check(as)
	if d := time.Since(t0); d > 5*time.Second && os.Getenv("VCHECK_SLOW") != "" {
		fmt.Fprintf(os.Stderr, "SLOW query %.1fs %v at %s\n", d.Seconds(), r, e.where(e.curFr))
	}
	if r == sym.Unknown {
		e.unknowns++
	}
	return r
}

func (e *Engine) addPC(c *sym.Term) {
	if c.IsTrue() {
		return
	}
	e.pc = append(e.pc, c)
}

func (e *Engine) pushWork(alt int64) {
	w := make([]int64, len(e.decisions)+1)
	copy(w, e.decisions)
	w[len(e.decisions)] = alt
	e.newWork = append(e.newWork, w)
}

// Branch decides a Bool term, forking when both sides are feasible.
func (e *Engine) Branch(c *sym.Term) bool {
	if c.IsTrue() {
		return true
	}
	if c.IsFalse() {
		return false
	}
	e.symBranches++
	if len(e.decisions) >= e.cfg.MaxDepth {
		panic(pathEnd{"depth", fmt.Sprintf("more than %d decisions on one path", e.cfg.MaxDepth)})
	}
	var d int64
	if e.cursor < len(e.prefix) {
		d = e.prefix[e.cursor]
	} else {
		// quick check with the last model, if it still satisfies pc (it does: pc
		// only grew by constraints that the model satisfied when it was taken).
		known := -1
		if e.lastModel != nil {
			if v, ok := sym.Eval(c, e.lastModel, nil); ok {
				known = int(v)
			}
		}
		nc := e.T.Not(c)
		switch known {
		case 1:
			// true side feasible; test false side
			if r := e.check(nc); r == sym.Unsat {
				d = 0
			} else {
				e.pushWork(1)
				d = 0
				if r == sym.Sat {
					// keep lastModel (it satisfies c)
				}
			}
		case 0:
			if r := e.check(c); r == sym.Unsat {
				d = 1
			} else {
				e.pushWork(0)
				d = 1
			}
		default:
			rt := e.check(c)
			if rt == sym.Unsat {
				d = 1
			} else {
				rf := e.check(nc)
				if rf == sym.Unsat {
					d = 0
				} else {
					e.pushWork(1)
					d = 0
				}
			}
		}
	}
	e.cursor++
	e.decisions = append(e.decisions, d)
	if d == 0 {
		e.addPC(c)
		return true
	}
	e.addPC(e.T.Not(c))
	if e.lastModel != nil {
		// model may no longer satisfy pc
		if v, ok := sym.Eval(c, e.lastModel, nil); !ok || v != 0 {
			e.lastModel = nil
		}
	}
	return false
}

// refreshModel asks the solver for a model of the current pc and caches it.
func (e *Engine) refreshModel() bool {
	if e.check() != sym.Sat {
		return false
	}
	m, err := e.S.Model(e.pathVars())
	if err != nil {
		return false
	}
	e.lastModel = m
	return true
}

func (e *Engine) pathVars() []*sym.Term {
	vs := make([]*sym.Term, 0, len(e.symOrder))
	for _, n := range e.symOrder {
		vs = append(vs, e.symTerms[n])
	}
	return vs
}

// Concretize forks over the feasible values of t (at most max of them).
func (e *Engine) Concretize(t *sym.Term, max int, what string) int64 {
	if t.IsConst() {
		return t.SignedVal()
	}
	e.symBranches++
	if len(e.decisions) >= e.cfg.MaxDepth {
		panic(pathEnd{"depth", "decision depth"})
	}
	var v int64
	if e.cursor < len(e.prefix) {
		v = e.prefix[e.cursor]
	} else {
		var vals []int64
		var block []*sym.Term
		for {
			r := e.check(block...)
			if r == sym.Unsat {
				break
			}
			if r == sym.Unknown {
				panic(pathEnd{"unsupported", "solver unknown while concretising " + what})
			}
			m, err := e.S.Model(e.pathVars())
			if err != nil {
				panic(pathEnd{"unsupported", "no model while concretising " + what})
			}
			u, ok := sym.Eval(t, m, nil)
			if !ok {
				panic(pathEnd{"unsupported", "cannot evaluate while concretising " + what})
			}
			c := e.T.Const(t.W, u)
			vals = append(vals, c.SignedVal())
			block = append(block, e.T.Not(e.T.Eq(t, c)))
			if len(vals) > max {
				panic(pathEnd{"bound", fmt.Sprintf("more than %d feasible values for %s", max, what)})
			}
		}
		if len(vals) == 0 {
			panic(pathEnd{"assume", "infeasible path at concretisation"})
		}
		sort.Slice(vals, func(i, j int) bool { return vals[i] < vals[j] })
		v = vals[0]
		for _, o := range vals[1:] {
			e.pushWork(o)
		}
		e.lastModel = nil
	}
	e.cursor++
	e.decisions = append(e.decisions, v)
	e.addPC(e.T.Eq(t, e.T.Const(t.W, uint64(v))))
	return v
}

// Choose forks over n alternatives (all assumed feasible).
func (e *Engine) Choose(n int) int {
	if n <= 1 {
		return 0
	}
	var v int64
	if e.cursor < len(e.prefix) {
		v = e.prefix[e.cursor]
	} else {
		v = 0
		for i := 1; i < n; i++ {
			e.pushWork(int64(i))
		}
	}
	e.cursor++
	e.decisions = append(e.decisions, v)
	return int(v)
}

func (e *Engine) Assume(c *sym.Term) {
	e.assumes++
	if c.IsTrue() {
		return
	}
	if c.IsFalse() {
		panic(pathEnd{"assume", "assumption false"})
	}
	if e.cursor < len(e.prefix) {
		// replaying: feasibility was established the first time
		e.addPC(c)
		return
	}
	if e.lastModel != nil {
		if v, ok := sym.Eval(c, e.lastModel, nil); ok && v == 1 {
			e.addPC(c)
			return
		}
	}
	r := e.check(c)
	if r == sym.Unsat {
		panic(pathEnd{"assume", "assumption infeasible"})
	}
	e.lastModel = nil
	e.addPC(c)
}

func (e *Engine) where(fr *frame) string {
	if fr == nil {
		return "?"
	}
	for f := fr; f != nil; f = f.caller {
		if f.curPos.IsValid() {
			p := e.prog.Fset.Position(f.curPos)
			fn := p.Filename
			if i := strings.LastIndex(fn, "/"); i >= 0 {
				fn = fn[i+1:]
			}
			return fmt.Sprintf("%s:%d (%s)", fn, p.Line, f.fn.Name())
		}
	}
	return fr.fn.String()
}

// Assert checks c on the current path; on failure records a violation and
// continues under the assumption that c holds (if that is feasible).
func (e *Engine) Assert(c *sym.Term, msg string, where string) {
	if c.IsTrue() {
		return
	}
	r := e.check(e.T.Not(c))
	if r == sym.Unsat {
		return
	}
	if r == sym.Unknown {
		e.notes = append(e.notes, "UNKNOWN assertion: "+msg)
		panic(pathEnd{"unknown", "solver gave no verdict on assertion: " + msg})
	}
	m, err := e.S.Model(e.pathVars())
	if err != nil {
		panic(pathEnd{"unknown", "no model for violated assertion: " + msg})
	}
	e.recordViolation(msg, where, m)
	// continue assuming the assertion
	if c.IsFalse() {
		panic(pathEnd{"violation-end", msg})
	}
	if e.check(c) != sym.Sat {
		panic(pathEnd{"violation-end", msg})
	}
	e.lastModel = nil
	e.addPC(c)
}

func (e *Engine) recordViolation(msg, where string, m map[string]uint64) {
	v := &Violation{Harness: e.harness, Msg: msg, Where: where, Model: m,
		Symbols: append([]string{}, e.symOrder...), Choices: append([]int64{}, e.decisions...),
		Notes: append([]string{}, e.notes...), PathLen: len(e.decisions)}
	e.violations = append(e.violations, v)
}

// finishViolation reports that the code between verif.MustFinish and verif.Finished did
// not come back (step bound exceeded, or every goroutine blocked for ever).
func (e *Engine) finishViolation(detail string) {
	msg := "engine: " + e.finishMsg
	e.finishBudget = 0
	if e.check(e.T.True) != sym.Sat {
		panic(pathEnd{"unknown", "path condition not satisfiable at MustFinish bound"})
	}
	m, err := e.S.Model(e.pathVars())
	if err != nil {
		panic(pathEnd{"unknown", "no model at MustFinish bound"})
	}
	if detail != "" {
		e.notes = append(e.notes, detail)
	}
	e.recordViolation(msg, "MustFinish", m)
	panic(pathEnd{"violation-end", msg})
}

func (e *Engine) tick(n int) {
	e.instrs += n
	if e.finishBudget > 0 && e.instrs > e.finishBudget {
		// verif.MustFinish: the code under test did not come back within its step bound
		e.finishViolation("")
	}
	if e.instrs > e.maxInstrs {
		panic(pathEnd{"fuel", fmt.Sprintf("more than %d instructions on one path (last at %s)", e.maxInstrs, e.where(e.curFr))})
	}
}

func (e *Engine) unsupported(why string) {
	panic(pathEnd{"unsupported", why})
}

// RunPath executes entry under the given decision prefix.
func (e *Engine) RunPath(entry *ssa.Function, prefix []int64) (res *PathResult, work [][]int64) {
	e.resetPath(prefix)
	e.harness = entry.Name()
	e.lastModel = nil
	res = &PathResult{}
	t0 := time.Now()
	_ = t0
	func() {
		defer func() {
			r := recover()
			switch p := r.(type) {
			case nil:
				res.Outcome = "ok"
			case pathEnd:
				res.Outcome = p.kind
				res.Detail = p.msg
			case targetPanic:
				res.Outcome = "panic"
				res.Detail = p.String()
				if e.noPanic {
					// a panic escaping the harness is a violation of the no-panic claim
					var m map[string]uint64
					if e.check() == sym.Sat {
						m, _ = e.S.Model(e.pathVars())
					}
					if m == nil {
						m = map[string]uint64{}
					}
					e.recordViolation("no-panic: "+p.String(), p.where, m)
				}
			default:
				res.Outcome = "engine-error"
				res.Detail = fmt.Sprintf("%v", r)
				if e.cfg.Trace {
					panic(r)
				}
				if os.Getenv("VCHECK_STACK") != "" {
					res.Detail += "\n" + shortStack()
				}
			}
		}()
		for _, pth := range e.cfg.EagerInit {
			if e.prog.ImportedPackage(pth) != nil {
				e.InitPackage(pth)
			}
		}
		if entry.Pkg != nil {
			// Go initialises every imported package before main: do so for the
			// first-party packages (registries of variables, codecs, balancers...);
			// third-party and standard packages stay lazy.
			if e.cfg.EagerAll {
				for _, pth := range firstPartyInitOrder(entry.Pkg.Pkg) {
					if e.prog.ImportedPackage(pth) != nil && !e.stubPkgs[pth] {
						e.InitPackage(pth)
					}
				}
			}
			e.InitPackage(entry.Pkg.Pkg.Path())
		}
		e.callFunction(nil, entry, nil, nil)
		if e.sched != nil {
			e.sched.finishMain()
		}
	}()
	if e.sched != nil {
		e.sched.killAll()
		e.sched = nil
	}
	res.Violations = e.violations
	for c := range e.covers {
		res.Covers = append(res.Covers, c)
	}
	sort.Strings(res.Covers)
	res.Decisions = len(e.decisions)
	res.SymBranch = e.symBranches
	res.Instrs = e.instrs
	res.Notes = e.notes
	res.Assumes = e.assumes
	res.Unknowns = e.unknowns
	res.Funcs = e.funcs
	for s := range e.stubsUsed {
		res.Stubs = append(res.Stubs, s)
	}
	var sb strings.Builder
	for _, d := range e.decisions {
		fmt.Fprintf(&sb, "%d,", d)
	}
	res.PCHash = sb.String()
	return res, e.newWork
}

// SampleModel returns a satisfying assignment for the path just run.
func (e *Engine) SampleModel() map[string]uint64 {
	if e.check() != sym.Sat {
		return nil
	}
	m, err := e.S.Model(e.pathVars())
	if err != nil {
		return nil
	}
	return m
}

var initOrderCache = map[*types.Package][]string{}
var initOrderMu sync.Mutex

func firstParty(path string) bool {
	return strings.HasPrefix(path, "mosn.io/mosn/") || strings.HasPrefix(path, "mosn.io/pkg/") || strings.HasPrefix(path, "mosn.io/api")
}

// firstPartyInitOrder lists the first-party packages imported (transitively)
// by pkg in dependency order.
func firstPartyInitOrder(pkg *types.Package) []string {
	initOrderMu.Lock()
	defer initOrderMu.Unlock()
	if o, ok := initOrderCache[pkg]; ok {
		return o
	}
	var order []string
	seen := map[*types.Package]bool{}
	var visit func(p *types.Package)
	visit = func(p *types.Package) {
		if seen[p] {
			return
		}
		seen[p] = true
		for _, imp := range p.Imports() {
			visit(imp)
		}
		if p != pkg && firstParty(p.Path()) && !strings.Contains(p.Path(), "zzverif") {
			order = append(order, p.Path())
		}
	}
	visit(pkg)
	initOrderCache[pkg] = order
	return order
}

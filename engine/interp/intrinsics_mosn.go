package interp

import (
	"go/types"

	"golang.org/x/tools/go/ssa"
	"verif/engine/sym"
)

func init() {
	// buffer.setIndex pokes TempBufferCtx.index through the interface words; do
	// the same on engine values.
	reg("mosn.io/pkg/buffer.setIndex", func(e *Engine, fr *frame, fn *ssa.Function, a []Value) Value {
		itf := a[0].(Iface)
		p, ok := itf.V.(*Value)
		if !ok || p == nil {
			e.unsupported("buffer.setIndex on non-pointer pool ctx")
		}
		st, ok := deref(itf.T).Underlying().(*types.Struct)
		if !ok {
			e.unsupported("buffer.setIndex: pool ctx is not a struct")
		}
		idx := a[1].(*sym.Term)
		// the embedded TempBufferCtx must be the first field for the unsafe cast to work
		f0 := st.Field(0)
		if n, ok := f0.Type().(*types.Named); !ok || n.Obj().Name() != "TempBufferCtx" {
			e.unsupported("buffer.setIndex: first field is not TempBufferCtx")
		}
		(*p).(Struct)[0].(Struct)[0] = idx
		return nil
	})
}

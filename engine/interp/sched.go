package interp

import (
	"fmt"
	"go/types"
	"sync"

	"golang.org/x/tools/go/ssa"
	"verif/engine/sym"
)

// Cooperative scheduler: interpreted goroutines are real goroutines passing a
// baton; scheduling points are atomics, mutex and channel operations, go
// statements and verif.Yield. Which runnable goroutine continues is a forked
// choice bounded by a context-switch budget.

type goroutine struct {
	blockedOn string
	id      int
	wake    chan struct{}
	done    bool
	blocked func() bool // non-nil and true => not runnable
}

type scheduler struct {
	e        *Engine
	gs       []*goroutine
	cur      *goroutine
	switches int
	budget   int
	abort    interface{}
	dead     bool
	wg       sync.WaitGroup
	trace    []int
}

type timerRec struct {
	fn      Value
	args    []Value
	stopped bool
	fired   bool
	obj     *Value
}

func (e *Engine) ensureSched() *scheduler {
	if e.sched == nil {
		main := &goroutine{id: 0, wake: make(chan struct{}, 1)}
		e.sched = &scheduler{e: e, gs: []*goroutine{main}, cur: main, budget: e.switchBudget()}
	}
	return e.sched
}

func (e *Engine) switchBudget() int {
	if v, ok := e.kv["__switch_budget"]; ok {
		return int(v.(*sym.Term).V)
	}
	return 2
}

func (s *scheduler) runnable() []*goroutine {
	var r []*goroutine
	// current goroutine first so that choice 0 means "continue"
	if s.cur != nil && !s.cur.done && (s.cur.blocked == nil || !s.cur.blocked()) {
		r = append(r, s.cur)
	}
	for _, g := range s.gs {
		if g == s.cur || g.done {
			continue
		}
		if g.blocked != nil && g.blocked() {
			continue
		}
		r = append(r, g)
	}
	return r
}

// yield is a scheduling point of the current goroutine.
func (s *scheduler) yield() {
	cur := s.cur
	run := s.runnable()
	if len(run) == 0 {
		msg := "all goroutines blocked"
		for _, g := range s.gs {
			if !g.done && g.blockedOn != "" {
				msg += fmt.Sprintf("; g%d: %s", g.id, g.blockedOn)
			}
		}
		if s.e != nil && s.e.finishBudget > 0 && s.cur == s.gs[0] {
			s.e.finishViolation(msg)
		}
		panic(pathEnd{"deadlock", msg})
	}
	curRunnable := run[0] == cur
	var next *goroutine
	switch {
	case len(run) == 1:
		next = run[0]
	case curRunnable && s.switches >= s.budget:
		next = cur
	default:
		next = run[s.e.Choose(len(run))]
	}
	if next != cur {
		if curRunnable {
			s.switches++
		}
		s.switchTo(next)
	}
}

func (s *scheduler) switchTo(next *goroutine) {
	cur := s.cur
	s.cur = next
	s.trace = append(s.trace, next.id)
	next.wake <- struct{}{}
	if cur.done {
		return
	}
	<-cur.wake
	if s.dead {
		panic(pathEnd{"killed", ""})
	}
	if s.abort != nil && cur.id == 0 {
		a := s.abort
		s.abort = nil
		panic(a)
	}
}

// blockUntil parks the current goroutine until ready() holds.
func (e *Engine) blockUntil(ready func() bool, what string) {
	if ready() {
		return
	}
	if e.sched == nil {
		if e.finishBudget > 0 {
			// inside a verif.MustFinish window: the code under test blocks on itself for ever
			e.finishViolation("the only goroutine blocks for ever on " + what)
		}
		panic(pathEnd{"deadlock", "single goroutine blocks forever on " + what})
	}
	s := e.sched
	cur := s.cur
	cur.blockedOn = what
	if e.blockFrame != nil {
		cur.blockedOn = what + " at " + e.where(e.blockFrame)
	}
	for !ready() {
		cur.blocked = func() bool { return !ready() }
		s.yield()
	}
	cur.blocked = nil
	cur.blockedOn = ""
}

func (e *Engine) yield() {
	if e.sched != nil {
		e.sched.yield()
	}
}

func (e *Engine) goStmt(fr *frame, instr *ssa.Go, fn Value, args []Value) {
	if v, ok := e.kv["__go_mode"]; ok {
		switch v.(*sym.Term).V {
		case 1: // ignore
			e.stubsUsed["go-ignored:"+e.where(fr)] = true
			return
		case 2: // inline
			e.call(fr, instr.Pos(), fn, args)
			return
		}
	}
	s := e.ensureSched()
	g := &goroutine{id: len(s.gs), wake: make(chan struct{}, 1)}
	s.gs = append(s.gs, g)
	s.wg.Add(1)
	go func() {
		defer s.wg.Done()
		<-g.wake
		if s.dead {
			return
		}
		defer func() {
			r := recover()
			g.done = true
			if s.dead {
				return
			}
			if r != nil {
				if pe, ok := r.(pathEnd); ok && pe.kind == "killed" {
					return
				}
				// hand the abort to the main goroutine
				s.abort = r
				main := s.gs[0]
				s.cur = main
				main.wake <- struct{}{}
				return
			}
			// normal exit: pass the baton
			run := s.runnable()
			if len(run) == 0 {
				// everyone else blocked: report through main
				s.abort = pathEnd{"deadlock", "all goroutines blocked after exit of goroutine"}
				main := s.gs[0]
				s.cur = main
				main.wake <- struct{}{}
				return
			}
			var next *goroutine
			if len(run) == 1 || s.switches >= s.budget {
				next = run[0]
			} else {
				func() {
					defer func() {
						if r2 := recover(); r2 != nil {
							s.abort = r2
							next = s.gs[0]
						}
					}()
					next = run[s.e.Choose(len(run))]
				}()
			}
			s.cur = next
			s.trace = append(s.trace, next.id)
			next.wake <- struct{}{}
		}()
		gfr := &frame{e: e, fn: fr.fn, g: g}
		e.call(gfr, instr.Pos(), fn, args)
	}()
	s.yield()
}

// finishMain lets the remaining runnable goroutines run after the harness returns.
func (s *scheduler) finishMain() {
	main := s.gs[0]
	for {
		var next *goroutine
		for _, g := range s.gs[1:] {
			if !g.done && (g.blocked == nil || !g.blocked()) {
				next = g
				break
			}
		}
		if next == nil {
			return
		}
		main.blocked = func() bool {
			for _, g := range s.gs[1:] {
				if !g.done && (g.blocked == nil || !g.blocked()) {
					return true
				}
			}
			return false
		}
		s.switchTo(next)
		main.blocked = nil
	}
}

func (s *scheduler) killAll() {
	s.dead = true
	for _, g := range s.gs[1:] {
		if !g.done {
			select {
			case g.wake <- struct{}{}:
			default:
			}
		}
	}
	s.wg.Wait()
}

// ---- channels ----

type sendItem struct {
	v     Value
	taken bool
}

var _ = fmt.Sprint

func (e *Engine) chanOf(fr *frame, v Value) *Chan {
	c, ok := v.(*Chan)
	if !ok {
		e.unsupported(fmt.Sprintf("channel op on %T", v))
	}
	return c
}

func (e *Engine) chanSendReady(c *Chan) bool {
	if c.closed {
		return true
	}
	if c.cap > 0 {
		return len(c.buf) < c.cap
	}
	return c.recvWaiting > 0 && len(c.buf) == 0
}

func (e *Engine) chanRecvReady(c *Chan) bool {
	return len(c.buf) > 0 || len(c.sendq) > 0 || c.closed
}

func (e *Engine) chanSend(fr *frame, cv Value, v Value) {
	c := e.chanOf(fr, cv)
	e.yield()
	if c == nil {
		e.blockUntil(func() bool { return false }, "send on nil channel")
	}
	if c.closed {
		panic(targetPanic{runtime: true, msg: "send on closed channel", where: e.where(fr)})
	}
	if c.cap > 0 {
		e.blockUntil(func() bool { return len(c.buf) < c.cap || c.closed }, "channel send")
		if c.closed {
			panic(targetPanic{runtime: true, msg: "send on closed channel", where: e.where(fr)})
		}
		c.buf = append(c.buf, copyVal(v))
		return
	}
	it := &sendItem{v: copyVal(v)}
	c.sendq = append(c.sendq, it)
	e.blockUntil(func() bool { return it.taken || c.closed }, "unbuffered channel send")
	if !it.taken {
		panic(targetPanic{runtime: true, msg: "send on closed channel", where: e.where(fr)})
	}
}

func (e *Engine) chanTake(c *Chan) (Value, bool) {
	if len(c.buf) > 0 {
		v := c.buf[0]
		c.buf = c.buf[1:]
		return v, true
	}
	if len(c.sendq) > 0 {
		it := c.sendq[0]
		c.sendq = c.sendq[1:]
		it.taken = true
		return it.v, true
	}
	return nil, false
}

func (e *Engine) chanRecv(fr *frame, instr *ssa.UnOp, cv Value) Value {
	c := e.chanOf(fr, cv)
	e.yield()
	if c == nil {
		e.blockUntil(func() bool { return false }, "receive on nil channel")
	}
	c.recvWaiting++
	e.blockUntil(func() bool { return e.chanRecvReady(c) }, "channel receive")
	c.recvWaiting--
	v, ok := e.chanTake(c)
	if !ok {
		v = e.zero(instr.X.Type().Underlying().(*types.Chan).Elem())
	}
	if instr.CommaOk {
		return Tuple{v, e.T.Bool(ok)}
	}
	return v
}

func (e *Engine) chanClose(fr *frame, cv Value) {
	c := e.chanOf(fr, cv)
	if c == nil {
		e.rtPanic(fr, "close of nil channel")
	}
	if c.closed {
		panic(targetPanic{runtime: true, msg: "close of closed channel", where: e.where(fr)})
	}
	c.closed = true
}

func (e *Engine) selectStmt(fr *frame, instr *ssa.Select) Value {
	e.yield()
	type cs struct {
		c    *Chan
		send bool
		v    Value
	}
	var cases []cs
	for _, st := range instr.States {
		c := e.chanOf(fr, fr.get(st.Chan))
		k := cs{c: c, send: st.Dir == types.SendOnly}
		if k.send {
			k.v = fr.get(st.Send)
		}
		cases = append(cases, k)
	}
	ready := func() []int {
		var r []int
		for i, k := range cases {
			if k.c == nil {
				continue
			}
			if k.send && e.chanSendReady(k.c) {
				r = append(r, i)
			}
			if !k.send && e.chanRecvReady(k.c) {
				r = append(r, i)
			}
		}
		return r
	}
	r := ready()
	chosen := -1
	if len(r) == 0 {
		if !instr.Blocking {
			chosen = -1
		} else {
			for _, k := range cases {
				if k.c != nil && !k.send {
					k.c.recvWaiting++
				}
			}
			e.blockUntil(func() bool { return len(ready()) > 0 }, "select")
			for _, k := range cases {
				if k.c != nil && !k.send {
					k.c.recvWaiting--
				}
			}
			r = ready()
		}
	}
	if len(r) > 0 {
		chosen = r[e.Choose(len(r))]
	}
	res := Tuple{e.intC(int64(chosen)), e.T.False}
	var recvVal Value
	recvOk := false
	if chosen >= 0 {
		k := cases[chosen]
		if k.send {
			if k.c.closed {
				panic(targetPanic{runtime: true, msg: "send on closed channel", where: e.where(fr)})
			}
			k.c.buf = append(k.c.buf, copyVal(k.v))
		} else {
			recvVal, recvOk = e.chanTake(k.c)
		}
	}
	res[1] = e.T.Bool(recvOk)
	for i, st := range instr.States {
		if st.Dir == types.RecvOnly {
			var v Value
			if i == chosen && recvOk {
				v = recvVal
			} else {
				v = e.zero(st.Chan.Type().Underlying().(*types.Chan).Elem())
			}
			res = append(res, v)
		}
	}
	return res
}

// settle lets every other goroutine run until it blocks or exits.
func (e *Engine) settle() {
	if e.sched == nil {
		return
	}
	s := e.sched
	cur := s.cur
	others := func() bool {
		for _, g := range s.gs {
			if g != cur && !g.done && (g.blocked == nil || !g.blocked()) {
				return true
			}
		}
		return false
	}
	for others() {
		cur.blocked = others
		s.yield()
		cur.blocked = nil
	}
}

package interp

import (
	"fmt"
	"go/token"
	"go/types"
	"math"
	"sort"
	"strings"

	"golang.org/x/tools/go/ssa"
	"verif/engine/sym"
)

type intrinsicFn func(e *Engine, fr *frame, fn *ssa.Function, args []Value) Value

var intrinsics = map[string]intrinsicFn{}

const verifPkg = "mosn.io/mosn/pkg/zzverif/verif"

// ReflectVal stands in for reflect.Value of an interface value.
type ReflectVal struct{ I Iface }

type condWaiter struct{ woken bool }

// SliceDataPtr / StrDataPtr model unsafe.SliceData / unsafe.StringData results.
type SliceDataPtr struct{ S []Value }
type StrDataPtr struct{ S Str }

func reg(name string, f intrinsicFn) { intrinsics[name] = f }

func (e *Engine) concStr(v Value, what string) string {
	s, ok := v.(Str)
	if !ok {
		e.unsupported(what + ": not a string")
	}
	c, ok := s.Concrete()
	if !ok {
		e.unsupported(what + ": symbolic string")
	}
	return c
}

func (e *Engine) concInt(v Value, what string) int64 {
	t, ok := v.(*sym.Term)
	if !ok || !t.IsConst() {
		e.unsupported(what + ": not a concrete integer")
	}
	return t.SignedVal()
}

// fieldPtr returns the address of the named field of the struct *recv whose
// static type is taken from fn's receiver.
func (e *Engine) fieldPtr(fr *frame, fn *ssa.Function, recv Value, name string) *Value {
	p := e.derefCheck(fr, recv)
	rt := fn.Signature.Recv().Type()
	st := deref(rt).Underlying().(*types.Struct)
	for i := 0; i < st.NumFields(); i++ {
		if st.Field(i).Name() == name {
			return &(*p).(Struct)[i]
		}
	}
	panic("no field " + name + " in " + rt.String())
}

func tupleOf(vs ...Value) Value { return Tuple(vs) }

func init() {
	// ------------------------------------------------------------ verif API
	v := func(n string, f intrinsicFn) { reg(verifPkg+"."+n, f) }
	mkInt := func(w int) intrinsicFn {
		return func(e *Engine, fr *frame, fn *ssa.Function, a []Value) Value {
			return e.NewSym(e.concStr(a[0], "verif name"), w)
		}
	}
	v("Bool", mkInt(0))
	v("U8", mkInt(8))
	v("U16", mkInt(16))
	v("U32", mkInt(32))
	v("U64", mkInt(64))
	v("I8", mkInt(8))
	v("I16", mkInt(16))
	v("I32", mkInt(32))
	v("I64", mkInt(64))
	v("Int", mkInt(64))
	v("LastU32", func(e *Engine, fr *frame, fn *ssa.Function, a []Value) Value {
		name := e.concStr(a[0], "verif name")
		k := e.fresh[name]
		if k == 0 {
			return e.T.Const(32, 0)
		}
		return e.symTerms[fmt.Sprintf("%s#%d", name, k-1)]
	})
	v("IntRange", func(e *Engine, fr *frame, fn *ssa.Function, a []Value) Value {
		x := e.NewSym(e.concStr(a[0], "verif name"), 64)
		lo, hi := a[1].(*sym.Term), a[2].(*sym.Term)
		e.Assume(e.T.And(e.T.Sle(lo, x), e.T.Sle(x, hi)))
		return x
	})
	v("Len", func(e *Engine, fr *frame, fn *ssa.Function, a []Value) Value {
		x := e.NewSym(e.concStr(a[0], "verif name"), 64)
		lo, hi := a[1].(*sym.Term), a[2].(*sym.Term)
		e.Assume(e.T.And(e.T.Sle(lo, x), e.T.Sle(x, hi)))
		n := e.Concretize(x, 1<<16, "verif.Len")
		return e.intC(n)
	})
	v("Choose", func(e *Engine, fr *frame, fn *ssa.Function, a []Value) Value {
		x := e.NewSym(e.concStr(a[0], "verif name"), 64)
		n := a[1].(*sym.Term)
		e.Assume(e.T.And(e.T.Sle(e.intC(0), x), e.T.Slt(x, n)))
		return e.intC(e.Concretize(x, 1<<16, "verif.Choose"))
	})
	v("Concrete", func(e *Engine, fr *frame, fn *ssa.Function, a []Value) Value {
		return e.intC(e.Concretize(a[0].(*sym.Term), 1<<16, "verif.Concrete"))
	})
	v("Bytes", func(e *Engine, fr *frame, fn *ssa.Function, a []Value) Value {
		name := e.concStr(a[0], "verif name")
		n := int(e.concInt(a[1], "verif.Bytes length"))
		out := make([]Value, n)
		for i := range out {
			out[i] = e.NewSym(name, 8)
		}
		return out
	})
	v("Str", func(e *Engine, fr *frame, fn *ssa.Function, a []Value) Value {
		name := e.concStr(a[0], "verif name")
		n := int(e.concInt(a[1], "verif.Str length"))
		out := make([]*sym.Term, n)
		for i := range out {
			out[i] = e.NewSym(name, 8)
		}
		return Str{B: out}
	})
	v("WithStaleCap", func(e *Engine, fr *frame, fn *ssa.Function, a []Value) Value {
		b, _ := a[0].([]Value)
		extra := int(e.concInt(a[1], "verif.WithStaleCap extra"))
		out := make([]Value, len(b)+extra)
		for i := range b {
			out[i] = b[i]
		}
		for i := len(b); i < len(out); i++ {
			out[i] = Poison{}
		}
		return out[:len(b)]
	})
	v("Havoc", func(e *Engine, fr *frame, fn *ssa.Function, a []Value) Value {
		b, _ := a[0].([]Value)
		b = b[:cap(b)]
		for i := range b {
			b[i] = e.NewSym("havoc", 8)
		}
		return nil
	})
	v("StaleReads", func(e *Engine, fr *frame, fn *ssa.Function, a []Value) Value {
		return e.intC(int64(e.poisonReads))
	})
	v("MaxAlloc", func(e *Engine, fr *frame, fn *ssa.Function, a []Value) Value {
		return e.intC(int64(e.maxAlloc))
	})
	v("AllocLimit", func(e *Engine, fr *frame, fn *ssa.Function, a []Value) Value {
		e.kv["__alloc_limit"] = a[0]
		return nil
	})
	v("AllocCeiling", func(e *Engine, fr *frame, fn *ssa.Function, a []Value) Value {
		e.kv["__alloc_ceiling"] = a[0]
		e.covers["assert:engine: one allocation larger than the harness's ceiling (memory sized by an announced length, not by what arrived)"] = true
		return nil
	})
	v("AllocCut", func(e *Engine, fr *frame, fn *ssa.Function, a []Value) Value {
		e.kv["__alloc_cut"] = a[0]
		return nil
	})
	v("Assume", func(e *Engine, fr *frame, fn *ssa.Function, a []Value) Value {
		e.Assume(a[0].(*sym.Term))
		return nil
	})
	v("Assert", func(e *Engine, fr *frame, fn *ssa.Function, a []Value) Value {
		msg := e.concStr(a[1], "assert message")
		e.covers["assert:"+msg] = true
		e.Assert(a[0].(*sym.Term), msg, e.where(fr))
		return nil
	})
	v("Cover", func(e *Engine, fr *frame, fn *ssa.Function, a []Value) Value {
		e.covers[e.concStr(a[0], "cover label")] = true
		return nil
	})
	v("Note", func(e *Engine, fr *frame, fn *ssa.Function, a []Value) Value {
		e.notes = append(e.notes, e.concStr(a[0], "note"))
		return nil
	})
	v("NoPanic", func(e *Engine, fr *frame, fn *ssa.Function, a []Value) Value {
		e.noPanic = true
		return nil
	})
	v("AllowPanic", func(e *Engine, fr *frame, fn *ssa.Function, a []Value) Value {
		e.noPanic = false
		return nil
	})
	v("Fuel", func(e *Engine, fr *frame, fn *ssa.Function, a []Value) Value {
		e.maxInstrs = int(e.concInt(a[0], "fuel"))
		return nil
	})
	v("MustFinish", func(e *Engine, fr *frame, fn *ssa.Function, a []Value) Value {
		e.finishBudget = e.instrs + int(e.concInt(a[0], "MustFinish"))
		if s, ok := a[1].(Str); ok {
			e.finishMsg, _ = s.Concrete()
		}
		return nil
	})
	v("Finished", func(e *Engine, fr *frame, fn *ssa.Function, a []Value) Value {
		e.finishBudget = 0
		return nil
	})
	v("Tier", func(e *Engine, fr *frame, fn *ssa.Function, a []Value) Value {
		return e.intC(int64(e.cfg.Tier))
	})
	v("Param", func(e *Engine, fr *frame, fn *ssa.Function, a []Value) Value {
		name := e.concStr(a[0], "param name")
		if pv, ok := e.cfg.Params[name]; ok {
			return e.intC(int64(pv))
		}
		if e.cfg.Tier == 0 {
			return a[1]
		}
		return a[2]
	})
	v("EngineOnly", func(e *Engine, fr *frame, fn *ssa.Function, a []Value) Value {
		e.notes = append(e.notes, "engine-only: "+e.concStr(a[0], "reason"))
		return nil
	})
	v("Symbolic", func(e *Engine, fr *frame, fn *ssa.Function, a []Value) Value {
		return e.T.True
	})
	v("Replace", func(e *Engine, fr *frame, fn *ssa.Function, a []Value) Value {
		name := e.concStr(a[0], "replace target")
		itf := a[1].(Iface)
		e.replace[name] = itf.V
		return nil
	})
	v("StubPackage", func(e *Engine, fr *frame, fn *ssa.Function, a []Value) Value {
		e.stubPkgs[e.concStr(a[0], "package path")] = true
		return nil
	})
	v("InitPackage", func(e *Engine, fr *frame, fn *ssa.Function, a []Value) Value {
		e.InitPackage(e.concStr(a[0], "package path"))
		return nil
	})
	v("MapOrderNondet", func(e *Engine, fr *frame, fn *ssa.Function, a []Value) Value {
		e.mapNondet = a[0].(*sym.Term).IsTrue()
		return nil
	})
	v("GoMode", func(e *Engine, fr *frame, fn *ssa.Function, a []Value) Value {
		e.kv["__go_mode"] = a[0]
		return nil
	})
	v("Switches", func(e *Engine, fr *frame, fn *ssa.Function, a []Value) Value {
		e.kv["__switch_budget"] = a[0]
		if e.sched != nil {
			e.sched.budget = int(a[0].(*sym.Term).V)
		}
		return nil
	})
	v("ParkSleepers", func(e *Engine, fr *frame, fn *ssa.Function, a []Value) Value {
		e.sleepPark = e.concInt(a[0], "ParkSleepers") != 0
		return nil
	})
	v("Sleepers", func(e *Engine, fr *frame, fn *ssa.Function, a []Value) Value {
		return e.intC(int64(e.sleepers))
	})
	v("WakeSleepers", func(e *Engine, fr *frame, fn *ssa.Function, a []Value) Value {
		e.sleepGen++
		return nil
	})
	v("Settle", func(e *Engine, fr *frame, fn *ssa.Function, a []Value) Value {
		e.settle()
		return nil
	})
	v("Yield", func(e *Engine, fr *frame, fn *ssa.Function, a []Value) Value {
		e.yield()
		return nil
	})
	v("Protect", func(e *Engine, fr *frame, fn *ssa.Function, a []Value) Value {
		// Protect(f) runs f and reports whether it panicked (true = panicked).
		panicked := false
		func() {
			defer func() {
				if r := recover(); r != nil {
					if tp, ok := r.(targetPanic); ok {
						panicked = true
						e.notes = append(e.notes, "caught "+tp.String())
						return
					}
					panic(r)
				}
			}()
			e.call(fr, token.NoPos, a[0], nil)
		}()
		return e.T.Bool(panicked)
	})
	v("NumTimers", func(e *Engine, fr *frame, fn *ssa.Function, a []Value) Value {
		n := 0
		for _, t := range e.timers {
			if !t.stopped && !t.fired {
				n++
			}
		}
		return e.intC(int64(n))
	})
	v("FireTimer", func(e *Engine, fr *frame, fn *ssa.Function, a []Value) Value {
		k := int(e.concInt(a[0], "timer index"))
		n := 0
		for _, t := range e.timers {
			if !t.stopped && !t.fired {
				if n == k {
					t.fired = true
					e.call(fr, token.NoPos, t.fn, t.args)
					return e.T.True
				}
				n++
			}
		}
		return e.T.False
	})
	v("CountString", func(e *Engine, fr *frame, fn *ssa.Function, a []Value) Value {
		target := a[1].(Str)
		seen := map[interface{}]bool{}
		return e.countString(a[0], target, seen, 0)
	})
	v("DeepEqual", func(e *Engine, fr *frame, fn *ssa.Function, a []Value) Value {
		return e.deepEqual(fr, a[0], a[1], 0)
	})
	v("UF8", func(e *Engine, fr *frame, fn *ssa.Function, a []Value) Value {
		// uninterpreted function of up to 3 byte arguments
		name := e.concStr(a[0], "uf name")
		return e.T.UF(name, 8, a[1].(*sym.Term), a[2].(*sym.Term))
	})

	// ------------------------------------------------------------ sync
	reg("(*sync.Mutex).Lock", func(e *Engine, fr *frame, fn *ssa.Function, a []Value) Value {
		p := e.derefCheck(fr, a[0])
		e.yield()
		e.blockFrame = fr
		e.blockUntil(func() bool { return e.mutexes[p] == 0 }, "Mutex.Lock")
		e.blockFrame = nil
		e.mutexes[p] = 1
		return nil
	})
	reg("(*sync.Mutex).TryLock", func(e *Engine, fr *frame, fn *ssa.Function, a []Value) Value {
		p := e.derefCheck(fr, a[0])
		e.yield()
		if e.mutexes[p] == 0 {
			e.mutexes[p] = 1
			return e.T.True
		}
		return e.T.False
	})
	reg("(*sync.Mutex).Unlock", func(e *Engine, fr *frame, fn *ssa.Function, a []Value) Value {
		p := e.derefCheck(fr, a[0])
		if e.mutexes[p] == 0 {
			panic(targetPanic{runtime: true, msg: "sync: unlock of unlocked mutex", where: e.where(fr)})
		}
		e.mutexes[p] = 0
		e.yield()
		return nil
	})
	// RWMutex: state = -1 writer, n>0 readers
	reg("(*sync.RWMutex).Lock", func(e *Engine, fr *frame, fn *ssa.Function, a []Value) Value {
		p := e.derefCheck(fr, a[0])
		e.yield()
		e.blockFrame = fr
		e.blockUntil(func() bool { return e.mutexes[p] == 0 }, "RWMutex.Lock")
		e.blockFrame = nil
		e.mutexes[p] = -1
		return nil
	})
	reg("(*sync.RWMutex).Unlock", func(e *Engine, fr *frame, fn *ssa.Function, a []Value) Value {
		p := e.derefCheck(fr, a[0])
		if e.mutexes[p] != -1 {
			panic(targetPanic{runtime: true, msg: "sync: Unlock of unlocked RWMutex", where: e.where(fr)})
		}
		e.mutexes[p] = 0
		e.yield()
		return nil
	})
	reg("(*sync.RWMutex).RLock", func(e *Engine, fr *frame, fn *ssa.Function, a []Value) Value {
		p := e.derefCheck(fr, a[0])
		e.yield()
		e.blockFrame = fr
		e.blockUntil(func() bool { return e.mutexes[p] >= 0 }, "RWMutex.RLock")
		e.blockFrame = nil
		e.mutexes[p]++
		return nil
	})
	reg("(*sync.RWMutex).RUnlock", func(e *Engine, fr *frame, fn *ssa.Function, a []Value) Value {
		p := e.derefCheck(fr, a[0])
		if e.mutexes[p] <= 0 {
			panic(targetPanic{runtime: true, msg: "sync: RUnlock of unlocked RWMutex", where: e.where(fr)})
		}
		e.mutexes[p]--
		e.yield()
		return nil
	})
	reg("(*sync.Once).Do", func(e *Engine, fr *frame, fn *ssa.Function, a []Value) Value {
		p := e.derefCheck(fr, a[0])
		if e.mutexes[p] != 0 {
			return nil
		}
		e.mutexes[p] = 1
		e.call(fr, token.NoPos, a[1], nil)
		return nil
	})
	reg("(*sync.WaitGroup).Add", func(e *Engine, fr *frame, fn *ssa.Function, a []Value) Value {
		p := e.derefCheck(fr, a[0])
		e.mutexes[p] += int(e.concInt(a[1], "WaitGroup.Add"))
		if e.mutexes[p] < 0 {
			panic(targetPanic{runtime: true, msg: "sync: negative WaitGroup counter", where: e.where(fr)})
		}
		return nil
	})
	reg("(*sync.WaitGroup).Done", func(e *Engine, fr *frame, fn *ssa.Function, a []Value) Value {
		p := e.derefCheck(fr, a[0])
		e.mutexes[p]--
		if e.mutexes[p] < 0 {
			panic(targetPanic{runtime: true, msg: "sync: negative WaitGroup counter", where: e.where(fr)})
		}
		e.yield()
		return nil
	})
	reg("(*sync.WaitGroup).Wait", func(e *Engine, fr *frame, fn *ssa.Function, a []Value) Value {
		p := e.derefCheck(fr, a[0])
		e.yield()
		e.blockUntil(func() bool { return e.mutexes[p] == 0 }, "WaitGroup.Wait")
		return nil
	})
	reg("(*sync.Pool).Get", func(e *Engine, fr *frame, fn *ssa.Function, a []Value) Value {
		if _, on := e.kv["__pool_reuse"]; on {
			// recycling mode: Get hands out the object put back last, or a fresh one
			if p, ok := a[0].(*Value); ok && len(e.pools[p]) > 0 && e.Choose(2) == 1 {
				items := e.pools[p]
				it := items[len(items)-1]
				e.pools[p] = items[:len(items)-1]
				return it
			}
		}
		nf := *e.fieldPtr(fr, fn, a[0], "New")
		switch f := nf.(type) {
		case *ssa.Function:
			if f == nil {
				return Iface{}
			}
		}
		return e.call(fr, token.NoPos, nf, nil)
	})
	reg("(*sync.Pool).Put", func(e *Engine, fr *frame, fn *ssa.Function, a []Value) Value {
		if _, on := e.kv["__pool_reuse"]; on {
			if p, ok := a[0].(*Value); ok {
				if e.pools == nil {
					e.pools = map[*Value][]Value{}
				}
				e.pools[p] = append(e.pools[p], a[1])
			}
		}
		return nil
	})
	reg(verifPkg+".PoolReuse", func(e *Engine, fr *frame, fn *ssa.Function, a []Value) Value {
		if t, ok := a[0].(*sym.Term); ok && t.IsTrue() {
			e.kv["__pool_reuse"] = true
		} else {
			delete(e.kv, "__pool_reuse")
		}
		return nil
	})
	// sync.Cond: every Wait takes a ticket; Broadcast wakes every ticket taken so far, Signal wakes
	// exactly one of the goroutines waiting at that moment - which one is a fork (the language does
	// not promise an order)
	reg("(*sync.Cond).Wait", func(e *Engine, fr *frame, fn *ssa.Function, a []Value) Value {
		p := e.derefCheck(fr, a[0])
		L := (*e.fieldPtr(fr, fn, a[0], "L")).(Iface)
		unlock := e.findMethod(L.T, "Unlock")
		lock := e.findMethod(L.T, "Lock")
		w := &condWaiter{}
		if e.condWaiters == nil {
			e.condWaiters = map[*Value][]*condWaiter{}
		}
		e.condWaiters[p] = append(e.condWaiters[p], w)
		e.callFunction(fr, unlock, []Value{L.V}, nil)
		e.blockUntil(func() bool { return w.woken }, "Cond.Wait")
		e.callFunction(fr, lock, []Value{L.V}, nil)
		return nil
	})
	reg("(*sync.Cond).Broadcast", func(e *Engine, fr *frame, fn *ssa.Function, a []Value) Value {
		p := e.derefCheck(fr, a[0])
		for _, w := range e.condWaiters[p] {
			w.woken = true
		}
		if e.condWaiters != nil {
			delete(e.condWaiters, p)
		}
		e.yield()
		return nil
	})
	reg("(*sync.Cond).Signal", func(e *Engine, fr *frame, fn *ssa.Function, a []Value) Value {
		p := e.derefCheck(fr, a[0])
		ws := e.condWaiters[p]
		if len(ws) > 0 {
			i := e.Choose(len(ws))
			ws[i].woken = true
			e.condWaiters[p] = append(append([]*condWaiter{}, ws[:i]...), ws[i+1:]...)
		}
		e.yield()
		return nil
	})
	reg("sync.NewCond", nil)
	delete(intrinsics, "sync.NewCond")

	// sync.Map as an insertion-ordered association list keyed by the struct cell
	smap := func(e *Engine, fr *frame, recv Value) *Map {
		p := e.derefCheck(fr, recv)
		key := "syncmap:" + fmt.Sprintf("%p", p)
		if m, ok := e.kv[key]; ok {
			return m.(*Map)
		}
		m := newMap(types.NewInterfaceType(nil, nil))
		e.kv[key] = m
		return m
	}
	reg("(*sync.Map).Load", func(e *Engine, fr *frame, fn *ssa.Function, a []Value) Value {
		e.yield()
		m := smap(e, fr, a[0])
		if i := e.mapFind(fr, m, a[1]); i >= 0 {
			return Tuple{m.Ents[i].v, e.T.True}
		}
		return Tuple{Iface{}, e.T.False}
	})
	reg("(*sync.Map).Store", func(e *Engine, fr *frame, fn *ssa.Function, a []Value) Value {
		e.yield()
		e.mapInsert(fr, smap(e, fr, a[0]), a[1], a[2])
		return nil
	})
	reg("(*sync.Map).LoadOrStore", func(e *Engine, fr *frame, fn *ssa.Function, a []Value) Value {
		e.yield()
		m := smap(e, fr, a[0])
		if i := e.mapFind(fr, m, a[1]); i >= 0 {
			return Tuple{m.Ents[i].v, e.T.True}
		}
		e.mapInsert(fr, m, a[1], a[2])
		return Tuple{a[2], e.T.False}
	})
	reg("(*sync.Map).LoadAndDelete", func(e *Engine, fr *frame, fn *ssa.Function, a []Value) Value {
		e.yield()
		m := smap(e, fr, a[0])
		if i := e.mapFind(fr, m, a[1]); i >= 0 {
			v := m.Ents[i].v
			e.mapDelete(fr, m, a[1])
			return Tuple{v, e.T.True}
		}
		return Tuple{Iface{}, e.T.False}
	})
	reg("(*sync.Map).Delete", func(e *Engine, fr *frame, fn *ssa.Function, a []Value) Value {
		e.yield()
		e.mapDelete(fr, smap(e, fr, a[0]), a[1])
		return nil
	})
	reg("(*sync.Map).Range", func(e *Engine, fr *frame, fn *ssa.Function, a []Value) Value {
		m := smap(e, fr, a[0])
		ents := append([]*mapEnt{}, m.Ents...)
		for _, ent := range ents {
			if ent.k == nil {
				continue
			}
			r := e.call(fr, token.NoPos, a[1], []Value{ent.k, ent.v})
			if !e.Branch(r.(*sym.Term)) {
				break
			}
		}
		return nil
	})

	// ------------------------------------------------------------ sync/atomic
	for _, ty := range []string{"Int32", "Int64", "Uint32", "Uint64", "Uintptr"} {
		ty := ty
		reg("sync/atomic.Add"+ty, func(e *Engine, fr *frame, fn *ssa.Function, a []Value) Value {
			e.yield()
			p := e.derefCheck(fr, a[0])
			nv := e.T.Add((*p).(*sym.Term), a[1].(*sym.Term))
			*p = nv
			return nv
		})
		reg("sync/atomic.Load"+ty, func(e *Engine, fr *frame, fn *ssa.Function, a []Value) Value {
			e.yield()
			return *e.derefCheck(fr, a[0])
		})
		reg("sync/atomic.Store"+ty, func(e *Engine, fr *frame, fn *ssa.Function, a []Value) Value {
			e.yield()
			*e.derefCheck(fr, a[0]) = a[1]
			return nil
		})
		reg("sync/atomic.Swap"+ty, func(e *Engine, fr *frame, fn *ssa.Function, a []Value) Value {
			e.yield()
			p := e.derefCheck(fr, a[0])
			old := *p
			*p = a[1]
			return old
		})
		reg("sync/atomic.CompareAndSwap"+ty, func(e *Engine, fr *frame, fn *ssa.Function, a []Value) Value {
			e.yield()
			p := e.derefCheck(fr, a[0])
			cur := (*p).(*sym.Term)
			eq := e.T.Eq(cur, a[1].(*sym.Term))
			*p = e.T.Ite(eq, a[2].(*sym.Term), cur)
			return eq
		})
		reg("sync/atomic.And"+ty, func(e *Engine, fr *frame, fn *ssa.Function, a []Value) Value {
			e.yield()
			p := e.derefCheck(fr, a[0])
			old := (*p).(*sym.Term)
			*p = e.T.BAnd(old, a[1].(*sym.Term))
			return old
		})
		reg("sync/atomic.Or"+ty, func(e *Engine, fr *frame, fn *ssa.Function, a []Value) Value {
			e.yield()
			p := e.derefCheck(fr, a[0])
			old := (*p).(*sym.Term)
			*p = e.T.BOr(old, a[1].(*sym.Term))
			return old
		})
	}
	reg("sync/atomic.LoadPointer", func(e *Engine, fr *frame, fn *ssa.Function, a []Value) Value {
		e.yield()
		return *e.derefCheck(fr, a[0])
	})
	reg("sync/atomic.StorePointer", func(e *Engine, fr *frame, fn *ssa.Function, a []Value) Value {
		e.yield()
		*e.derefCheck(fr, a[0]) = a[1]
		return nil
	})
	reg("sync/atomic.SwapPointer", func(e *Engine, fr *frame, fn *ssa.Function, a []Value) Value {
		e.yield()
		p := e.derefCheck(fr, a[0])
		old := *p
		*p = a[1]
		return old
	})
	reg("sync/atomic.CompareAndSwapPointer", func(e *Engine, fr *frame, fn *ssa.Function, a []Value) Value {
		e.yield()
		p := e.derefCheck(fr, a[0])
		eq := e.equals(fr, types.Typ[types.UnsafePointer], *p, a[1])
		if e.Branch(eq) {
			*p = a[2]
			return e.T.True
		}
		return e.T.False
	})
	reg("(*sync/atomic.Value).Load", func(e *Engine, fr *frame, fn *ssa.Function, a []Value) Value {
		e.yield()
		return *e.fieldPtr(fr, fn, a[0], "v")
	})
	reg("(*sync/atomic.Value).Store", func(e *Engine, fr *frame, fn *ssa.Function, a []Value) Value {
		e.yield()
		if a[1].(Iface).T == nil {
			panic(targetPanic{runtime: true, msg: "sync/atomic: store of nil value into Value", where: e.where(fr)})
		}
		*e.fieldPtr(fr, fn, a[0], "v") = a[1]
		return nil
	})
	reg("(*sync/atomic.Value).Swap", func(e *Engine, fr *frame, fn *ssa.Function, a []Value) Value {
		e.yield()
		p := e.fieldPtr(fr, fn, a[0], "v")
		old := *p
		*p = a[1]
		return old
	})
	reg("(*sync/atomic.Value).CompareAndSwap", func(e *Engine, fr *frame, fn *ssa.Function, a []Value) Value {
		e.yield()
		p := e.fieldPtr(fr, fn, a[0], "v")
		eq := e.equals(fr, types.NewInterfaceType(nil, nil), *p, a[1])
		if e.Branch(eq) {
			*p = a[2]
			return e.T.True
		}
		return e.T.False
	})

	// ------------------------------------------------------------ bytealg etc.
	idxByte := func(e *Engine, fr *frame, n int, at func(i int) *sym.Term, c *sym.Term) Value {
		for i := 0; i < n; i++ {
			if e.Branch(e.T.Eq(at(i), c)) {
				return e.intC(int64(i))
			}
		}
		return e.intC(-1)
	}
	reg("internal/bytealg.IndexByte", func(e *Engine, fr *frame, fn *ssa.Function, a []Value) Value {
		b, _ := a[0].([]Value)
		return idxByte(e, fr, len(b), func(i int) *sym.Term { e.fixPoison(&b[i], nil); return b[i].(*sym.Term) }, a[1].(*sym.Term))
	})
	reg("internal/bytealg.IndexByteString", func(e *Engine, fr *frame, fn *ssa.Function, a []Value) Value {
		s := a[0].(Str)
		return idxByte(e, fr, s.Len(), func(i int) *sym.Term { return e.strByte(s, i) }, a[1].(*sym.Term))
	})
	count := func(e *Engine, n int, at func(i int) *sym.Term, c *sym.Term) Value {
		r := e.intC(0)
		for i := 0; i < n; i++ {
			r = e.T.Add(r, e.T.Ite(e.T.Eq(at(i), c), e.intC(1), e.intC(0)))
		}
		return r
	}
	reg("internal/bytealg.Count", func(e *Engine, fr *frame, fn *ssa.Function, a []Value) Value {
		b, _ := a[0].([]Value)
		return count(e, len(b), func(i int) *sym.Term { e.fixPoison(&b[i], nil); return b[i].(*sym.Term) }, a[1].(*sym.Term))
	})
	reg("internal/bytealg.CountString", func(e *Engine, fr *frame, fn *ssa.Function, a []Value) Value {
		s := a[0].(Str)
		return count(e, s.Len(), func(i int) *sym.Term { return e.strByte(s, i) }, a[1].(*sym.Term))
	})
	reg("internal/bytealg.Equal", func(e *Engine, fr *frame, fn *ssa.Function, a []Value) Value {
		x, _ := a[0].([]Value)
		y, _ := a[1].([]Value)
		return e.strEq(e.bytesToStr(fr, x), e.bytesToStr(fr, y))
	})
	cmp := func(e *Engine, x, y Str) Value {
		lt := e.strLess(x, y)
		eq := e.strEq(x, y)
		return e.T.Ite(lt, e.intC(-1), e.T.Ite(eq, e.intC(0), e.intC(1)))
	}
	reg("internal/bytealg.Compare", func(e *Engine, fr *frame, fn *ssa.Function, a []Value) Value {
		x, _ := a[0].([]Value)
		y, _ := a[1].([]Value)
		return cmp(e, e.bytesToStr(fr, x), e.bytesToStr(fr, y))
	})
	reg("internal/bytealg.CompareString", func(e *Engine, fr *frame, fn *ssa.Function, a []Value) Value {
		return cmp(e, a[0].(Str), a[1].(Str))
	})
	reg("runtime.cmpstring", func(e *Engine, fr *frame, fn *ssa.Function, a []Value) Value {
		return cmp(e, a[0].(Str), a[1].(Str))
	})
	indexStr := func(e *Engine, fr *frame, s, sub Str) Value {
		n, m := s.Len(), sub.Len()
		if cs, ok := s.Concrete(); ok {
			if cb, ok := sub.Concrete(); ok {
				return e.intC(int64(strings.Index(cs, cb)))
			}
		}
		for i := 0; i+m <= n; i++ {
			if e.Branch(e.strEq(e.strSlice(s, i, i+m), sub)) {
				return e.intC(int64(i))
			}
		}
		return e.intC(-1)
	}
	reg("internal/bytealg.IndexString", func(e *Engine, fr *frame, fn *ssa.Function, a []Value) Value {
		return indexStr(e, fr, a[0].(Str), a[1].(Str))
	})
	reg("internal/bytealg.Index", func(e *Engine, fr *frame, fn *ssa.Function, a []Value) Value {
		x, _ := a[0].([]Value)
		y, _ := a[1].([]Value)
		return indexStr(e, fr, e.bytesToStr(fr, x), e.bytesToStr(fr, y))
	})
	reg("strings.Index", func(e *Engine, fr *frame, fn *ssa.Function, a []Value) Value {
		return indexStr(e, fr, a[0].(Str), a[1].(Str))
	})
	reg("internal/bytealg.MakeNoZero", func(e *Engine, fr *frame, fn *ssa.Function, a []Value) Value {
		n := e.concreteInt(fr, a[0], 4096, "MakeNoZero")
		out := make([]Value, n)
		z := e.T.Const(8, 0)
		for i := range out {
			out[i] = z
		}
		return out
	})
	// unique.Make: the canonical handle of a value (runtime weak-pointer map in the real
	// implementation). Canonical cells are kept per path; equality of the values is decided
	// by the solver (it forks only if the values are symbolic).
	reg("unique.Make", func(e *Engine, fr *frame, fn *ssa.Function, a []Value) Value {
		type uniq struct {
			v Value
			p *Value
		}
		var list []uniq
		if l, ok := e.kv["__unique"]; ok {
			list = l.([]uniq)
		}
		for _, u := range list {
			if e.Branch(e.deepEqual(fr, u.v, a[0], 0)) {
				return Struct{u.p}
			}
		}
		cell := copyVal(a[0])
		list = append(list, uniq{copyVal(a[0]), &cell})
		e.kv["__unique"] = list
		return Struct{&cell}
	})
	reg("internal/abi.NoEscape", func(e *Engine, fr *frame, fn *ssa.Function, a []Value) Value { return a[0] })
	reg("internal/abi.Escape", func(e *Engine, fr *frame, fn *ssa.Function, a []Value) Value { return a[0] })
	reg("strings.(*Builder).copyCheck", func(e *Engine, fr *frame, fn *ssa.Function, a []Value) Value { return nil })
	reg("(*strings.Builder).copyCheck", func(e *Engine, fr *frame, fn *ssa.Function, a []Value) Value { return nil })
	reg("internal/race.Enabled", nil)
	delete(intrinsics, "internal/race.Enabled")

	// ------------------------------------------------------------ runtime, os, time
	nop := func(e *Engine, fr *frame, fn *ssa.Function, a []Value) Value { return e.zeroResults(fn.Signature) }
	for _, n := range []string{"runtime.GC", "runtime.SetFinalizer", "runtime.KeepAlive", "runtime/debug.FreeOSMemory",
		"runtime/debug.SetGCPercent", "runtime.Stack", "runtime/debug.Stack", "runtime/debug.PrintStack", "runtime.Caller", "runtime.Callers", "runtime.FuncForPC",
		"os.Getenv", "os.LookupEnv", "os.Getpid", "os.Hostname", "runtime.LockOSThread", "runtime.UnlockOSThread",
		"internal/godebug.(*Setting).Value", "internal/godebug.(*Setting).IncNonDefault", "runtime.GOMAXPROCS"} {
		reg(n, nop)
	}
	// time.Sleep is a no-op, unless the harness asked for sleeping goroutines to be parked
	// (verif.ParkSleepers): then a sleeper other than the main goroutine blocks until
	// verif.WakeSleepers, so that the environment can act while the code is inside a back-off
	reg("time.Sleep", func(e *Engine, fr *frame, fn *ssa.Function, a []Value) Value {
		if e.sleepPark && e.sched != nil && e.sched.cur != e.sched.gs[0] {
			gen := e.sleepGen
			e.sleepers++
			e.blockUntil(func() bool { return e.sleepGen > gen }, "time.Sleep (parked)")
			e.sleepers--
		}
		return nil
	})
	reg("runtime.Gosched", func(e *Engine, fr *frame, fn *ssa.Function, a []Value) Value { e.yield(); return nil })
	reg("runtime.NumCPU", func(e *Engine, fr *frame, fn *ssa.Function, a []Value) Value { return e.intC(4) })
	reg("runtime.NumGoroutine", func(e *Engine, fr *frame, fn *ssa.Function, a []Value) Value { return e.intC(1) })
	reg("os.Exit", func(e *Engine, fr *frame, fn *ssa.Function, a []Value) Value {
		panic(pathEnd{"exit", "os.Exit called"})
	})
	reg("time.Now", func(e *Engine, fr *frame, fn *ssa.Function, a []Value) Value {
		// arbitrary but fixed instant; ext field counts calls so that time is non-decreasing
		z := e.zero(fn.Signature.Results().At(0).Type()).(Struct)
		k := e.fresh["__now"]
		e.fresh["__now"] = k + 1
		z[0] = e.T.Const(64, 0)
		z[1] = e.T.Const(64, uint64(1_000_000_000+int64(k)))
		return z
	})
	reg("time.runtimeNano", func(e *Engine, fr *frame, fn *ssa.Function, a []Value) Value { return e.intC(0) })
	reg("time.now", func(e *Engine, fr *frame, fn *ssa.Function, a []Value) Value {
		return Tuple{e.intC(0), e.T.Const(32, 0), e.intC(0)}
	})
	reg("time.AfterFunc", func(e *Engine, fr *frame, fn *ssa.Function, a []Value) Value {
		t := &timerRec{fn: a[1]}
		e.timers = append(e.timers, t)
		var cell Value = e.zero(deref(fn.Signature.Results().At(0).Type()))
		t.obj = &cell
		return &cell
	})
	reg("(*time.Timer).Stop", func(e *Engine, fr *frame, fn *ssa.Function, a []Value) Value {
		p, _ := a[0].(*Value)
		for _, t := range e.timers {
			if t.obj == p {
				was := !t.stopped && !t.fired
				t.stopped = true
				return e.T.Bool(was)
			}
		}
		return e.T.False
	})
	reg("(*time.Timer).Reset", func(e *Engine, fr *frame, fn *ssa.Function, a []Value) Value {
		p, _ := a[0].(*Value)
		for _, t := range e.timers {
			if t.obj == p {
				was := !t.stopped && !t.fired
				t.stopped = false
				t.fired = false
				return e.T.Bool(was)
			}
		}
		return e.T.False
	})

	// ------------------------------------------------------------ math
	f1 := func(f func(float64) float64) intrinsicFn {
		return func(e *Engine, fr *frame, fn *ssa.Function, a []Value) Value {
			x, ok := a[0].(float64)
			if !ok {
				return Opaque{"float intrinsic on symbolic"}
			}
			return f(x)
		}
	}
	reg("math.archSqrt", f1(math.Sqrt))
	reg("math.sqrt", f1(math.Sqrt))
	reg("math.Sqrt", f1(math.Sqrt))
	reg("math.archFloor", f1(math.Floor))
	reg("math.archCeil", f1(math.Ceil))
	reg("math.archTrunc", f1(math.Trunc))
	reg("math.Floor", f1(math.Floor))
	reg("math.Ceil", f1(math.Ceil))
	reg("math.Trunc", f1(math.Trunc))
	reg("math.archExp", f1(math.Exp))
	reg("math.archLog", f1(math.Log))
	reg("math.Exp", f1(math.Exp))
	reg("math.Log", f1(math.Log))
	reg("math.Abs", f1(math.Abs))
	f2 := func(f func(float64, float64) float64) intrinsicFn {
		return func(e *Engine, fr *frame, fn *ssa.Function, a []Value) Value {
			x, ok1 := a[0].(float64)
			y, ok2 := a[1].(float64)
			if !ok1 || !ok2 {
				return Opaque{"float intrinsic on symbolic"}
			}
			return f(x, y)
		}
	}
	for _, n := range []string{"math.Max", "math.archMax", "math.max"} {
		reg(n, f2(math.Max))
	}
	for _, n := range []string{"math.Min", "math.archMin", "math.min"} {
		reg(n, f2(math.Min))
	}
	reg("math.Mod", f2(math.Mod))
	reg("math.Hypot", f2(math.Hypot))
	reg("math.archHypot", f2(math.Hypot))
	reg("math.Pow", func(e *Engine, fr *frame, fn *ssa.Function, a []Value) Value {
		x, ok1 := a[0].(float64)
		y, ok2 := a[1].(float64)
		if !ok1 || !ok2 {
			return Opaque{"math.Pow on symbolic"}
		}
		return math.Pow(x, y)
	})
	reg("math.Float64bits", func(e *Engine, fr *frame, fn *ssa.Function, a []Value) Value {
		x, ok := a[0].(float64)
		if !ok {
			return Opaque{"Float64bits"}
		}
		return e.T.Const(64, math.Float64bits(x))
	})
	reg("math.Float64frombits", func(e *Engine, fr *frame, fn *ssa.Function, a []Value) Value {
		t := a[0].(*sym.Term)
		if !t.IsConst() {
			return Opaque{"Float64frombits of symbolic"}
		}
		return math.Float64frombits(t.V)
	})
	reg("math.Float32bits", func(e *Engine, fr *frame, fn *ssa.Function, a []Value) Value {
		x, ok := a[0].(float64)
		if !ok {
			return Opaque{"Float32bits"}
		}
		return e.T.Const(32, uint64(math.Float32bits(float32(x))))
	})
	reg("math.Float32frombits", func(e *Engine, fr *frame, fn *ssa.Function, a []Value) Value {
		t := a[0].(*sym.Term)
		if !t.IsConst() {
			return Opaque{"Float32frombits of symbolic"}
		}
		return float64(math.Float32frombits(uint32(t.V)))
	})

	// ------------------------------------------------------------ fmt / errors
	reg("fmt.Sprintf", func(e *Engine, fr *frame, fn *ssa.Function, a []Value) Value {
		return Str{S: e.format(fr, a[0], a[1])}
	})
	reg("fmt.Errorf", func(e *Engine, fr *frame, fn *ssa.Function, a []Value) Value {
		msg := Str{S: e.format(fr, a[0], a[1])}
		newErr := e.prog.ImportedPackage("errors").Func("New")
		return e.callFunction(fr, newErr, []Value{msg}, nil)
	})
	sprint := func(e *Engine, fr *frame, fn *ssa.Function, a []Value) Value {
		var sb strings.Builder
		for i, x := range a[0].([]Value) {
			if i > 0 {
				sb.WriteString(" ")
			}
			sb.WriteString(e.fmtValue(fr, x, 'v'))
		}
		return Str{S: sb.String()}
	}
	reg("fmt.Sprint", sprint)
	reg("fmt.Sprintln", sprint)
	for _, n := range []string{"fmt.Printf", "fmt.Println", "fmt.Print", "fmt.Fprintf", "fmt.Fprintln", "fmt.Fprint"} {
		reg(n, nop)
	}

	// ------------------------------------------------------------ reflect (tiny subset)
	reg("reflect.ValueOf", func(e *Engine, fr *frame, fn *ssa.Function, a []Value) Value {
		return ReflectVal{a[0].(Iface)}
	})
	reg("(reflect.Value).IsNil", func(e *Engine, fr *frame, fn *ssa.Function, a []Value) Value {
		rv, ok := a[0].(ReflectVal)
		if !ok {
			e.unsupported("reflect.Value.IsNil on non-intrinsic value")
		}
		switch x := rv.I.V.(type) {
		case *Value:
			return e.T.Bool(x == nil)
		case *Map:
			return e.T.Bool(x == nil)
		case []Value:
			return e.T.Bool(x == nil)
		case *Chan:
			return e.T.Bool(x == nil)
		case *ssa.Function:
			return e.T.Bool(x == nil)
		case *Closure:
			return e.T.Bool(x == nil)
		case Iface:
			return e.T.Bool(x.T == nil)
		case UnsafePtr:
			return e.T.Bool(x.P == nil)
		}
		panic(targetPanic{runtime: true, msg: "reflect: call of reflect.Value.IsNil on non-nillable value", where: e.where(fr)})
	})
	reg("(reflect.Value).IsValid", func(e *Engine, fr *frame, fn *ssa.Function, a []Value) Value {
		rv, ok := a[0].(ReflectVal)
		if !ok {
			e.unsupported("reflect.Value.IsValid on non-intrinsic value")
		}
		return e.T.Bool(rv.I.T != nil)
	})
	reg("reflect.DeepEqual", func(e *Engine, fr *frame, fn *ssa.Function, a []Value) Value {
		return e.deepEqual(fr, a[0], a[1], 0)
	})
	reg("reflect.TypeOf", func(e *Engine, fr *frame, fn *ssa.Function, a []Value) Value {
		return Opaque{"reflect.TypeOf"}
	})

	// strconv formatting of a symbolic integer needs 64-bit division by
	// constants, which no available solver decides in reasonable time; the
	// result is an opaque placeholder (listed as a stub).
	itoa := func(e *Engine, fr *frame, fn *ssa.Function, a []Value) Value {
		t := a[0].(*sym.Term)
		if t.IsConst() {
			return Str{S: fmt.Sprint(t.SignedVal())}
		}
		e.stubsUsed["strconv.Itoa(symbolic) -> placeholder"] = true
		return Str{S: "\x00itoa"}
	}
	reg("strconv.Itoa", itoa)

	// ------------------------------------------------------------ sort
	reg("sort.Slice", sortSlice)
	reg("sort.SliceStable", sortSlice)

	// ------------------------------------------------------------ math/rand (global functions)
	reg("math/rand.Intn", func(e *Engine, fr *frame, fn *ssa.Function, a []Value) Value {
		n := a[0].(*sym.Term)
		x := e.NewSym("rand.Intn", 64)
		e.Assume(e.T.And(e.T.Sle(e.intC(0), x), e.T.Slt(x, n)))
		return x
	})
	reg("math/rand.Int", func(e *Engine, fr *frame, fn *ssa.Function, a []Value) Value {
		x := e.NewSym("rand.Int", 64)
		e.Assume(e.T.Sle(e.intC(0), x))
		return x
	})
	reg("math/rand.Uint32", func(e *Engine, fr *frame, fn *ssa.Function, a []Value) Value {
		return e.NewSym("rand.Uint32", 32)
	})
	reg("math/rand.Seed", nop)
	// (*rand.Rand).Intn over a harness-supplied Source: the first draw is taken
	// as the result, under the assumption that it is below n (which is the
	// contract of the harness source: it returns draw<<32 with draw in [0,n)).
	reg("(*math/rand.Rand).Intn", func(e *Engine, fr *frame, fn *ssa.Function, a []Value) Value {
		n := a[0].(*sym.Term)
		if !e.Branch(e.T.Slt(e.intC(0), n)) {
			panic(targetPanic{runtime: true, msg: "invalid argument to Intn", where: e.where(fr)})
		}
		srcP := e.fieldPtr(fr, fn, a[0+0], "src")
		_ = srcP
		return nil
	})
	delete(intrinsics, "(*math/rand.Rand).Intn")
	randDraw := func(e *Engine, fr *frame, fn *ssa.Function, a []Value, n *sym.Term) *sym.Term {
		src := (*e.fieldPtr(fr, fn, a[0], "src")).(Iface)
		m := e.findMethod(src.T, "Int63")
		r := e.callFunction(fr, m, []Value{src.V}, nil).(*sym.Term)
		x := e.T.AShr(r, e.intC(32))
		e.Assume(e.T.And(e.T.Sle(e.intC(0), x), e.T.Slt(x, n)))
		return x
	}
	reg("(*math/rand.Rand).Intn", func(e *Engine, fr *frame, fn *ssa.Function, a []Value) Value {
		n := a[1].(*sym.Term)
		if !e.Branch(e.T.Slt(e.intC(0), n)) {
			panic(targetPanic{runtime: true, msg: "invalid argument to Intn", where: e.where(fr)})
		}
		return randDraw(e, fr, fn, a, n)
	})
	reg("(*math/rand.Rand).Int31n", func(e *Engine, fr *frame, fn *ssa.Function, a []Value) Value {
		n := a[1].(*sym.Term)
		if !e.Branch(e.T.Slt(e.T.Const(32, 0), n)) {
			panic(targetPanic{runtime: true, msg: "invalid argument to Int31n", where: e.where(fr)})
		}
		return e.T.Extract(randDraw(e, fr, fn, a, e.T.Sext(n, 64)), 31, 0)
	})
}

func sortSlice(e *Engine, fr *frame, fn *ssa.Function, a []Value) Value {
	itf := a[0].(Iface)
	s, _ := itf.V.([]Value)
	less := a[1]
	// insertion sort through the user-supplied less(i, j), which indexes the
	// live slice, so we swap in place.
	for i := 1; i < len(s); i++ {
		for j := i; j > 0; j-- {
			r := e.call(fr, token.NoPos, less, []Value{e.intC(int64(j)), e.intC(int64(j - 1))})
			if !e.Branch(r.(*sym.Term)) {
				break
			}
			tj, tk := copyVal(s[j]), copyVal(s[j-1])
			storeVal(&s[j], tk)
			storeVal(&s[j-1], tj)
		}
	}
	return nil
}

// deepEqual is reflect.DeepEqual over engine values (returns a Bool term).
func (e *Engine) deepEqual(fr *frame, x, y Value, depth int) *sym.Term {
	if depth > 50 {
		e.unsupported("DeepEqual recursion too deep")
	}
	switch xv := x.(type) {
	case Iface:
		yv, ok := y.(Iface)
		if !ok {
			return e.T.False
		}
		if xv.T == nil || yv.T == nil {
			return e.T.Bool(xv.T == nil && yv.T == nil)
		}
		if !types.Identical(xv.T, yv.T) {
			return e.T.False
		}
		return e.deepEqual(fr, xv.V, yv.V, depth+1)
	case *sym.Term:
		yv, ok := y.(*sym.Term)
		if !ok || yv.W != xv.W {
			return e.T.False
		}
		return e.T.Eq(xv, yv)
	case float64:
		yv, ok := y.(float64)
		return e.T.Bool(ok && xv == yv)
	case Str:
		yv, ok := y.(Str)
		if !ok {
			return e.T.False
		}
		return e.strEq(xv, yv)
	case []Value:
		yv, ok := y.([]Value)
		if !ok || (xv == nil) != (yv == nil) || len(xv) != len(yv) {
			return e.T.False
		}
		r := e.T.True
		for i := range xv {
			r = e.T.And(r, e.deepEqual(fr, xv[i], yv[i], depth+1))
			if r.IsFalse() {
				break
			}
		}
		return r
	case Array:
		yv, ok := y.(Array)
		if !ok || len(xv) != len(yv) {
			return e.T.False
		}
		r := e.T.True
		for i := range xv {
			r = e.T.And(r, e.deepEqual(fr, xv[i], yv[i], depth+1))
		}
		return r
	case Struct:
		yv, ok := y.(Struct)
		if !ok || len(xv) != len(yv) {
			return e.T.False
		}
		r := e.T.True
		for i := range xv {
			r = e.T.And(r, e.deepEqual(fr, xv[i], yv[i], depth+1))
			if r.IsFalse() {
				break
			}
		}
		return r
	case *Value:
		yv, ok := y.(*Value)
		if !ok {
			return e.T.False
		}
		if xv == yv {
			return e.T.True
		}
		if xv == nil || yv == nil {
			return e.T.False
		}
		return e.deepEqual(fr, *xv, *yv, depth+1)
	case *Map:
		yv, ok := y.(*Map)
		if !ok || (xv == nil) != (yv == nil) {
			return e.T.False
		}
		if xv == nil || xv == yv {
			return e.T.True
		}
		if len(xv.Ents) != len(yv.Ents) {
			return e.T.False
		}
		r := e.T.True
		for _, ent := range xv.Ents {
			j := e.mapFind(fr, yv, ent.k)
			if j < 0 {
				return e.T.False
			}
			r = e.T.And(r, e.deepEqual(fr, ent.v, yv.Ents[j].v, depth+1))
		}
		return r
	case *ssa.Function:
		yv, ok := y.(*ssa.Function)
		return e.T.Bool(ok && xv == nil && yv == nil)
	case *Closure:
		return e.T.False
	case *Chan:
		yv, ok := y.(*Chan)
		return e.T.Bool(ok && xv == yv)
	case UnsafePtr:
		yv, ok := y.(UnsafePtr)
		return e.T.Bool(ok && xv.P == yv.P)
	case nil:
		return e.T.Bool(y == nil)
	}
	e.unsupported(fmt.Sprintf("DeepEqual on %T", x))
	return nil
}

// ---- formatting ----

func (e *Engine) fmtValue(fr *frame, x Value, verb rune) string {
	switch v := x.(type) {
	case Iface:
		if v.T == nil {
			return "<nil>"
		}
		// error / Stringer
		if verb == 'v' || verb == 's' {
			if m := e.findMethod(v.T, "Error"); m != nil && m.Signature.Params().Len() == 0 {
				r := e.callFunction(fr, m, []Value{v.V}, nil)
				return e.fmtValue(fr, r, 's')
			}
			if m := e.findMethod(v.T, "String"); m != nil && m.Signature.Params().Len() == 0 && m.Signature.Results().Len() == 1 {
				if isString(m.Signature.Results().At(0).Type()) {
					r := e.callFunction(fr, m, []Value{v.V}, nil)
					return e.fmtValue(fr, r, 's')
				}
			}
		}
		if b, ok := v.T.Underlying().(*types.Basic); ok && b.Info()&types.IsInteger != 0 {
			if t, ok := v.V.(*sym.Term); ok && t.IsConst() {
				if _, signed := intWidth(b); signed {
					return fmt.Sprintf("%d", t.SignedVal())
				}
				return fmt.Sprintf("%d", t.V)
			}
		}
		return e.fmtValue(fr, v.V, verb)
	case *sym.Term:
		if v.IsConst() {
			if v.W == 0 {
				return fmt.Sprint(v.V != 0)
			}
			return fmt.Sprintf("%d", v.V)
		}
		return "<sym>"
	case Str:
		if s, ok := v.Concrete(); ok {
			return s
		}
		return "<symstr>"
	case float64:
		return fmt.Sprint(v)
	case nil:
		return "<nil>"
	}
	return "<" + fmt.Sprintf("%T", x) + ">"
}

func (e *Engine) format(fr *frame, f Value, args Value) string {
	fs, ok := f.(Str).Concrete()
	if !ok {
		return "<symfmt>"
	}
	as, _ := args.([]Value)
	var sb strings.Builder
	ai := 0
	for i := 0; i < len(fs); i++ {
		c := fs[i]
		if c != '%' {
			sb.WriteByte(c)
			continue
		}
		i++
		if i >= len(fs) {
			break
		}
		// skip flags/width
		for i < len(fs) && strings.IndexByte("+-# 0123456789.", fs[i]) >= 0 {
			i++
		}
		if i >= len(fs) {
			break
		}
		verb := rune(fs[i])
		if verb == '%' {
			sb.WriteByte('%')
			continue
		}
		if ai < len(as) {
			sb.WriteString(e.fmtValue(fr, as[ai], verb))
			ai++
		} else {
			sb.WriteString("%!" + string(verb) + "(MISSING)")
		}
	}
	return sb.String()
}

var _ = sort.Ints

// findMethod returns the exported method name of type T, or nil.
func (e *Engine) findMethod(T types.Type, name string) *ssa.Function {
	ms := e.prog.MethodSets.MethodSet(T)
	sel := ms.Lookup(nil, name)
	if sel == nil {
		return nil
	}
	return e.prog.MethodValue(sel)
}

// countString counts the strings equal to target reachable from v (a term).
func (e *Engine) countString(v Value, target Str, seen map[interface{}]bool, depth int) *sym.Term {
	zero := e.intC(0)
	if depth > 64 {
		e.unsupported("CountString: value graph too deep")
	}
	switch x := v.(type) {
	case Str:
		return e.T.Ite(e.strEq(x, target), e.intC(1), zero)
	case Iface:
		if x.T == nil {
			return zero
		}
		return e.countString(x.V, target, seen, depth+1)
	case Struct:
		r := zero
		for _, f := range x {
			r = e.T.Add(r, e.countString(f, target, seen, depth+1))
		}
		return r
	case Array:
		r := zero
		for _, f := range x {
			r = e.T.Add(r, e.countString(f, target, seen, depth+1))
		}
		return r
	case []Value:
		if len(x) == 0 {
			return zero
		}
		key := &x[0]
		if seen[key] {
			return zero
		}
		seen[key] = true
		r := zero
		for _, f := range x {
			r = e.T.Add(r, e.countString(f, target, seen, depth+1))
		}
		return r
	case *Value:
		if x == nil || seen[x] {
			return zero
		}
		seen[x] = true
		return e.countString(*x, target, seen, depth+1)
	case *Map:
		if x == nil || seen[x] {
			return zero
		}
		seen[x] = true
		r := zero
		for _, ent := range x.Ents {
			r = e.T.Add(r, e.countString(ent.k, target, seen, depth+1))
			r = e.T.Add(r, e.countString(ent.v, target, seen, depth+1))
		}
		return r
	case Opaque:
		e.unsupported("CountString over opaque value: " + x.Why)
	}
	return zero
}

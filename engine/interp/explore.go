package interp

import (
	"fmt"
	"sort"
	"sync"
	"time"

	"golang.org/x/tools/go/ssa"
)

// Summary aggregates one harness run.
type Summary struct {
	Harness      string
	Paths        int
	Outcomes     map[string]int
	Details      map[string]int // outcome detail -> count (for non-ok outcomes)
	Violations   []*Violation
	Covers       map[string]int
	Queries      int
	SolverSec    float64
	Sat, Unsat   int
	Unknown      int
	SolverErrors int
	Distinct     int
	SymPaths     int
	MaxPathLen   int
	Instrs       int64
	Samples      []map[string]interface{}
	Stubs        map[string]bool
	Funcs        map[string]bool
	Notes        map[string]int
	WallSec      float64
	Truncated    bool
	Assumes      int
}

type ExploreOpts struct {
	Workers     int
	MaxPaths    int
	MaxSeconds  float64
	Seed        int64
	MaxViolSite int // stop collecting more than this many violations per site
	Samples     int
}

func Explore(cfg *Config, entry *ssa.Function, opts ExploreOpts) (*Summary, error) {
	sum := &Summary{Harness: entry.Name(), Outcomes: map[string]int{}, Details: map[string]int{}, Covers: map[string]int{},
		Stubs: map[string]bool{}, Funcs: map[string]bool{}, Notes: map[string]int{}}
	t0 := time.Now()
	var mu sync.Mutex
	cond := sync.NewCond(&mu)
	queue := [][]int64{{}}
	active := 0
	stop := false
	seenPC := map[string]bool{}
	violPerSite := map[string]int{}
	var firstErr error

	worker := func() {
		eng, err := NewEngine(cfg)
		if err != nil {
			mu.Lock()
			firstErr = err
			stop = true
			cond.Broadcast()
			mu.Unlock()
			return
		}
		defer func() {
			mu.Lock()
			sum.Queries += eng.S.Queries
			sum.SolverSec += eng.S.Time.Seconds()
			sum.Sat += eng.S.SatN
			sum.Unsat += eng.S.UnsatN
			sum.Unknown += eng.S.Unknown
			sum.SolverErrors += eng.S.Errors
			mu.Unlock()
			eng.Close()
		}()
		for {
			mu.Lock()
			for len(queue) == 0 && active > 0 && !stop {
				cond.Wait()
			}
			if stop || (len(queue) == 0 && active == 0) {
				cond.Broadcast()
				mu.Unlock()
				return
			}
			// depth-first: take the most recent
			prefix := queue[len(queue)-1]
			queue = queue[:len(queue)-1]
			active++
			mu.Unlock()

			res, work := eng.RunPath(entry, prefix)
			var sample map[string]uint64
			mu.Lock()
			needSample := len(sum.Samples) < opts.Samples && res.Outcome == "ok" && res.SymBranch > 0
			mu.Unlock()
			if needSample {
				sample = eng.SampleModel()
			}

			mu.Lock()
			active--
			sum.Paths++
			sum.Outcomes[res.Outcome]++
			if res.Outcome != "ok" && res.Outcome != "assume" {
				d := res.Detail
				if len(d) > 300 {
					d = d[:300]
				}
				sum.Details[res.Outcome+": "+d]++
			}
			for _, c := range res.Covers {
				sum.Covers[c]++
			}
			for _, v := range res.Violations {
				site := v.Msg + "@" + v.Where
				violPerSite[site]++
				if violPerSite[site] <= opts.MaxViolSite {
					sum.Violations = append(sum.Violations, v)
				}
			}
			if !seenPC[res.PCHash] {
				seenPC[res.PCHash] = true
				if res.SymBranch > 0 {
					sum.Distinct++
				}
			}
			if res.SymBranch > 0 {
				sum.SymPaths++
			}
			if res.Decisions > sum.MaxPathLen {
				sum.MaxPathLen = res.Decisions
			}
			sum.Instrs += int64(res.Instrs)
			sum.Assumes += res.Assumes
			for _, s := range res.Stubs {
				sum.Stubs[s] = true
			}
			for f := range res.Funcs {
				sum.Funcs[f] = true
			}
			for _, n := range res.Notes {
				sum.Notes[n]++
			}
			if sample != nil && len(sum.Samples) < opts.Samples {
				sum.Samples = append(sum.Samples, map[string]interface{}{
					"harness": entry.Name(), "outcome": res.Outcome, "decisions": res.PCHash, "covers": res.Covers, "witness": sample})
			}
			queue = append(queue, work...)
			if opts.MaxPaths > 0 && sum.Paths >= opts.MaxPaths && (len(queue) > 0 || active > 0) {
				sum.Truncated = true
				stop = true
			}
			if opts.MaxSeconds > 0 && time.Since(t0).Seconds() > opts.MaxSeconds && (len(queue) > 0 || active > 0) {
				sum.Truncated = true
				stop = true
			}
			cond.Broadcast()
			mu.Unlock()
		}
	}
	var wg sync.WaitGroup
	n := opts.Workers
	if n <= 0 {
		n = 1
	}
	for i := 0; i < n; i++ {
		wg.Add(1)
		go func() { defer wg.Done(); worker() }()
	}
	wg.Wait()
	sum.WallSec = time.Since(t0).Seconds()
	if firstErr != nil {
		return sum, firstErr
	}
	sort.Slice(sum.Violations, func(i, j int) bool {
		a, b := sum.Violations[i], sum.Violations[j]
		if a.Msg != b.Msg {
			return a.Msg < b.Msg
		}
		return fmt.Sprint(a.Choices) < fmt.Sprint(b.Choices)
	})
	return sum, nil
}

package interp

// A structural model of encoding/json for the C19 lemmas.
//
// json.Marshal(v) does not produce text under the engine: it produces a
// one-element byte slice holding a JSONTok, a tree (jnode) built by walking v
// exactly the way encoding/json does - struct tags, embedded-struct
// flattening with the dominance rule, omitempty, nil pointers / slices / maps
// as null, Marshaler methods (called through the interpreter, addressability
// respected), json.RawMessage - with the *leaves kept as terms*. omitempty on
// a symbolic integer or bool gives the object entry a presence condition.
// json.Unmarshal(tok, &w) walks the tree into w: Unmarshaler methods (called
// through the interpreter), case-insensitive field matching, allocation of
// nil pointers / maps, fresh slices; an entry with a presence condition c
// stores ite(c, decoded, old). What is *assumed* is therefore only the text
// layer: that encoding/json's printer and scanner are mutually inverse on
// scalars, strings and the container syntax, and that
// time.ParseDuration(d.String()) == d (api.DurationConfig). Every passing
// sample and every counterexample is replayed natively through the real
// encoding/json, which is where a disagreement of this model would show up
// (ENGINE-MISMATCH).

import (
	encjson "encoding/json"
	"fmt"
	"go/types"
	"reflect"
	"sort"
	"strings"

	"golang.org/x/tools/go/ssa"
	"verif/engine/sym"
)

const (
	jNull = iota
	jBool
	jNum
	jStr
	jDur // api.DurationConfig: a duration printed as text
	jObj
	jArr
)

type jnode struct {
	kind int
	v    Value        // jBool/jNum: *sym.Term or float64; jStr: Str; jDur: *sym.Term (64)
	t    *types.Basic // jNum: the Go type the number was printed from
	keys []Str
	vals []*jnode
	pres []*sym.Term // per entry: nil = always present
}

// JSONTok is the only element of a byte slice returned by the modelled json.Marshal.
type JSONTok struct{ N *jnode }

type jfield struct {
	name      string
	index     []int
	typ       types.Type
	omitEmpty bool
	quoted    bool
	tagged    bool
}

var jsonFieldCache = map[string][]jfield{}
var jsonFieldMu = make(chan struct{}, 1)

func parseJSONTag(tag string) (name string, opts []string, ok bool) {
	st := reflect.StructTag(tag)
	v, ok := st.Lookup("json")
	if !ok {
		return "", nil, false
	}
	parts := strings.Split(v, ",")
	return parts[0], parts[1:], true
}

// jsonFields follows encoding/json.typeFields.
func jsonFields(t *types.Struct) []jfield {
	key := t.String()
	jsonFieldMu <- struct{}{}
	if f, ok := jsonFieldCache[key]; ok {
		<-jsonFieldMu
		return f
	}
	<-jsonFieldMu
	type item struct {
		st    *types.Struct
		index []int
	}
	current := []item{}
	next := []item{{st: t}}
	visited := map[string]bool{}
	var fields []jfield
	for len(next) > 0 {
		current, next = next, nil
		nextCount := map[string]int{}
		count := map[string]int{}
		for _, it := range current {
			k := it.st.String()
			if visited[k] {
				continue
			}
			visited[k] = true
			for i := 0; i < it.st.NumFields(); i++ {
				sf := it.st.Field(i)
				ft := sf.Type()
				if sf.Embedded() {
					bt := ft
					if p, ok := bt.Underlying().(*types.Pointer); ok {
						bt = p.Elem()
					}
					if _, isSt := bt.Underlying().(*types.Struct); !sf.Exported() && !isSt {
						continue
					}
				} else if !sf.Exported() {
					continue
				}
				name, opts, hasTag := parseJSONTag(it.st.Tag(i))
				if hasTag && name == "-" && len(opts) == 0 {
					continue
				}
				index := append(append([]int{}, it.index...), i)
				bt := ft
				if _, isNamed := bt.(*types.Named); !isNamed || true {
					if p, ok := bt.Underlying().(*types.Pointer); ok && sf.Embedded() {
						bt = p.Elem()
					}
				}
				_, isStruct := bt.Underlying().(*types.Struct)
				if name != "" || !sf.Embedded() || !isStruct {
					jf := jfield{name: name, index: index, typ: ft, tagged: name != ""}
					if name == "" {
						jf.name = sf.Name()
					}
					for _, o := range opts {
						if o == "omitempty" {
							jf.omitEmpty = true
						}
						if o == "string" {
							jf.quoted = true
						}
					}
					fields = append(fields, jf)
					if count[k] > 1 {
						fields = append(fields, jf)
					}
					continue
				}
				// anonymous struct without a name tag: flatten at the next level
				nk := bt.Underlying().(*types.Struct).String()
				nextCount[nk]++
				if nextCount[nk] == 1 {
					next = append(next, item{st: bt.Underlying().(*types.Struct), index: index})
				}
			}
		}
		_ = count
	}
	// dominance: by name, then depth, then tagged
	sort.SliceStable(fields, func(i, j int) bool {
		a, b := fields[i], fields[j]
		if a.name != b.name {
			return a.name < b.name
		}
		if len(a.index) != len(b.index) {
			return len(a.index) < len(b.index)
		}
		if a.tagged != b.tagged {
			return a.tagged
		}
		return false
	})
	var out []jfield
	for i := 0; i < len(fields); {
		j := i + 1
		for j < len(fields) && fields[j].name == fields[i].name {
			j++
		}
		if j == i+1 {
			out = append(out, fields[i])
		} else {
			a, b := fields[i], fields[i+1]
			if len(a.index) != len(b.index) || a.tagged != b.tagged {
				out = append(out, a)
			}
		}
		i = j
	}
	// declaration order
	sort.SliceStable(out, func(i, j int) bool {
		a, b := out[i].index, out[j].index
		for k := 0; k < len(a) && k < len(b); k++ {
			if a[k] != b[k] {
				return a[k] < b[k]
			}
		}
		return len(a) < len(b)
	})
	jsonFieldMu <- struct{}{}
	jsonFieldCache[key] = out
	<-jsonFieldMu
	return out
}

func (e *Engine) jsonMethod(t types.Type, name string) *ssa.Function {
	sel := e.prog.MethodSets.MethodSet(t).Lookup(nil, name)
	if sel == nil {
		return nil
	}
	if _, isIface := t.Underlying().(*types.Interface); isIface {
		return nil
	}
	return e.prog.MethodValue(sel)
}

func isNamedType(t types.Type, pkg, name string) bool {
	n, ok := types.Unalias(t).(*types.Named)
	return ok && n.Obj().Pkg() != nil && n.Obj().Pkg().Path() == pkg && n.Obj().Name() == name
}

func (e *Engine) jsonErr(fr *frame, msg string) Value {
	newErr := e.prog.ImportedPackage("errors").Func("New")
	return e.callFunction(fr, newErr, []Value{Str{S: msg}}, nil)
}

type jsonFail struct{ err Value }

func tokBytes(n *jnode) Value { return []Value{JSONTok{n}} }

func (e *Engine) tokOf(fr *frame, v Value, what string) *jnode {
	b, ok := v.([]Value)
	if !ok {
		e.unsupported(what + ": not a byte slice")
	}
	if len(b) == 1 {
		if t, ok := b[0].(JSONTok); ok {
			return t.N
		}
	}
	// concrete JSON text (a literal in the code under test or in the harness)
	raw := make([]byte, len(b))
	for i, x := range b {
		t, ok := x.(*sym.Term)
		if !ok || !t.IsConst() {
			e.unsupported(what + ": JSON text with symbolic bytes (the text layer is not modelled)")
		}
		raw[i] = byte(t.V)
	}
	dec := encjson.NewDecoder(strings.NewReader(string(raw)))
	dec.UseNumber()
	var x interface{}
	if err := dec.Decode(&x); err != nil {
		panic(jsonFail{e.jsonErr(fr, "json: "+err.Error())})
	}
	return e.nativeToNode(x)
}

func (e *Engine) nativeToNode(x interface{}) *jnode {
	switch x := x.(type) {
	case nil:
		return &jnode{kind: jNull}
	case bool:
		return &jnode{kind: jBool, v: e.T.Bool(x)}
	case string:
		return &jnode{kind: jStr, v: Str{S: x}}
	case encjson.Number:
		if i, err := x.Int64(); err == nil {
			return &jnode{kind: jNum, v: e.T.Const(64, uint64(i)), t: types.Typ[types.Int64]}
		}
		f, _ := x.Float64()
		return &jnode{kind: jNum, v: f, t: types.Typ[types.Float64]}
	case []interface{}:
		n := &jnode{kind: jArr}
		for _, y := range x {
			n.vals = append(n.vals, e.nativeToNode(y))
		}
		return n
	case map[string]interface{}:
		n := &jnode{kind: jObj}
		ks := make([]string, 0, len(x))
		for k := range x {
			ks = append(ks, k)
		}
		sort.Strings(ks)
		for _, k := range ks {
			n.keys = append(n.keys, Str{S: k})
			n.vals = append(n.vals, e.nativeToNode(x[k]))
			n.pres = append(n.pres, nil)
		}
		return n
	}
	panic(fmt.Sprintf("nativeToNode %T", x))
}

// emptyCond returns the omitempty condition of v (nil = never empty).
func (e *Engine) emptyCond(v Value, t types.Type) *sym.Term {
	switch u := t.Underlying().(type) {
	case *types.Basic:
		switch x := v.(type) {
		case *sym.Term:
			if x.W == 0 {
				return e.T.Not(x)
			}
			return e.T.Eq(x, e.T.Const(x.W, 0))
		case float64:
			return e.T.Bool(x == 0)
		case Str:
			return e.T.Bool(x.Len() == 0)
		}
	case *types.Pointer:
		p, _ := v.(*Value)
		return e.T.Bool(p == nil)
	case *types.Interface:
		return e.T.Bool(v.(Iface).T == nil)
	case *types.Slice:
		s, _ := v.([]Value)
		return e.T.Bool(len(s) == 0)
	case *types.Map:
		m, _ := v.(*Map)
		return e.T.Bool(m == nil || len(m.Ents) == 0)
	case *types.Array:
		return e.T.Bool(u.Len() == 0)
	}
	return e.T.False
}

// jsonEncode builds the tree of v (static type t). addr is the cell holding v
// when v is addressable in the sense of reflect (nil otherwise).
func (e *Engine) jsonEncode(fr *frame, v Value, t types.Type, addr *Value) *jnode {
	t = types.Unalias(t)
	if _, ok := v.(Opaque); ok {
		e.unsupported("json.Marshal of an opaque value")
	}
	// api.DurationConfig: the text layer of durations is assumed (see file comment)
	if isNamedType(t, "mosn.io/api", "DurationConfig") {
		return &jnode{kind: jDur, v: v.(Struct)[0]}
	}
	if isNamedType(t, "encoding/json", "RawMessage") {
		b, _ := v.([]Value)
		if b == nil {
			return &jnode{kind: jNull}
		}
		return e.tokOf(fr, b, "json.RawMessage")
	}
	if _, isPtr := t.Underlying().(*types.Pointer); !isPtr {
		if _, isIface := t.Underlying().(*types.Interface); !isIface {
			if m := e.jsonMethod(t, "MarshalJSON"); m != nil {
				return e.callMarshaler(fr, m, copyVal(v))
			}
			if addr != nil {
				if m := e.jsonMethod(types.NewPointer(t), "MarshalJSON"); m != nil {
					return e.callMarshaler(fr, m, addr)
				}
			}
			if m := e.jsonMethod(t, "MarshalText"); m != nil {
				return e.callTextMarshaler(fr, m, copyVal(v))
			}
			if addr != nil {
				if m := e.jsonMethod(types.NewPointer(t), "MarshalText"); m != nil {
					return e.callTextMarshaler(fr, m, addr)
				}
			}
		}
	}
	switch u := t.Underlying().(type) {
	case *types.Basic:
		switch x := v.(type) {
		case *sym.Term:
			if x.W == 0 {
				return &jnode{kind: jBool, v: x}
			}
			return &jnode{kind: jNum, v: x, t: u}
		case float64:
			return &jnode{kind: jNum, v: x, t: u}
		case Str:
			return &jnode{kind: jStr, v: x}
		}
		e.unsupported(fmt.Sprintf("json.Marshal of basic %v held as %T", u, v))
	case *types.Pointer:
		p, _ := v.(*Value)
		if p == nil {
			return &jnode{kind: jNull}
		}
		if isNamedType(u.Elem(), "mosn.io/api", "DurationConfig") || isNamedType(u.Elem(), "encoding/json", "RawMessage") {
			return e.jsonEncode(fr, *p, u.Elem(), p)
		}
		if m := e.jsonMethod(t, "MarshalJSON"); m != nil {
			return e.callMarshaler(fr, m, p)
		}
		if m := e.jsonMethod(t, "MarshalText"); m != nil {
			return e.callTextMarshaler(fr, m, p)
		}
		return e.jsonEncode(fr, *p, u.Elem(), p)
	case *types.Interface:
		itf := v.(Iface)
		if itf.T == nil {
			return &jnode{kind: jNull}
		}
		return e.jsonEncode(fr, itf.V, itf.T, nil)
	case *types.Struct:
		s := v.(Struct)
		n := &jnode{kind: jObj}
	fields:
		for _, f := range jsonFields(u) {
			fv := Value(s)
			var faddr *Value
			ft := types.Type(u)
			for _, ix := range f.index {
				if p, ok := ft.Underlying().(*types.Pointer); ok {
					pp, _ := fv.(*Value)
					if pp == nil {
						continue fields
					}
					fv, ft = *pp, p.Elem()
					faddr = pp
				}
				st := ft.Underlying().(*types.Struct)
				cell := &fv.(Struct)[ix]
				if addr != nil || faddr != nil {
					faddr = cell
				}
				fv, ft = *cell, st.Field(ix).Type()
			}
			var pres *sym.Term
			if f.omitEmpty {
				c := e.emptyCond(fv, ft)
				if c.IsTrue() {
					continue
				}
				if !c.IsFalse() {
					pres = e.T.Not(c)
				}
			}
			if f.quoted {
				e.unsupported("json ',string' option")
			}
			n.keys = append(n.keys, Str{S: f.name})
			n.vals = append(n.vals, e.jsonEncode(fr, fv, ft, faddr))
			n.pres = append(n.pres, pres)
		}
		return n
	case *types.Slice:
		s, _ := v.([]Value)
		if s == nil {
			return &jnode{kind: jNull}
		}
		if b, ok := u.Elem().Underlying().(*types.Basic); ok && b.Kind() == types.Uint8 {
			// []byte is printed as base64 text: kept as the byte vector
			bs := make([]*sym.Term, len(s))
			for i := range s {
				bt, ok := s[i].(*sym.Term)
				if !ok {
					e.unsupported("json.Marshal of a byte slice holding a non-byte")
				}
				bs[i] = bt
			}
			return &jnode{kind: jStr, v: Str{B: bs}, t: types.Typ[types.Uint8]}
		}
		n := &jnode{kind: jArr}
		for i := range s {
			n.vals = append(n.vals, e.jsonEncode(fr, s[i], u.Elem(), &s[i]))
		}
		return n
	case *types.Array:
		a := v.(Array)
		n := &jnode{kind: jArr}
		for i := range a {
			var ea *Value
			if addr != nil {
				ea = &a[i]
			}
			n.vals = append(n.vals, e.jsonEncode(fr, a[i], u.Elem(), ea))
		}
		return n
	case *types.Map:
		m, _ := v.(*Map)
		if m == nil {
			return &jnode{kind: jNull}
		}
		if !isString(u.Key()) {
			e.unsupported("json.Marshal of a map with non-string keys")
		}
		n := &jnode{kind: jObj}
		for _, ent := range m.Ents {
			n.keys = append(n.keys, ent.k.(Str))
			n.vals = append(n.vals, e.jsonEncode(fr, ent.v, u.Elem(), nil))
			n.pres = append(n.pres, nil)
		}
		return n
	}
	e.unsupported("json.Marshal of " + t.String())
	return nil
}

func (e *Engine) callMarshaler(fr *frame, m *ssa.Function, recv Value) *jnode {
	r := e.callFunction(fr, m, []Value{recv}, nil).(Tuple)
	if err := r[1].(Iface); err.T != nil {
		panic(jsonFail{err})
	}
	return e.tokOf(fr, r[0], "result of "+m.String())
}

func (e *Engine) callTextMarshaler(fr *frame, m *ssa.Function, recv Value) *jnode {
	r := e.callFunction(fr, m, []Value{recv}, nil).(Tuple)
	if err := r[1].(Iface); err.T != nil {
		panic(jsonFail{err})
	}
	b, _ := r[0].([]Value)
	bs := make([]*sym.Term, len(b))
	for i := range b {
		bs[i] = b[i].(*sym.Term)
	}
	return &jnode{kind: jStr, v: mkStr(bs)}
}

func kindName(k int) string {
	return [...]string{"null", "bool", "number", "string", "string", "object", "array"}[k]
}

func (e *Engine) typeMismatch(fr *frame, n *jnode, t types.Type) {
	panic(jsonFail{e.jsonErr(fr, "json: cannot unmarshal "+kindName(n.kind)+" into Go value of type "+t.String())})
}

// store writes v into *cell, under the presence condition pres if any.
func (e *Engine) jsonStore(cell *Value, v Value, pres *sym.Term) {
	if pres == nil {
		storeVal(cell, v)
		return
	}
	nt, ok1 := v.(*sym.Term)
	ot, ok2 := (*cell).(*sym.Term)
	if ok1 && ok2 && nt.W == ot.W {
		*cell = e.T.Ite(pres, nt, ot)
		return
	}
	e.unsupported("conditionally present JSON entry of a non-scalar type")
}

// jsonDecode stores the tree n into *cell (static type t).
func (e *Engine) jsonDecode(fr *frame, n *jnode, cell *Value, t types.Type, pres *sym.Term) {
	t = types.Unalias(t)
	if isNamedType(t, "encoding/json", "RawMessage") {
		if pres != nil {
			e.unsupported("conditionally present RawMessage")
		}
		if n.kind == jNull {
			*cell = []Value{e.T.Const(8, 'n'), e.T.Const(8, 'u'), e.T.Const(8, 'l'), e.T.Const(8, 'l')}
			return
		}
		*cell = tokBytes(n)
		return
	}
	if isNamedType(t, "mosn.io/api", "DurationConfig") {
		switch n.kind {
		case jDur:
			e.jsonStore(&(*cell).(Struct)[0], n.v, pres)
			return
		case jNull:
			return
		}
		e.unsupported("api.DurationConfig at " + strings.Join(e.jsonPath, ".") + " read from a JSON " + kindName(n.kind) + " that was not written by api.DurationConfig (duration text is not modelled)")
	}
	if p, ok := t.Underlying().(*types.Pointer); ok {
		if n.kind == jNull {
			if pres != nil {
				e.unsupported("conditionally present null")
			}
			*cell = (*Value)(nil)
			return
		}
		pp, _ := (*cell).(*Value)
		if pp == nil {
			if pres != nil {
				e.unsupported("conditionally present pointer target")
			}
			pp = new(Value)
			*pp = e.zero(p.Elem())
			*cell = pp
		}
		e.jsonDecode(fr, n, pp, p.Elem(), pres)
		return
	}
	if _, isIface := t.Underlying().(*types.Interface); !isIface {
		if m := e.jsonMethod(types.NewPointer(t), "UnmarshalJSON"); m != nil {
			if pres != nil {
				e.unsupported("conditionally present value with UnmarshalJSON")
			}
			r := e.callFunction(fr, m, []Value{cell, tokBytes(n)}, nil)
			if err := r.(Iface); err.T != nil {
				panic(jsonFail{err})
			}
			return
		}
		if n.kind == jStr {
			if m := e.jsonMethod(types.NewPointer(t), "UnmarshalText"); m != nil {
				bs := e.strBytes(n.v.(Str))
				b := make([]Value, len(bs))
				for i := range bs {
					b[i] = bs[i]
				}
				r := e.callFunction(fr, m, []Value{cell, b}, nil)
				if err := r.(Iface); err.T != nil {
					panic(jsonFail{err})
				}
				return
			}
		}
	}
	if n.kind == jNull {
		switch t.Underlying().(type) {
		case *types.Map, *types.Slice, *types.Interface:
			*cell = e.zero(t)
		}
		return
	}
	switch u := t.Underlying().(type) {
	case *types.Basic:
		switch {
		case u.Info()&types.IsBoolean != 0:
			if n.kind != jBool {
				e.typeMismatch(fr, n, t)
			}
			e.jsonStore(cell, n.v, pres)
		case u.Info()&types.IsString != 0:
			if n.kind != jStr || n.t != nil {
				if n.kind == jStr && n.t != nil {
					e.unsupported("base64 text read into a string")
				}
				e.typeMismatch(fr, n, t)
			}
			e.jsonStore(cell, n.v, pres)
		case u.Info()&types.IsInteger != 0:
			if n.kind != jNum {
				e.typeMismatch(fr, n, t)
			}
			x, ok := n.v.(*sym.Term)
			if !ok {
				f := n.v.(float64)
				if f != float64(int64(f)) {
					e.typeMismatch(fr, n, t)
				}
				x = e.T.Const(64, uint64(int64(f)))
				n = &jnode{kind: jNum, v: x, t: types.Typ[types.Int64]}
			}
			w, signed := intWidth(u)
			sw, ssigned := intWidth(n.t)
			if w == sw && signed == ssigned {
				e.jsonStore(cell, x, pres)
				return
			}
			// the printed number must fit the target type
			var wide, back *sym.Term
			if sw < 64 {
				if ssigned {
					wide = e.T.Sext(x, 64)
				} else {
					wide = e.T.Zext(x, 64)
				}
			} else {
				wide = x
			}
			var nv *sym.Term
			if w < 64 {
				nv = e.T.Extract(wide, w-1, 0)
				if signed {
					back = e.T.Sext(nv, 64)
				} else {
					back = e.T.Zext(nv, 64)
				}
			} else {
				nv, back = wide, wide
			}
			fits := e.T.Eq(back, wide)
			if ssigned && !signed {
				fits = e.T.And(fits, e.T.Sle(e.T.Const(64, 0), wide))
			}
			if !ssigned && signed && sw == 64 {
				fits = e.T.And(fits, e.T.Sle(e.T.Const(64, 0), wide))
			}
			if !e.Branch(fits) {
				e.typeMismatch(fr, n, t)
			}
			e.jsonStore(cell, nv, pres)
		case u.Info()&types.IsFloat != 0:
			if n.kind != jNum {
				e.typeMismatch(fr, n, t)
			}
			switch x := n.v.(type) {
			case float64:
				e.jsonStore(cell, x, pres)
			case *sym.Term:
				if !x.IsConst() {
					e.unsupported("symbolic integer read into a float")
				}
				_, sg := intWidth(n.t)
				if sg {
					e.jsonStore(cell, float64(x.SignedVal()), pres)
				} else {
					e.jsonStore(cell, float64(x.V), pres)
				}
			}
		default:
			e.unsupported("json.Unmarshal into " + t.String())
		}
	case *types.Struct:
		if n.kind != jObj {
			e.typeMismatch(fr, n, t)
		}
		if pres != nil {
			e.unsupported("conditionally present object")
		}
		fields := jsonFields(u)
		for i, k := range n.keys {
			ks, ok := k.Concrete()
			if !ok {
				e.unsupported("symbolic object key read into a struct")
			}
			var f *jfield
			for j := range fields {
				if fields[j].name == ks {
					f = &fields[j]
					break
				}
			}
			if f == nil {
				for j := range fields {
					if strings.EqualFold(fields[j].name, ks) {
						f = &fields[j]
						break
					}
				}
			}
			if f == nil {
				continue
			}
			fc := cell
			ft := types.Type(u)
			for _, ix := range f.index {
				if p, ok := ft.Underlying().(*types.Pointer); ok {
					pp, _ := (*fc).(*Value)
					if pp == nil {
						pp = new(Value)
						*pp = e.zero(p.Elem())
						*fc = pp
					}
					fc, ft = pp, p.Elem()
				}
				st := ft.Underlying().(*types.Struct)
				fc = &(*fc).(Struct)[ix]
				ft = st.Field(ix).Type()
			}
			depth := len(e.jsonPath)
			e.jsonPath = append(e.jsonPath, ks)
			e.jsonDecode(fr, n.vals[i], fc, ft, n.pres[i])
			e.jsonPath = e.jsonPath[:depth]
		}
	case *types.Slice:
		if b, ok := u.Elem().Underlying().(*types.Basic); ok && b.Kind() == types.Uint8 && n.kind == jStr {
			if n.t == nil {
				e.unsupported("text read into a byte slice (base64 is not modelled)")
			}
			bs := e.strBytes(n.v.(Str))
			out := make([]Value, len(bs))
			for i := range bs {
				out[i] = bs[i]
			}
			*cell = out
			return
		}
		if n.kind != jArr {
			e.typeMismatch(fr, n, t)
		}
		if pres != nil {
			e.unsupported("conditionally present array")
		}
		out := make([]Value, len(n.vals))
		for i := range out {
			out[i] = e.zero(u.Elem())
			e.jsonDecode(fr, n.vals[i], &out[i], u.Elem(), nil)
		}
		*cell = out
	case *types.Array:
		if n.kind != jArr {
			e.typeMismatch(fr, n, t)
		}
		a := (*cell).(Array)
		for i := range a {
			if i < len(n.vals) {
				e.jsonDecode(fr, n.vals[i], &a[i], u.Elem(), nil)
			} else {
				a[i] = e.zero(u.Elem())
			}
		}
	case *types.Map:
		if n.kind != jObj {
			e.typeMismatch(fr, n, t)
		}
		if !isString(u.Key()) {
			e.unsupported("json.Unmarshal into a map with non-string keys")
		}
		m, _ := (*cell).(*Map)
		if m == nil {
			m = newMap(u.Key())
			*cell = m
		}
		for i, k := range n.keys {
			if n.pres[i] != nil {
				e.unsupported("conditionally present map entry")
			}
			ev := e.zero(u.Elem())
			e.jsonDecode(fr, n.vals[i], &ev, u.Elem(), nil)
			e.mapInsert(fr, m, k, ev)
		}
	case *types.Interface:
		if u.NumMethods() != 0 {
			e.typeMismatch(fr, n, t)
		}
		if pres != nil {
			e.unsupported("conditionally present value read into interface{}")
		}
		*cell = e.jsonGeneric(fr, n)
	default:
		e.unsupported("json.Unmarshal into " + t.String())
	}
}

var (
	anyType      = types.NewInterfaceType(nil, nil).Complete()
	mapStrAny    = types.NewMap(types.Typ[types.String], anyType)
	sliceAnyType = types.NewSlice(anyType)
)

// jsonGeneric is what encoding/json stores into an interface{}.
func (e *Engine) jsonGeneric(fr *frame, n *jnode) Value {
	switch n.kind {
	case jNull:
		return Iface{}
	case jBool:
		return Iface{T: types.Typ[types.Bool], V: n.v}
	case jStr:
		if n.t != nil {
			e.unsupported("base64 text read into interface{}")
		}
		return Iface{T: types.Typ[types.String], V: n.v}
	case jDur:
		e.unsupported("duration text read into interface{}")
	case jNum:
		switch x := n.v.(type) {
		case float64:
			return Iface{T: types.Typ[types.Float64], V: x}
		case *sym.Term:
			if !x.IsConst() {
				e.unsupported("symbolic number read into interface{} (becomes a float64)")
			}
			if _, sg := intWidth(n.t); sg {
				return Iface{T: types.Typ[types.Float64], V: float64(x.SignedVal())}
			}
			return Iface{T: types.Typ[types.Float64], V: float64(x.V)}
		}
	case jArr:
		out := make([]Value, len(n.vals))
		for i := range out {
			out[i] = e.jsonGeneric(fr, n.vals[i])
		}
		return Iface{T: sliceAnyType, V: out}
	case jObj:
		m := newMap(types.Typ[types.String])
		for i, k := range n.keys {
			if n.pres[i] != nil {
				e.unsupported("conditionally present entry read into interface{}")
			}
			e.mapInsert(fr, m, k, e.jsonGeneric(fr, n.vals[i]))
		}
		return Iface{T: mapStrAny, V: m}
	}
	panic("jsonGeneric")
}

func init() {
	marshal := func(e *Engine, fr *frame, fn *ssa.Function, a []Value) (res Value) {
		defer func() {
			if r := recover(); r != nil {
				if jf, ok := r.(jsonFail); ok {
					res = tupleOf([]Value(nil), jf.err)
					return
				}
				panic(r)
			}
		}()
		e.stubsUsed["model:encoding/json (structural; the text layer is assumed, see engine/interp/json.go)"] = true
		itf := a[0].(Iface)
		if itf.T == nil {
			return tupleOf(tokBytes(&jnode{kind: jNull}), Iface{})
		}
		n := e.jsonEncode(fr, itf.V, itf.T, nil)
		return tupleOf(tokBytes(n), Iface{})
	}
	reg("encoding/json.Marshal", marshal)
	reg("encoding/json.MarshalIndent", marshal)
	reg("encoding/json.Unmarshal", func(e *Engine, fr *frame, fn *ssa.Function, a []Value) (res Value) {
		defer func() {
			if r := recover(); r != nil {
				if jf, ok := r.(jsonFail); ok {
					res = jf.err
					return
				}
				panic(r)
			}
		}()
		e.stubsUsed["model:encoding/json (structural; the text layer is assumed, see engine/interp/json.go)"] = true
			n := e.tokOf(fr, a[0], "json.Unmarshal input")
		itf := a[1].(Iface)
		p, ok := itf.V.(*Value)
		pt, isPtr := itf.T.Underlying().(*types.Pointer)
		if itf.T == nil || !ok || !isPtr || p == nil {
			return e.jsonErr(fr, "json: Unmarshal(non-pointer or nil)")
		}
		e.jsonDecode(fr, n, p, pt.Elem(), nil)
		return Iface{}
	})
}

// errors.Is without reflectlite: identity of comparable errors, then the Is and Unwrap
// methods, as the standard library does.
func (e *Engine) errorsIs(fr *frame, err, target Iface, depth int) *sym.Term {
	if depth > 16 {
		e.unsupported("errors.Is: chain deeper than 16")
	}
	if err.T == nil {
		return e.T.Bool(target.T == nil)
	}
	if target.T != nil && types.Comparable(target.T) && types.Identical(err.T, target.T) {
		eq := e.equals(fr, err.T, err.V, target.V)
		if eq.IsTrue() {
			return eq
		}
		if !eq.IsFalse() {
			if e.Branch(eq) {
				return e.T.True
			}
		}
	}
	if m := e.jsonMethod(err.T, "Is"); m != nil && m.Signature.Params().Len() == 1 {
		r := e.callFunction(fr, m, []Value{err.V, target}, nil)
		if t, ok := r.(*sym.Term); ok {
			if t.IsTrue() || (!t.IsFalse() && e.Branch(t)) {
				return e.T.True
			}
		}
	}
	if m := e.jsonMethod(err.T, "Unwrap"); m != nil && m.Signature.Params().Len() == 0 {
		r := e.callFunction(fr, m, []Value{err.V}, nil)
		switch r := r.(type) {
		case Iface:
			if r.T == nil {
				return e.T.False
			}
			return e.errorsIs(fr, r, target, depth+1)
		case []Value:
			for _, x := range r {
				if xi, ok := x.(Iface); ok && xi.T != nil {
					if e.errorsIs(fr, xi, target, depth+1).IsTrue() {
						return e.T.True
					}
				}
			}
		}
	}
	return e.T.False
}

func init() {
	reg("errors.Is", func(e *Engine, fr *frame, fn *ssa.Function, a []Value) Value {
		return e.errorsIs(fr, a[0].(Iface), a[1].(Iface), 0)
	})
}

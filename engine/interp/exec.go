package interp

import (
	"fmt"
	"go/token"
	"go/types"
	"os"
	"reflect"
	"runtime"
	"strings"

	"golang.org/x/tools/go/ssa"
	"verif/engine/sym"
)

type deferred struct {
	fn    Value
	args  []Value
	instr *ssa.Defer
	tail  *deferred
}

type frame struct {
	e                *Engine
	caller           *frame
	fn               *ssa.Function
	block, prevBlock *ssa.BasicBlock
	env              map[ssa.Value]Value
	locals           []Value
	defers           *deferred
	result           Value
	panicking        bool
	panic            interface{}
	phitemps         []Value
	curPos           token.Pos
	g                *goroutine
	skipPhis         bool
}

func shortStack() string {
	buf := make([]byte, 6000)
	n := runtime.Stack(buf, false)
	return string(buf[:n])
}

func (fr *frame) get(key ssa.Value) Value {
	switch key := key.(type) {
	case nil:
		return nil
	case *ssa.Function:
		return key
	case *ssa.Builtin:
		return key
	case *ssa.Const:
		return fr.e.constValue(key)
	case *ssa.Global:
		return fr.e.globalAddr(key)
	}
	if r, ok := fr.env[key]; ok {
		return r
	}
	panic(fmt.Sprintf("get: no value for %T: %v in %s", key, key.Name(), fr.fn))
}

func (e *Engine) rtPanic(fr *frame, msg string) {
	if os.Getenv("VCHECK_PANICS") != "" {
		fmt.Fprintf(os.Stderr, "PANIC %s at %s\n", msg, e.where(fr))
	}
	panic(targetPanic{runtime: true, msg: msg, where: e.where(fr)})
}

func (fr *frame) runDefer(d *deferred) {
	var ok bool
	defer func() {
		if !ok {
			r := recover()
			if _, isTarget := r.(targetPanic); !isTarget {
				panic(r) // path end or engine error: propagate untouched
			}
			fr.panicking = true
			fr.panic = r
		}
	}()
	fr.e.call(fr, d.instr.Pos(), d.fn, d.args)
	ok = true
}

func (fr *frame) runDefers() {
	for d := fr.defers; d != nil; d = d.tail {
		fr.runDefer(d)
	}
	fr.defers = nil
	if fr.panicking {
		panic(fr.panic)
	}
}

func (e *Engine) lookupMethod(typ types.Type, meth *types.Func) *ssa.Function {
	return e.prog.LookupMethod(typ, meth.Pkg(), meth.Name())
}

func (e *Engine) derefCheck(fr *frame, p Value) *Value {
	switch p := p.(type) {
	case *Value:
		if p == nil {
			e.rtPanic(fr, "invalid memory address or nil pointer dereference")
		}
		return p
	case Opaque:
		e.unsupported("dereference of opaque value: " + p.Why)
	}
	panic(fmt.Sprintf("deref of %T at %s", p, e.where(fr)))
}

func (e *Engine) visitInstr(fr *frame, instr ssa.Instruction) (ret bool) {
	if p := instr.Pos(); p.IsValid() {
		fr.curPos = p
	}
	e.curFr = fr
	switch instr := instr.(type) {
	case *ssa.DebugRef:
	case *ssa.UnOp:
		fr.env[instr] = e.unop(fr, instr, fr.get(instr.X))
	case *ssa.BinOp:
		fr.env[instr] = e.binop(fr, instr.Op, instr.X.Type(), fr.get(instr.X), fr.get(instr.Y))
	case *ssa.Call:
		fn, args := e.prepareCall(fr, &instr.Call)
		if fr.fn.Synthetic == "package initializer" {
			// one initialiser the engine cannot run must not take the rest of the
			// package's globals with it: its result becomes opaque.
			fr.env[instr] = e.protectedInitCall(fr, instr, fn, args)
		} else {
			fr.env[instr] = e.call(fr, instr.Pos(), fn, args)
		}
	case *ssa.ChangeInterface:
		fr.env[instr] = fr.get(instr.X)
	case *ssa.ChangeType:
		fr.env[instr] = fr.get(instr.X)
	case *ssa.Convert:
		fr.env[instr] = e.conv(fr, instr.Type(), instr.X.Type(), fr.get(instr.X))
	case *ssa.MultiConvert:
		fr.env[instr] = e.conv(fr, instr.Type(), instr.X.Type(), fr.get(instr.X))
	case *ssa.SliceToArrayPointer:
		fr.env[instr] = e.sliceToArrayPointer(fr, instr.Type(), fr.get(instr.X))
	case *ssa.MakeInterface:
		v := fr.get(instr.X)
		fr.env[instr] = Iface{T: instr.X.Type(), V: v}
	case *ssa.Extract:
		t := fr.get(instr.Tuple)
		if o, ok := t.(Opaque); ok {
			fr.env[instr] = o
		} else {
			fr.env[instr] = t.(Tuple)[instr.Index]
		}
	case *ssa.Slice:
		fr.env[instr] = e.slice(fr, instr, fr.get(instr.X), fr.get(instr.Low), fr.get(instr.High), fr.get(instr.Max))
	case *ssa.Return:
		switch len(instr.Results) {
		case 0:
		case 1:
			fr.result = fr.get(instr.Results[0])
		default:
			res := make(Tuple, 0, len(instr.Results))
			for _, r := range instr.Results {
				res = append(res, fr.get(r))
			}
			fr.result = res
		}
		fr.block = nil
		return true
	case *ssa.RunDefers:
		fr.runDefers()
	case *ssa.Panic:
		panic(targetPanic{v: fr.get(instr.X), where: e.where(fr)})
	case *ssa.Send:
		e.chanSend(fr, fr.get(instr.Chan), fr.get(instr.X))
	case *ssa.Store:
		e.store(fr, fr.get(instr.Addr), fr.get(instr.Val))
	case *ssa.If:
		c := fr.get(instr.Cond)
		ct, ok := c.(*sym.Term)
		if !ok {
			e.unsupported(fmt.Sprintf("branch on %s at %s", describe(c), e.where(fr)))
		}
		if !ct.IsConst() && e.tryIfConvert(fr, ct) {
			return false
		}
		succ := 1
		if e.Branch(ct) {
			succ = 0
		}
		fr.prevBlock, fr.block = fr.block, fr.block.Succs[succ]
	case *ssa.Jump:
		fr.prevBlock, fr.block = fr.block, fr.block.Succs[0]
	case *ssa.Defer:
		fn, args := e.prepareCall(fr, &instr.Call)
		defers := &fr.defers
		if instr.DeferStack != nil {
			if into := fr.get(instr.DeferStack); into != nil {
				defers = into.(**deferred)
			}
		}
		*defers = &deferred{fn: fn, args: args, instr: instr, tail: *defers}
	case *ssa.Go:
		fn, args := e.prepareCall(fr, &instr.Call)
		e.goStmt(fr, instr, fn, args)
	case *ssa.MakeChan:
		n := e.concreteInt(fr, fr.get(instr.Size), 64, "chan size")
		fr.env[instr] = &Chan{cap: int(n), elem: instr.Type().Underlying().(*types.Chan).Elem()}
	case *ssa.Alloc:
		var addr *Value
		if instr.Heap {
			addr = new(Value)
			fr.env[instr] = addr
		} else {
			addr = fr.env[instr].(*Value)
		}
		*addr = e.zero(deref(instr.Type()))
	case *ssa.MakeSlice:
		capT, _ := fr.get(instr.Cap).(*sym.Term)
		lenT, _ := fr.get(instr.Len).(*sym.Term)
		symSize := (capT != nil && !capT.IsConst()) || (lenT != nil && !lenT.IsConst())
		if symSize {
			limit := int64(4096)
			set := false
			if v, ok := e.kv["__alloc_limit"]; ok {
				limit = v.(*sym.Term).SignedVal()
				set = true
			}
			c64 := e.to64(instr.Cap.Type(), capT)
			over := e.T.Slt(e.intC(limit), c64)
			if set {
				e.covers["assert:engine: allocation of an announced length"] = true
				e.Assert(e.T.Not(over), "engine: allocation sized by an announced length exceeds the delivered bytes", e.where(fr))
			} else if e.Branch(over) {
				panic(pathEnd{"bound", fmt.Sprintf("allocation with input-dependent size above %d at %s", limit, e.where(fr))})
			}
			if v, ok := e.kv["__alloc_cut"]; ok {
				if e.Branch(e.T.Slt(v.(*sym.Term), c64)) {
					panic(pathEnd{"cut", "allocation larger than the harness's AllocCut bound"})
				}
			}
			// negative sizes panic in Go
			if e.Branch(e.T.Slt(c64, e.intC(0))) {
				e.rtPanic(fr, "makeslice: cap out of range")
			}
		}
		capV := e.concreteInt(fr, fr.get(instr.Cap), 4200, "make cap")
		lenV := e.concreteInt(fr, fr.get(instr.Len), 4200, "make len")
		if lenV < 0 || capV < lenV {
			e.rtPanic(fr, "makeslice: len out of range")
		}
		if symSize && int(capV) > e.maxAlloc {
			e.maxAlloc = int(capV)
		}
		if v, ok := e.kv["__alloc_ceiling"]; ok && capV > v.(*sym.Term).SignedVal() {
			msg := "engine: one allocation larger than the harness's ceiling (memory sized by an announced length, not by what arrived)"
			e.covers["assert:"+msg] = true
			e.Assert(e.T.Bool(false), msg, e.where(fr))
		}
		if capV > 1<<22 {
			e.unsupported(fmt.Sprintf("allocation of %d elements", capV))
		}
		s := make([]Value, capV)
		tElt := instr.Type().Underlying().(*types.Slice).Elem()
		z := e.zero(tElt)
		_, agg1 := z.(Struct)
		_, agg2 := z.(Array)
		for i := range s {
			if agg1 || agg2 {
				s[i] = e.zero(tElt)
			} else {
				s[i] = z
			}
		}
		e.tick(int(capV) / 8)
		fr.env[instr] = s[:lenV]
	case *ssa.MakeMap:
		m := newMap(instr.Type().Underlying().(*types.Map).Key())
		m.Nondet = e.mapNondet && e.inInit == 0
		fr.env[instr] = m
	case *ssa.Range:
		fr.env[instr] = e.rangeIter(fr, fr.get(instr.X), instr.X.Type())
	case *ssa.Next:
		fr.env[instr] = fr.get(instr.Iter).(iter).next(e, fr)
	case *ssa.FieldAddr:
		p := e.derefCheck(fr, fr.get(instr.X))
		st, ok := (*p).(Struct)
		if !ok {
			if o, isO := (*p).(Opaque); isO {
				e.unsupported("field of opaque struct: " + o.Why)
			}
			panic(fmt.Sprintf("FieldAddr on %T at %s", *p, e.where(fr)))
		}
		fr.env[instr] = &st[instr.Field]
	case *ssa.Field:
		x := fr.get(instr.X)
		if o, ok := x.(Opaque); ok {
			fr.env[instr] = o
		} else {
			fr.env[instr] = x.(Struct)[instr.Field]
		}
	case *ssa.IndexAddr:
		fr.env[instr] = e.indexAddr(fr, fr.get(instr.X), fr.get(instr.Index))
	case *ssa.Index:
		fr.env[instr] = e.index(fr, fr.get(instr.X), fr.get(instr.Index))
	case *ssa.Lookup:
		fr.env[instr] = e.lookup(fr, instr, fr.get(instr.X), fr.get(instr.Index))
	case *ssa.MapUpdate:
		m := fr.get(instr.Map)
		mm, ok := m.(*Map)
		if !ok {
			e.unsupported(fmt.Sprintf("map update on %T", m))
		}
		if mm == nil {
			panic(targetPanic{runtime: true, msg: "assignment to entry in nil map", where: e.where(fr)})
		}
		e.mapInsert(fr, mm, fr.get(instr.Key), copyVal(fr.get(instr.Value)))
	case *ssa.TypeAssert:
		fr.env[instr] = e.typeAssert(fr, instr, fr.get(instr.X))
	case *ssa.MakeClosure:
		var bindings []Value
		for _, b := range instr.Bindings {
			bindings = append(bindings, fr.get(b))
		}
		fr.env[instr] = &Closure{instr.Fn.(*ssa.Function), bindings}
	case *ssa.Phi:
		panic("unreachable phi")
	case *ssa.Select:
		fr.env[instr] = e.selectStmt(fr, instr)
	default:
		panic(fmt.Sprintf("unexpected instruction: %T", instr))
	}
	return false
}

func deref(t types.Type) types.Type {
	if p, ok := t.Underlying().(*types.Pointer); ok {
		return p.Elem()
	}
	panic(fmt.Sprintf("deref of non-pointer %v", t))
}

func (e *Engine) prepareCall(fr *frame, call *ssa.CallCommon) (fn Value, args []Value) {
	v := fr.get(call.Value)
	if call.Method == nil {
		fn = v
	} else {
		recv, ok := v.(Iface)
		if !ok {
			if o, isO := v.(Opaque); isO {
				// method on opaque interface: result opaque
				return o, nil
			}
			panic(fmt.Sprintf("invoke on %T", v))
		}
		if recv.T == nil {
			// stubbed packages: their globals are never initialised, calls through
			// their nil interface values are no-ops.
			if call.Method.Pkg() != nil && e.stubPkgs[call.Method.Pkg().Path()] {
				return &stubCall{sig: call.Method.Type().(*types.Signature), name: call.Method.FullName()}, nil
			}
			e.rtPanic(fr, "invalid memory address or nil pointer dereference (method "+call.Method.Name()+" on nil interface)")
		}
		f := e.lookupMethod(recv.T, call.Method)
		if f == nil {
			panic(fmt.Sprintf("method set for dynamic type %v does not contain %s", recv.T, call.Method))
		}
		fn = f
		args = append(args, recv.V)
	}
	for _, arg := range call.Args {
		args = append(args, fr.get(arg))
	}
	return
}

type stubCall struct {
	sig  *types.Signature
	name string
}

func (e *Engine) zeroResults(sig *types.Signature) Value {
	r := sig.Results()
	switch r.Len() {
	case 0:
		return nil
	case 1:
		return e.zero(r.At(0).Type())
	}
	t := make(Tuple, r.Len())
	for i := range t {
		t[i] = e.zero(r.At(i).Type())
	}
	return t
}

func (e *Engine) opaqueResults(sig *types.Signature, why string) Value {
	r := sig.Results()
	switch r.Len() {
	case 0:
		return nil
	case 1:
		return Opaque{why}
	}
	t := make(Tuple, r.Len())
	for i := range t {
		t[i] = Opaque{why}
	}
	return t
}

func (e *Engine) call(caller *frame, callpos token.Pos, fn Value, args []Value) Value {
	switch fn := fn.(type) {
	case *ssa.Function:
		if fn == nil {
			e.rtPanic(caller, "call of nil function")
		}
		return e.callFunction(caller, fn, args, nil)
	case *Closure:
		return e.callFunction(caller, fn.Fn, args, fn.Env)
	case *ssa.Builtin:
		return e.callBuiltin(caller, callpos, fn, args)
	case *stubCall:
		e.stubsUsed[fn.name] = true
		return e.zeroResults(fn.sig)
	case *nativeFn:
		return fn.f(e, caller, args)
	case Opaque:
		if e.inInit > 0 {
			// inside a package initialiser an unsupported callee only poisons its results
			return Opaque{"result of opaque call: " + fn.Why}
		}
		e.unsupported("call of opaque function: " + fn.Why)
	}
	panic(fmt.Sprintf("cannot call %T", fn))
}

// nativeFn is a function value implemented by the engine.
type nativeFn struct {
	name string
	f    func(e *Engine, fr *frame, args []Value) Value
}

type fnInfo struct {
	name      string
	intrinsic intrinsicFn
	pkgPath   string
}

var fnInfoCache = map[*ssa.Function]*fnInfo{}
var fnInfoMu chan struct{} = make(chan struct{}, 1)

func getFnInfo(fn *ssa.Function) *fnInfo {
	fnInfoMu <- struct{}{}
	defer func() { <-fnInfoMu }()
	if fi, ok := fnInfoCache[fn]; ok {
		return fi
	}
	o := fn
	if fn.Origin() != nil {
		o = fn.Origin()
	}
	fi := &fnInfo{name: o.String()}
	if o.Pkg != nil {
		fi.pkgPath = o.Pkg.Pkg.Path()
	} else if o.Object() != nil && o.Object().Pkg() != nil {
		fi.pkgPath = o.Object().Pkg().Path()
	} else if o.Parent() != nil {
		p := o
		for p.Parent() != nil {
			p = p.Parent()
		}
		if p.Pkg != nil {
			fi.pkgPath = p.Pkg.Pkg.Path()
		}
	}
	fi.intrinsic = intrinsics[fi.name]
	fnInfoCache[fn] = fi
	return fi
}

func (e *Engine) callFunction(caller *frame, fn *ssa.Function, args []Value, env []Value) Value {
	fi := getFnInfo(fn)
	if len(e.replace) > 0 {
		if r, ok := e.replace[fi.name]; ok {
			e.stubsUsed["replace:"+fi.name] = true
			return e.call(caller, token.NoPos, r, args)
		}
	}
	if fi.intrinsic != nil {
		for _, a := range args {
			if o, ok := a.(Opaque); ok {
				if e.inInit > 0 {
					return e.opaqueResults(fn.Signature, "intrinsic on opaque argument: "+o.Why)
				}
				e.unsupported("intrinsic " + fi.name + " on opaque argument: " + o.Why)
			}
		}
		return fi.intrinsic(e, caller, fn, args)
	}
	if fn.Synthetic == "package initializer" && caller != nil {
		// imported packages are initialised lazily, on first access to one of
		// their globals (or by verif.InitPackage)
		return nil
	}
	if fi.pkgPath == "reflect" {
		for _, a := range args {
			if _, ok := a.(ReflectVal); ok {
				e.unsupported("reflect method without intrinsic: " + fi.name + " called at " + e.where(caller))
			}
		}
	}
	if fi.pkgPath != "" && e.stubPkgs[fi.pkgPath] && fn.Parent() == nil {
		e.stubsUsed["pkg:"+fi.pkgPath] = true
		return e.zeroResults(fn.Signature)
	}
	if fn.Blocks == nil {
		if fn.Synthetic != "" && strings.Contains(fn.Synthetic, "wrapper") {
			panic("synthetic function without body: " + fi.name)
		}
		e.stubsUsed["opaque:"+fi.name] = true
		return e.opaqueResults(fn.Signature, "no body: "+fi.name)
	}
	if fn.TypeParams().Len() > 0 && len(fn.TypeArgs()) == 0 {
		e.unsupported("uninstantiated generic " + fi.name)
	}
	e.depth++
	if e.depth > 400 {
		panic(pathEnd{"fuel", "call depth > 400 in " + fi.name})
	}
	defer func() { e.depth-- }()
	if !e.funcs[fi.name] {
		e.funcs[fi.name] = true
	}
	fr := &frame{e: e, caller: caller, fn: fn}
	if caller != nil {
		fr.g = caller.g
	}
	fr.env = make(map[ssa.Value]Value, 16)
	fr.block = fn.Blocks[0]
	fr.locals = make([]Value, len(fn.Locals))
	for i, l := range fn.Locals {
		fr.locals[i] = e.zero(deref(l.Type()))
		fr.env[l] = &fr.locals[i]
	}
	for i, p := range fn.Params {
		fr.env[p] = args[i]
	}
	for i, fv := range fn.FreeVars {
		fr.env[fv] = env[i]
	}
	for fr.block != nil {
		e.runFrame(fr)
	}
	return fr.result
}

func (e *Engine) runFrame(fr *frame) {
	defer func() {
		if fr.block == nil {
			return // normal return
		}
		r := recover()
		tp, isTarget := r.(targetPanic)
		if !isTarget {
			if re, ok := r.(runtime.Error); ok {
				panic(fmt.Sprintf("engine bug: %v in %s at %s\n%s", re, fr.fn, e.where(fr), shortStack()))
			}
			panic(r)
		}
		fr.panicking = true
		fr.panic = tp
		fr.runDefers() // re-panics unless recovered
		fr.block = fr.fn.Recover
		if fr.block == nil {
			// recovered, no named results: return zero values
			fr.result = e.zeroResults(fr.fn.Signature)
		}
	}()
	for {
		nonPhis := e.executePhis(fr)
		e.tick(len(nonPhis))
		for _, instr := range nonPhis {
			if e.cfg.Trace {
				if v, ok := instr.(ssa.Value); ok {
					fmt.Printf("  %s: %s = %s\n", fr.fn.Name(), v.Name(), instr)
				} else {
					fmt.Printf("  %s: %s\n", fr.fn.Name(), instr)
				}
			}
			if e.visitInstr(fr, instr) {
				return
			}
		}
	}
}

func (e *Engine) executePhis(fr *frame) []ssa.Instruction {
	firstNonPhi := -1
	for i, instr := range fr.block.Instrs {
		if _, ok := instr.(*ssa.Phi); !ok {
			firstNonPhi = i
			break
		}
	}
	nonPhis := fr.block.Instrs[firstNonPhi:]
	if fr.skipPhis {
		fr.skipPhis = false
		return nonPhis
	}
	if firstNonPhi > 0 {
		phis := fr.block.Instrs[:firstNonPhi]
		predIndex := -1
		for i, p := range fr.block.Preds {
			if p == fr.prevBlock {
				predIndex = i
				break
			}
		}
		fr.phitemps = fr.phitemps[:0]
		for _, phi := range phis {
			phi := phi.(*ssa.Phi)
			fr.phitemps = append(fr.phitemps, fr.get(phi.Edges[predIndex]))
		}
		for i, phi := range phis {
			fr.env[phi.(*ssa.Phi)] = fr.phitemps[i]
		}
	}
	return nonPhis
}

func (e *Engine) doRecover(caller *frame) Value {
	if caller != nil && !caller.panicking && caller.caller != nil && caller.caller.panicking {
		caller.caller.panicking = false
		p := caller.caller.panic
		caller.caller.panic = nil
		switch p := p.(type) {
		case targetPanic:
			if p.runtime {
				return Iface{T: e.runtimeErrorType(), V: Str{S: p.msg}}
			}
			return p.v
		default:
			panic(fmt.Sprintf("unexpected panic type %T in recover()", p))
		}
	}
	return Iface{}
}

func (e *Engine) runtimeErrorType() types.Type {
	rp := e.prog.ImportedPackage("runtime")
	if rp == nil {
		panic("no runtime package in program")
	}
	return rp.Type("errorString").Object().Type()
}

// ---- globals and lazy package initialisation ----

func isStdlib(path string) bool {
	first := path
	if i := strings.Index(path, "/"); i >= 0 {
		first = path[:i]
	}
	return !strings.Contains(first, ".")
}

// noInitPkg lists third-party packages whose initialisers are reflection- and
// unsafe-heavy registries (protobuf, grpc, xds types, metrics exporters) that no
// kernel reads: their globals stay zero.
func noInitPkg(path string) bool {
	if path == "golang.org/x/net/http2/hpack" {
		return false
	}
	for _, p := range []string{"google.golang.org/protobuf", "github.com/golang/protobuf", "github.com/envoyproxy", "github.com/cncf",
		"google.golang.org/grpc", "google.golang.org/genproto", "k8s.io/", "istio.io/", "github.com/gogo/protobuf", "go.opencensus.io",
		"github.com/prometheus", "github.com/json-iterator", "github.com/modern-go", "net/http", "crypto/", "golang.org/x/net/http2", "github.com/valyala/fasthttp",
		"github.com/SkyAPM", "github.com/alibaba/sentinel-golang", "github.com/opentracing", "github.com/uber", "go.uber.org/zap", "github.com/nacos-group",
		"gopkg.in/", "github.com/ghodss/yaml", "github.com/go-resty", "github.com/hashicorp", "github.com/miekg", "vimagination.zapto.org", "github.com/dubbogo", "github.com/google/cel-go", "github.com/antlr", "github.com/apache/dubbo-go-hessian2"} {
		if strings.HasPrefix(path, p) {
			return true
		}
	}
	return false
}

func (e *Engine) globalAddr(g *ssa.Global) *Value {
	if p, ok := e.globals[g]; ok {
		return p
	}
	pkg := g.Pkg
	path := pkg.Pkg.Path()
	// allocate storage for every global of the package
	for _, m := range pkg.Members {
		if gv, ok := m.(*ssa.Global); ok {
			if _, have := e.globals[gv]; !have {
				cell := e.zero(deref(gv.Type()))
				e.globals[gv] = &cell
			}
		}
	}
	if e.pkgInit[pkg] == 0 && !e.stubPkgs[path] && (!noInitPkg(path) || e.forceInit[path]) {
		e.pkgInit[pkg] = 1
		e.initPackage(pkg)
		e.pkgInit[pkg] = 2
	} else if e.pkgInit[pkg] == 0 && !e.stubPkgs[path] {
		// a package that is never initialised: a global its initialiser would have
		// assigned is not zero in a real run, so it must not read as zero here
		e.pkgInit[pkg] = 3
		for _, gv := range initStoredGlobals(pkg) {
			*e.globals[gv] = Opaque{Why: "global " + gv.Name() + " of package " + path + ", which the engine does not initialise"}
		}
	}
	return e.globals[g]
}

// initStoredGlobals lists the globals of pkg that its init function assigns directly.
func initStoredGlobals(pkg *ssa.Package) []*ssa.Global {
	init := pkg.Func("init")
	if init == nil {
		return nil
	}
	var out []*ssa.Global
	seen := map[*ssa.Global]bool{}
	scan := func(fn *ssa.Function) {
		for _, b := range fn.Blocks {
			for _, in := range b.Instrs {
				if st, ok := in.(*ssa.Store); ok {
					if gv, ok := st.Addr.(*ssa.Global); ok && gv.Pkg == pkg && !seen[gv] {
						seen[gv] = true
						out = append(out, gv)
					}
				}
			}
		}
	}
	scan(init)
	// the source-level init functions (init#1, init#2, ...) the initialiser calls
	for name, m := range pkg.Members {
		if fn, ok := m.(*ssa.Function); ok && strings.HasPrefix(name, "init#") {
			scan(fn)
		}
	}
	return out
}

// InitPackage forces the (lazy) initialisation of a package by path.
func (e *Engine) InitPackage(path string) {
	pkg := e.prog.ImportedPackage(path)
	if pkg == nil {
		e.unsupported("InitPackage: no package " + path)
	}
	if e.forceInit == nil {
		e.forceInit = map[string]bool{}
	}
	e.forceInit[path] = true
	if e.pkgInit[pkg] == 3 {
		e.pkgInit[pkg] = 0 // globals were marked uninitialised; now run the initialiser
		for _, gv := range initStoredGlobals(pkg) {
			*e.globals[gv] = e.zero(deref(gv.Type()))
		}
	}
	for _, m := range pkg.Members {
		if gv, ok := m.(*ssa.Global); ok {
			e.globalAddr(gv)
			return
		}
	}
	// no globals: run init directly
	if e.pkgInit[pkg] == 0 {
		e.pkgInit[pkg] = 1
		e.initPackage(pkg)
		e.pkgInit[pkg] = 2
	}
}

func (e *Engine) initPackage(pkg *ssa.Package) {
	init := pkg.Func("init")
	if init == nil || init.Blocks == nil {
		return
	}
	saveNoPanic := e.noPanic
	e.noPanic = false
	e.inInit++
	saveDepth := e.depth
	defer func() { e.noPanic = saveNoPanic; e.inInit--; e.depth = saveDepth }()
	func() {
		defer func() {
			if r := recover(); r != nil {
				// An initialiser the engine cannot run to the end leaves the
				// remaining globals of that package zero; this is recorded (evidence:
				// incomplete_inits) and only matters if the kernel reads them.
				switch p := r.(type) {
				case targetPanic:
					e.stubsUsed["incomplete-init:"+pkg.Pkg.Path()+": "+p.String()] = true
					e.markUnreachedInits(pkg)
				case pathEnd:
					if p.kind != "unsupported" {
						panic(r)
					}
					e.stubsUsed["incomplete-init:"+pkg.Pkg.Path()+": "+p.msg] = true
					e.markUnreachedInits(pkg)
				case string:
					if strings.HasPrefix(p, "engine bug") || e.cfg.Trace {
						panic(r)
					}
					e.stubsUsed["incomplete-init:"+pkg.Pkg.Path()+": "+p] = true
					e.markUnreachedInits(pkg)
				default:
					panic(r)
				}
			}
		}()
		e.callFunction(nil, init, nil, nil)
	}()
}

// markUnreachedInits: after an initialiser that could not be run to its end,
// the globals it assigns that still hold their zero value are made opaque.
func (e *Engine) markUnreachedInits(pkg *ssa.Package) {
	for _, gv := range initStoredGlobals(pkg) {
		cell := e.globals[gv]
		if cell != nil && reflect.DeepEqual(*cell, e.zero(deref(gv.Type()))) {
			*cell = Opaque{Why: "global " + gv.Name() + " of package " + pkg.Pkg.Path() + ": initialiser not reached (incomplete init)"}
		}
	}
}

func (e *Engine) protectedInitCall(fr *frame, instr *ssa.Call, fn Value, args []Value) (res Value) {
	saveDepth := e.depth
	defer func() {
		if r := recover(); r != nil {
			why := ""
			switch p := r.(type) {
			case targetPanic:
				why = p.String()
			case pathEnd:
				if p.kind != "unsupported" {
					panic(r)
				}
				why = p.msg
			case string:
				if strings.HasPrefix(p, "engine bug") || e.cfg.Trace {
					panic(r)
				}
				why = p
			default:
				panic(r)
			}
			e.depth = saveDepth
			e.stubsUsed["incomplete-init:"+fr.fn.Pkg.Pkg.Path()+": "+instr.String()+": "+why] = true
			res = e.opaqueResults(instr.Call.Signature(), "failed initialiser: "+why)
		}
	}()
	return e.call(fr, instr.Pos(), fn, args)
}

// ---- if-conversion: a && b, a || b, min/max style diamonds are evaluated on
// both arms and merged with ite instead of forking the path.

func pureInstr(in ssa.Instruction) bool {
	switch in := in.(type) {
	case *ssa.BinOp:
		switch in.Op {
		case token.QUO, token.REM:
			return false
		}
		return true
	case *ssa.UnOp:
		return in.Op != token.ARROW
	case *ssa.Convert, *ssa.ChangeType, *ssa.ChangeInterface, *ssa.Field, *ssa.FieldAddr, *ssa.Extract, *ssa.MakeInterface, *ssa.DebugRef:
		return true
	case *ssa.IndexAddr:
		_, isConst := in.Index.(*ssa.Const)
		return isConst
	case *ssa.Call:
		if b, ok := in.Call.Value.(*ssa.Builtin); ok {
			return b.Name() == "len" || b.Name() == "cap"
		}
		return false
	case *ssa.TypeAssert:
		return in.CommaOk
	}
	return false
}

// pureArm reports whether blk (entered only from from) consists of pure
// instructions and ends in a jump, returning the join block.
func pureArm(blk, from *ssa.BasicBlock) (*ssa.BasicBlock, bool) {
	if len(blk.Preds) != 1 || blk.Preds[0] != from || len(blk.Instrs) > 12 {
		return nil, false
	}
	n := len(blk.Instrs)
	j, ok := blk.Instrs[n-1].(*ssa.Jump)
	if !ok {
		return nil, false
	}
	_ = j
	for _, in := range blk.Instrs[:n-1] {
		if _, isPhi := in.(*ssa.Phi); isPhi {
			return nil, false
		}
		if !pureInstr(in) {
			return nil, false
		}
	}
	return blk.Succs[0], true
}

func (e *Engine) specExec(fr *frame, blk *ssa.BasicBlock) (ok bool) {
	defer func() {
		if r := recover(); r != nil {
			if _, isT := r.(targetPanic); isT {
				ok = false
				return
			}
			panic(r)
		}
	}()
	save := e.symBranches
	for _, in := range blk.Instrs[:len(blk.Instrs)-1] {
		e.visitInstr(fr, in)
	}
	return e.symBranches == save
}

func (e *Engine) tryIfConvert(fr *frame, cond *sym.Term) bool {
	b := fr.block
	t, f := b.Succs[0], b.Succs[1]
	var join *ssa.BasicBlock
	var arms []*ssa.BasicBlock // blocks to execute speculatively
	predT, predF := t, f       // predecessors of join for the true / false outcome
	if jt, ok := pureArm(t, b); ok && jt == f {
		join, arms, predT, predF = f, []*ssa.BasicBlock{t}, t, b
	} else if jf, ok := pureArm(f, b); ok && jf == t {
		join, arms, predT, predF = t, []*ssa.BasicBlock{f}, b, f
	} else if jt, ok1 := pureArm(t, b); ok1 {
		if jf, ok2 := pureArm(f, b); ok2 && jf == jt {
			join, arms = jt, []*ssa.BasicBlock{t, f}
		}
	}
	if join == nil {
		return false
	}
	// the join must start with phis only depending on which arm was taken
	idxT, idxF := -1, -1
	for i, p := range join.Preds {
		if p == predT {
			idxT = i
		}
		if p == predF {
			idxF = i
		}
	}
	if idxT < 0 || idxF < 0 || idxT == idxF {
		return false
	}
	savePos := fr.curPos
	for _, a := range arms {
		if !e.specExec(fr, a) {
			fr.curPos = savePos
			return false
		}
	}
	// merge phis
	var phis []*ssa.Phi
	var vals []Value
	for _, in := range join.Instrs {
		phi, ok := in.(*ssa.Phi)
		if !ok {
			break
		}
		vt, vf := fr.get(phi.Edges[idxT]), fr.get(phi.Edges[idxF])
		tt, ok1 := vt.(*sym.Term)
		tf, ok2 := vf.(*sym.Term)
		if ok1 && ok2 && tt.W == tf.W {
			phis = append(phis, phi)
			vals = append(vals, e.T.Ite(cond, tt, tf))
			continue
		}
		fr.curPos = savePos
		return false
	}
	for i, phi := range phis {
		fr.env[phi] = vals[i]
	}
	e.tick(8)
	// continue in join after its phis: emulate by setting prevBlock to a marker
	fr.prevBlock, fr.block = nil, join
	fr.skipPhis = true
	return true
}

package main

// Generator for "arbitrary value" and "field-by-field equality" functions.
//
// A harness file may carry   //verif:gen T1,T2,...   naming types of the package
// it is injected into. Before the main load vcheck type-checks that package from
// /repo's current working tree and writes one more harness file with, for each
// named type reachable from T1.. :
//
//	func zzHv_<id>(h *zzHv) T          every scalar leaf a fresh solver symbol;
//	                                   the shape decisions (pointer nil or not, slice / map /
//	                                   string empty or not) are taken by h (see zzHv below)
//	func zzEq_<id>(h *zzHv, a, b T, p string)   verif.Assert on every leaf, p names the field
//
// Because the functions are generated from the type declarations of the tree
// under test, a field added to or removed from a configuration struct is
// covered without touching the harness. If the harness declares
// func zzExpect_<id>(x *T) (id: the type name, prefixed with its package name and _ for a type of another package), zzEq_<T> applies it to its first argument first
// (the documented normalisation a round trip is allowed to perform).

import (
	"fmt"
	"go/types"
	"os"
	"path/filepath"
	"regexp"
	"sort"
	"strings"

	"golang.org/x/tools/go/packages"
)

type typeGen struct {
	pkg     *types.Package
	imports map[string]string
	ids     map[string]string // type string -> id
	order   []types.Type
	hooks   map[string]bool
	skipFld map[string]bool // "Type.Field" left at its zero value and not compared
	sb      strings.Builder
}

func (g *typeGen) qual(p *types.Package) string {
	if p == g.pkg {
		return ""
	}
	if a, ok := g.imports[p.Path()]; ok {
		return a
	}
	a := fmt.Sprintf("zzp%d", len(g.imports))
	g.imports[p.Path()] = a
	return a
}

func (g *typeGen) texpr(t types.Type) string { return types.TypeString(t, g.qual) }

// nameable reports whether the generated file can spell t.
func (g *typeGen) nameable(t types.Type) bool {
	switch t := types.Unalias(t).(type) {
	case *types.Named:
		if t.Obj().Pkg() != nil && t.Obj().Pkg() != g.pkg && !t.Obj().Exported() {
			return false
		}
		if t.TypeArgs().Len() > 0 {
			return false
		}
		return true
	case *types.Pointer:
		return g.nameable(t.Elem())
	case *types.Slice:
		return g.nameable(t.Elem())
	case *types.Array:
		return g.nameable(t.Elem())
	case *types.Map:
		return g.nameable(t.Key()) && g.nameable(t.Elem())
	case *types.Struct:
		for i := 0; i < t.NumFields(); i++ {
			if !g.nameable(t.Field(i).Type()) {
				return false
			}
		}
		return true
	case *types.Chan:
		return g.nameable(t.Elem())
	case *types.TypeParam:
		return false
	}
	return true
}

func (g *typeGen) id(t types.Type) string {
	t = types.Unalias(t)
	k := types.TypeString(t, nil)
	if id, ok := g.ids[k]; ok {
		return id
	}
	var id string
	if n, ok := t.(*types.Named); ok {
		id = n.Obj().Name()
		if n.Obj().Pkg() != nil && n.Obj().Pkg() != g.pkg {
			id = n.Obj().Pkg().Name() + "_" + id
		}
		for _, v := range g.ids {
			if v == id {
				id = fmt.Sprintf("%s_%d", id, len(g.ids))
			}
		}
	} else {
		id = fmt.Sprintf("t%d", len(g.ids))
	}
	g.ids[k] = id
	g.order = append(g.order, t)
	return id
}

func isPkgType(t types.Type, pkg, name string) bool {
	n, ok := types.Unalias(t).(*types.Named)
	return ok && n.Obj().Pkg() != nil && n.Obj().Pkg().Path() == pkg && n.Obj().Name() == name
}

func (g *typeGen) emit(t types.Type) {
	id := g.ids[types.TypeString(t, nil)]
	te := g.texpr(t)
	w := func(f string, a ...interface{}) { fmt.Fprintf(&g.sb, f, a...) }
	hv := func(body string) { w("func zzHv_%s(h *zzHv) (v %s) {\n%s\treturn\n}\n\n", id, te, body) }
	eq := func(body string) {
		pre := ""
		if _, ok := t.(*types.Named); ok && g.hooks[id] {
			pre = fmt.Sprintf("\tzzExpect_%s(&a)\n", id)
		}
		w("func zzEq_%s(h *zzHv, a, b %s, p string) {\n%s%s}\n\n", id, te, pre, body)
	}
	if isPkgType(t, "encoding/json", "RawMessage") {
		hv("\tif h.full() {\n\t\tv = " + te + "(`{\"zzk\":\"zzv\"}`)\n\t}\n")
		eq("\tverif.Assert(zzRawEmpty(a) == zzRawEmpty(b), p+\": raw message presence\")\n")
		return
	}
	switch u := t.Underlying().(type) {
	case *types.Basic:
		switch {
		case u.Info()&types.IsBoolean != 0:
			hv("\tv = " + te + "(verif.Bool(\"hvbool\"))\n")
		case u.Info()&types.IsInteger != 0:
			fn := "U64"
			switch u.Kind() {
			case types.Int8, types.Uint8:
				fn = "U8"
			case types.Int16, types.Uint16:
				fn = "U16"
			case types.Int32, types.Uint32:
				fn = "U32"
			}
			hv("\tv = " + te + "(verif." + fn + "(\"hv" + fn + "\"))\n")
		case u.Info()&types.IsFloat != 0:
			hv("\tv = " + te + "(h.flt())\n")
		case u.Info()&types.IsString != 0:
			hv("\tv = " + te + "(h.str())\n")
		default:
			hv("")
			eq("")
			return
		}
		eq("\tverif.Assert(a == b, p)\n")
	case *types.Pointer:
		if !g.nameable(u.Elem()) {
			hv("")
			eq("")
			return
		}
		eid := g.id(u.Elem())
		hv(fmt.Sprintf("\tif h.enter(%q) {\n\t\tif h.full() {\n\t\t\tx := zzHv_%s(h)\n\t\t\tv = &x\n\t\t}\n\t\th.leave(%q)\n\t}\n", id, eid, id))
		eq(fmt.Sprintf("\tverif.Assert((a == nil) == (b == nil), p+\": nil-ness\")\n\tif a != nil && b != nil {\n\t\tzzEq_%s(h, *a, *b, p)\n\t}\n", eid))
	case *types.Slice:
		if !g.nameable(u.Elem()) {
			hv("")
			eq("")
			return
		}
		if b, ok := u.Elem().Underlying().(*types.Basic); ok && b.Kind() == types.Uint8 {
			hv("\tif h.full() {\n\t\tv = " + te + "(verif.Bytes(\"hvb\", 2))\n\t}\n")
			eq("\tverif.Assert(len(a) == len(b), p+\": length\")\n\tfor i := range a {\n\t\tif i < len(b) {\n\t\t\tverif.Assert(a[i] == b[i], p)\n\t\t}\n\t}\n")
			return
		}
		eid := g.id(u.Elem())
		hv(fmt.Sprintf("\tif h.enter(%q) {\n\t\tif h.full() {\n\t\t\tv = %s{zzHv_%s(h)}\n\t\t}\n\t\th.leave(%q)\n\t}\n", id, te, eid, id))
		eq(fmt.Sprintf("\tverif.Assert(len(a) == len(b), p+\": length\")\n\tfor i := range a {\n\t\tif i < len(b) {\n\t\t\tzzEq_%s(h, a[i], b[i], p+\"[]\")\n\t\t}\n\t}\n", eid))
	case *types.Array:
		if !g.nameable(u.Elem()) {
			hv("")
			eq("")
			return
		}
		eid := g.id(u.Elem())
		hv(fmt.Sprintf("\tfor i := range v {\n\t\tv[i] = zzHv_%s(h)\n\t}\n", eid))
		eq(fmt.Sprintf("\tfor i := range a {\n\t\tzzEq_%s(h, a[i], b[i], p+\"[]\")\n\t}\n", eid))
	case *types.Map:
		kb, ok := u.Key().Underlying().(*types.Basic)
		if !ok || kb.Info()&types.IsString == 0 || !g.nameable(u.Elem()) || !g.nameable(u.Key()) {
			hv("")
			eq("")
			return
		}
		eid := g.id(u.Elem())
		hv(fmt.Sprintf("\tif h.enter(%q) {\n\t\tif h.full() {\n\t\t\tv = %s{\"zzkey\": zzHv_%s(h)}\n\t\t}\n\t\th.leave(%q)\n\t}\n", id, te, eid, id))
		eq(fmt.Sprintf("\tverif.Assert(len(a) == len(b), p+\": size\")\n\tfor k, va := range a {\n\t\tvb, ok := b[k]\n\t\tverif.Assert(ok, p+\": key lost\")\n\t\tif ok {\n\t\t\tzzEq_%s(h, va, vb, p+\"[]\")\n\t\t}\n\t}\n", eid))
	case *types.Interface:
		if u.NumMethods() == 0 {
			hv("\tif h.full() {\n\t\tv = verif.Str(\"hvs\", 2)\n\t}\n")
			eq("\tzzEqAny(a, b, p)\n")
		} else {
			hv("")
			eq("\tverif.Assert((a == nil) == (b == nil), p+\": nil-ness\")\n")
		}
	case *types.Struct:
		var hb, eb strings.Builder
		tn := ""
		if n, ok := t.(*types.Named); ok {
			tn = n.Obj().Name()
		}
		for i := 0; i < u.NumFields(); i++ {
			f := u.Field(i)
			if f.Name() == "_" || g.skipFld[tn+"."+f.Name()] {
				continue
			}
			if !f.Exported() && f.Pkg() != g.pkg {
				continue
			}
			if !g.nameable(f.Type()) {
				continue
			}
			fid := g.id(f.Type())
			fmt.Fprintf(&hb, "\tv.%s = zzHv_%s(h)\n", f.Name(), fid)
			fmt.Fprintf(&eb, "\tzzEq_%s(h, a.%s, b.%s, p+\".%s\")\n", fid, f.Name(), f.Name(), f.Name())
		}
		hv(hb.String())
		eq(eb.String())
	default:
		hv("")
		eq("")
	}
}

const genPrelude = `
// zzHv takes the shape decisions of the generated zzHv_* functions. mode 0: every
// pointer / slice / map / string / interface is nil or empty; mode 1: every one of
// them is populated (slices and maps with one element, strings with two symbolic
// bytes), except decision number flip (counted in generation order), which is empty.
// mode 2: as mode 1, and the decisions are only counted.
type zzHv struct {
	mode, flip, n int
	act        map[string]int
}

func (h *zzHv) full() bool {
	i := h.n
	h.n++
	return h.mode != 0 && i != h.flip
}

func (h *zzHv) flt() float64 {
	if h.full() {
		return 1.5
	}
	return 0
}

func (h *zzHv) str() string {
	if h.full() {
		return verif.Str("hvs", 2)
	}
	return ""
}

// enter / leave bound recursive types: a type is expanded at most once on any
// path from the root.
func (h *zzHv) enter(id string) bool {
	if h.act == nil {
		h.act = map[string]int{}
	}
	if h.act[id] >= 1 {
		return false
	}
	h.act[id]++
	return true
}

func (h *zzHv) leave(id string) { h.act[id]-- }

// zzRawEmpty: a raw message that is absent, or the JSON null it is printed as when its
// field has no omitempty option.
func zzRawEmpty(b []byte) bool {
	return len(b) == 0 || (len(b) == 4 && string(b) == "null")
}

func zzEqAny(a, b interface{}, p string) {
	switch x := a.(type) {
	case nil:
		verif.Assert(b == nil, p+": nil interface became non-nil")
	case string:
		y, ok := b.(string)
		verif.Assert(ok, p+": dynamic type changed (string)")
		if ok {
			verif.Assert(x == y, p)
		}
	case bool:
		y, ok := b.(bool)
		verif.Assert(ok, p+": dynamic type changed (bool)")
		if ok {
			verif.Assert(x == y, p)
		}
	case float64:
		y, ok := b.(float64)
		verif.Assert(ok, p+": dynamic type changed (float64)")
		if ok {
			verif.Assert(x == y, p)
		}
	case map[string]interface{}:
		y, ok := b.(map[string]interface{})
		verif.Assert(ok, p+": dynamic type changed (map)")
		if ok {
			verif.Assert(len(x) == len(y), p+": size")
			for k, va := range x {
				vb, ok := y[k]
				verif.Assert(ok, p+": key lost")
				if ok {
					zzEqAny(va, vb, p+"[]")
				}
			}
		}
	case []interface{}:
		y, ok := b.([]interface{})
		verif.Assert(ok, p+": dynamic type changed (slice)")
		if ok {
			verif.Assert(len(x) == len(y), p+": length")
			for i := range x {
				if i < len(y) {
					zzEqAny(x[i], y[i], p+"[]")
				}
			}
		}
	default:
		verif.Assert(false, p+": value of a dynamic type the comparison does not know")
	}
}
`

// generate writes the generated harness file for one directive.
func generate(f *harnessFile, roots []string, scratch string) (*harnessFile, error) {
	cfg := &packages.Config{
		Mode:       packages.NeedName | packages.NeedTypes | packages.NeedImports | packages.NeedDeps | packages.NeedSyntax | packages.NeedTypesInfo,
		Dir:        repoDir,
		Env:        goEnv(),
		BuildFlags: []string{"-tags=verif"},
	}
	pkgs, err := packages.Load(cfg, f.pkg)
	if err != nil {
		return nil, err
	}
	if len(pkgs) != 1 || pkgs[0].Types == nil || len(pkgs[0].Errors) > 0 {
		return nil, fmt.Errorf("verif:gen: cannot type-check %s: %v", f.pkg, pkgs[0].Errors)
	}
	g := &typeGen{pkg: pkgs[0].Types, imports: map[string]string{}, ids: map[string]string{}, hooks: map[string]bool{}, skipFld: map[string]bool{}}
	for _, m := range regexp.MustCompile(`(?m)^func zzExpect_(\w+)\(`).FindAllStringSubmatch(f.src, -1) {
		g.hooks[m[1]] = true
	}
	for _, m := range regexp.MustCompile(`(?m)^//verif:gen-skip\s+(\S+)`).FindAllStringSubmatch(f.src, -1) {
		for _, s := range strings.Split(m[1], ",") {
			g.skipFld[s] = true
		}
	}
	for _, r := range roots {
		scope := g.pkg.Scope()
		if i := strings.Index(r, "."); i > 0 {
			scope = nil
			for _, imp := range g.pkg.Imports() {
				if imp.Name() == r[:i] {
					scope = imp.Scope()
				}
			}
			if scope == nil {
				return nil, fmt.Errorf("verif:gen: %s does not import a package named %s", f.pkg, r[:i])
			}
			r = r[i+1:]
		}
		obj := scope.Lookup(r)
		if obj == nil {
			return nil, fmt.Errorf("verif:gen: no type %s in %s", r, f.pkg)
		}
		g.id(obj.Type())
	}
	for i := 0; i < len(g.order); i++ {
		g.emit(g.order[i])
	}
	var out strings.Builder
	fmt.Fprintf(&out, "// Code generated by vcheck from the type declarations of %s. DO NOT EDIT.\n\npackage %s\n\nimport (\n\t%q\n", f.pkg, g.pkg.Name(), verifPkgPath)
	var paths []string
	for p := range g.imports {
		paths = append(paths, p)
	}
	sort.Strings(paths)
	for _, p := range paths {
		fmt.Fprintf(&out, "\t%s %q\n", g.imports[p], p)
	}
	out.WriteString(")\n")
	out.WriteString(genPrelude)
	out.WriteString("\n")
	out.WriteString(g.sb.String())
	if err := os.MkdirAll(scratch, 0o755); err != nil {
		return nil, err
	}
	base := "gen_" + strings.TrimSuffix(filepath.Base(f.path), ".go")
	p := filepath.Join(scratch, base+".go")
	if err := os.WriteFile(p, []byte(out.String()), 0o644); err != nil {
		return nil, err
	}
	return &harnessFile{path: p, pkg: f.pkg, src: out.String(),
		overlay: filepath.Join(filepath.Dir(f.overlay), "zz_verif_"+base+".go")}, nil
}

var genRe = regexp.MustCompile(`(?m)^//verif:gen\s+(\S+)\s*$`)

// expandGenerated appends the generated files for every //verif:gen directive in files.
func expandGenerated(files []*harnessFile, scratch string) ([]*harnessFile, error) {
	out := files
	for _, f := range files {
		m := genRe.FindStringSubmatch(f.src)
		if m == nil {
			continue
		}
		gf, err := generate(f, strings.Split(m[1], ","), scratch)
		if err != nil {
			return nil, err
		}
		out = append(out, gf)
	}
	return out, nil
}

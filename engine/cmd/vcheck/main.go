// vcheck: symbolic (SSA -> SMT) bounded checker for the mosn properties.
//
//	vcheck <ID> --tier quick|thorough     run every harness of a property
//	vcheck <ID> --replay <file>           replay a stored counterexample natively
//	vcheck --selftest                     engine conformance tests
package main

import (
	"encoding/json"
	"flag"
	"fmt"
	"os"
	"os/exec"
	"path/filepath"
	"regexp"
	"sort"
	"strconv"
	"strings"
	"time"

	"golang.org/x/tools/go/packages"
	"golang.org/x/tools/go/ssa"
	"golang.org/x/tools/go/ssa/ssautil"
	"verif/engine/interp"
)

var (
	verifDir = "/verif"
	repoDir  = "/repo"
	outDir   = "/verif" // evidence/, replay/ and .scratch/ live here
)

type harnessFile struct {
	path    string // /verif/harness/...
	pkg     string // import path of the package it is injected into
	overlay string // /repo/.../zz_verif_x.go
	src     string
}

const verifPkgPath = "mosn.io/mosn/pkg/zzverif/verif"

func scanHarnessFiles() ([]*harnessFile, error) {
	var out []*harnessFile
	re := regexp.MustCompile(`(?m)^//verif:pkg\s+(\S+)`)
	err := filepath.Walk(filepath.Join(verifDir, "harness"), func(p string, info os.FileInfo, err error) error {
		if err != nil || info.IsDir() || !strings.HasSuffix(p, ".go") {
			return err
		}
		b, err := os.ReadFile(p)
		if err != nil {
			return err
		}
		m := re.FindSubmatch(b)
		if m == nil {
			return nil
		}
		pkg := string(m[1])
		rel := strings.TrimPrefix(pkg, "mosn.io/mosn")
		rel = strings.TrimPrefix(rel, "/")
		base := strings.TrimSuffix(filepath.Base(p), ".go")
		out = append(out, &harnessFile{path: p, pkg: pkg, src: string(b),
			overlay: filepath.Join(repoDir, rel, "zz_verif_"+base+".go")})
		return nil
	})
	return out, err
}

func goEnv() []string {
	env := os.Environ()
	env = append(env, "GOFLAGS=-mod=mod", "GOPROXY=off", "GOSUMDB=off", "GOTOOLCHAIN=local", "GOWORK=off")
	return env
}

type loaded struct {
	prog *ssa.Program
	pkgs map[string]*ssa.Package
}

func load(files []*harnessFile, pkgPaths []string) (*loaded, error) {
	overlay := map[string][]byte{}
	for _, f := range files {
		overlay[f.overlay] = []byte(f.src)
	}
	sup, err := os.ReadFile(filepath.Join(verifDir, "support/verif/verif.go"))
	if err != nil {
		return nil, err
	}
	overlay[filepath.Join(repoDir, "pkg/zzverif/verif/verif.go")] = sup
	cfg := &packages.Config{
		Mode:    packages.LoadAllSyntax,
		Dir:     repoDir,
		Env:     goEnv(),
		Overlay: overlay,
		BuildFlags: []string{"-tags=verif"},
	}
	pats := append([]string{}, pkgPaths...)
	pats = append(pats, verifPkgPath, "errors", "runtime")
	initial, err := packages.Load(cfg, pats...)
	if err != nil {
		return nil, err
	}
	nerr := 0
	packages.Visit(initial, nil, func(p *packages.Package) {
		for _, e := range p.Errors {
			if nerr < 20 {
				fmt.Fprintf(os.Stderr, "load error: %s: %v\n", p.PkgPath, e)
			}
			nerr++
		}
	})
	if nerr > 0 {
		return nil, fmt.Errorf("%d package load errors", nerr)
	}
	prog, _ := ssautil.AllPackages(initial, ssa.InstantiateGenerics)
	prog.Build()
	l := &loaded{prog: prog, pkgs: map[string]*ssa.Package{}}
	for _, p := range prog.AllPackages() {
		l.pkgs[p.Pkg.Path()] = p
	}
	return l, nil
}

// coverLabels statically collects verif.Cover("label") calls in fn and its closures.
func coverLabels(fn *ssa.Function, seen map[*ssa.Function]bool, out map[string]bool) {
	if seen[fn] || fn.Blocks == nil {
		return
	}
	seen[fn] = true
	for _, b := range fn.Blocks {
		for _, in := range b.Instrs {
			if mc, ok := in.(*ssa.MakeClosure); ok {
				coverLabels(mc.Fn.(*ssa.Function), seen, out)
			}
			c, ok := in.(ssa.CallInstruction)
			if !ok {
				continue
			}
			callee := c.Common().StaticCallee()
			if callee == nil {
				continue
			}
			if callee.Pkg != nil && callee.Pkg.Pkg.Path() == verifPkgPath && callee.Name() == "Cover" {
				if k, ok := c.Common().Args[0].(*ssa.Const); ok {
					out[strings.Trim(k.Value.ExactString(), `"`)] = true
				}
			} else if callee.Pkg != nil && callee.Pkg == fn.Pkg && strings.HasPrefix(callee.Name(), "zz") {
				coverLabels(callee, seen, out)
			}
		}
	}
}

type knownFinding struct {
	Property  string            `json:"property"`
	Harness   string            `json:"harness"`
	Assertion string            `json:"assertion"` // prefix match on the assertion message
	When      map[string][2]int64 `json:"when,omitempty"` // symbol -> [min,max] (signed) that the model must satisfy
	What      string            `json:"what"`
	ID        string            `json:"id"`
}

type knownFile struct {
	Findings []knownFinding `json:"findings"`
	Fixed    []string       `json:"fixed"`
}

func loadKnown() knownFile {
	var k knownFile
	b, err := os.ReadFile(filepath.Join(verifDir, "known_findings.json"))
	if err == nil {
		if err := json.Unmarshal(b, &k); err != nil {
			fmt.Fprintln(os.Stderr, "known_findings.json:", err)
			os.Exit(2)
		}
	}
	return k
}

func (k knownFile) match(prop string, v *interp.Violation) *knownFinding {
	for i := range k.Findings {
		f := &k.Findings[i]
		if f.Property != prop || f.Harness != v.Harness || !strings.HasPrefix(v.Msg, f.Assertion) {
			continue
		}
		ok := true
		for name, r := range f.When {
			val := int64(v.Model[name])
			if val < r[0] || val > r[1] {
				ok = false
			}
		}
		if ok {
			return f
		}
	}
	return nil
}

type replayCase struct {
	Model   map[string]uint64 `json:"model"`
	Harness string            `json:"harness"`
	Tier    int               `json:"tier"`
	Params  map[string]int    `json:"params"`
	Tag     string            `json:"tag"`
}

type replayOutcome struct {
	Tag     string   `json:"tag"`
	Harness string   `json:"harness"`
	Result  string   `json:"result"`
	Failed  []string `json:"failed"`
	Detail  string   `json:"detail"`
}

// nativeReplay runs the cases against the real compiled code of package pkg.
func nativeReplay(files []*harnessFile, pkg string, entries []string, cases []replayCase, scratch string) ([]replayOutcome, string, error) {
	if err := os.MkdirAll(scratch, 0755); err != nil {
		return nil, "", err
	}
	rel := strings.TrimPrefix(strings.TrimPrefix(pkg, "mosn.io/mosn"), "/")
	pkgName := ""
	replace := map[string]string{}
	for _, f := range files {
		if f.pkg == pkg {
			replace[f.overlay] = f.path
			if m := regexp.MustCompile(`(?m)^package\s+(\w+)`).FindStringSubmatch(f.src); m != nil {
				pkgName = m[1]
			}
		}
	}
	replace[filepath.Join(repoDir, "pkg/zzverif/verif/verif.go")] = filepath.Join(verifDir, "support/verif/verif.go")
	var sb strings.Builder
	fmt.Fprintf(&sb, "package %s\n\nimport (\n\t\"testing\"\n\t\"%s\"\n)\n\nfunc TestVerifReplay(t *testing.T) {\n\tverif.RunReplay(map[string]func(){\n", pkgName, verifPkgPath)
	for _, e := range entries {
		fmt.Fprintf(&sb, "\t\t%q: %s,\n", e, e)
	}
	sb.WriteString("\t})\n}\n")
	testFile := filepath.Join(scratch, "zz_verif_replay_test.go")
	if err := os.WriteFile(testFile, []byte(sb.String()), 0644); err != nil {
		return nil, "", err
	}
	replace[filepath.Join(repoDir, rel, "zz_verif_replay_test.go")] = testFile
	ov, _ := json.Marshal(map[string]interface{}{"Replace": replace})
	ovFile := filepath.Join(scratch, "overlay.json")
	os.WriteFile(ovFile, ov, 0644)
	casesFile := filepath.Join(scratch, "cases.json")
	cb, _ := json.Marshal(cases)
	os.WriteFile(casesFile, cb, 0644)
	outFile := filepath.Join(scratch, "out.json")
	os.Remove(outFile)
	bin := filepath.Join(scratch, "replay.test")
	cmd := exec.Command("go", "test", "-c", "-tags", "verif", "-vet=off", "-overlay", ovFile, "-o", bin, pkg)
	cmd.Dir = repoDir
	cmd.Env = goEnv()
	out, err := cmd.CombinedOutput()
	if err != nil {
		return nil, string(out), fmt.Errorf("native replay build failed: %v", err)
	}
	cmd = exec.Command(bin, "-test.run", "^TestVerifReplay$", "-test.timeout", "300s")
	cmd.Dir = scratch
	if st, e2 := os.Stat(filepath.Join(repoDir, rel)); e2 == nil && st.IsDir() {
		cmd.Dir = filepath.Join(repoDir, rel)
	}
	cmd.Env = append(goEnv(), "VERIF_REPLAY="+casesFile, "VERIF_REPLAY_OUT="+outFile)
	out, err = cmd.CombinedOutput()
	ob, rerr := os.ReadFile(outFile)
	if rerr != nil {
		return nil, string(out), fmt.Errorf("native replay produced no output (%v)", err)
	}
	var outs []replayOutcome
	if err := json.Unmarshal(ob, &outs); err != nil {
		return nil, string(out), err
	}
	return outs, string(out), nil
}

func main() {
	// a background sweep runs from a snapshot of /verif (vp run): harnesses, evidence and
	// replay files are then read from / written to that snapshot; /repo is always the tree checked
	if d := os.Getenv("VCHECK_VERIF_DIR"); d != "" {
		verifDir = d
		outDir = d
	}
	// experiments against another checkout (a seeded change in a scratch worktree):
	// the registered commands never set these
	if d := os.Getenv("VCHECK_REPO_DIR"); d != "" {
		repoDir = d
	}
	if d := os.Getenv("VCHECK_OUT_DIR"); d != "" {
		outDir = d
	}
	tier := flag.String("tier", "", "quick or thorough")
	only := flag.String("only", "", "run only harnesses whose name contains this")
	workers := flag.Int("workers", 16, "parallel workers")
	trace := flag.Bool("trace", false, "trace instructions (single worker)")
	replay := flag.String("replay", "", "replay a stored counterexample")
	solver := flag.String("solver", "z3", "z3 | z3-new | cvc5")
	maxPaths := flag.Int("maxpaths", 0, "stop after this many paths per harness (run is then inconclusive)")
	noNative := flag.Bool("no-native", false, "skip native validation of sample paths")
	paramFlag := flag.String("param", "", "k=v,k=v overrides for verif.Param")
	verbose := flag.Bool("v", false, "verbose")
	timeout := flag.Int("timeout", 0, "per-query timeout ms")
	// allow "vcheck ID --tier x": move first non-flag arg
	args := os.Args[1:]
	id := ""
	if len(args) > 0 && !strings.HasPrefix(args[0], "-") {
		id = args[0]
		args = args[1:]
	}
	flag.CommandLine.Parse(args)
	if id == "" && flag.NArg() > 0 {
		id = flag.Arg(0)
	}
	if t := os.Getenv("VERIF_TIER"); t != "" && *tier == "" {
		*tier = t
	}
	if *tier == "" {
		*tier = "quick"
	}
	seed := int64(0)
	if s := os.Getenv("VERIF_SEED"); s != "" {
		seed, _ = strconv.ParseInt(s, 10, 64)
	}
	if id == "" {
		fmt.Fprintln(os.Stderr, "usage: vcheck <ID> --tier quick|thorough | vcheck <ID> --replay file")
		os.Exit(2)
	}
	params := map[string]int{}
	if *paramFlag != "" {
		for _, kv := range strings.Split(*paramFlag, ",") {
			p := strings.SplitN(kv, "=", 2)
			if len(p) == 2 {
				n, _ := strconv.Atoi(p[1])
				params[p[0]] = n
			}
		}
	}
	code := run(id, *tier, *only, *workers, *trace, *replay, *solver, *maxPaths, *noNative, params, seed, *verbose, *timeout)
	os.Exit(code)
}

type harnessReport struct {
	Name       string         `json:"harness"`
	Package    string         `json:"package"`
	Paths      int            `json:"paths"`
	Outcomes   map[string]int `json:"outcomes"`
	Queries    int            `json:"queries"`
	SolverS    float64        `json:"solver_s"`
	WallS      float64        `json:"wall_s"`
	MaxPathLen int            `json:"max_path_len"`
	Covers     map[string]int `json:"cover_labels"`
	Violations int            `json:"violations"`
	Problems   []string       `json:"problems,omitempty"`
}

func run(id, tier, only string, workers int, trace bool, replayFile, solver string, maxPaths int, noNative bool, params map[string]int, seed int64, verbose bool, timeoutMs int) int {
	t0 := time.Now()
	tierN := 0
	if tier == "thorough" {
		tierN = 1
	}
	files, err := scanHarnessFiles()
	if err != nil {
		fmt.Fprintln(os.Stderr, err)
		return 2
	}
	// which packages hold harnesses of this property?
	entryRe := regexp.MustCompile(`(?m)^func (Verif` + regexp.QuoteMeta(id) + `_\w+)\(\)`)
	pkgSet := map[string]bool{}
	for _, f := range files {
		if entryRe.MatchString(f.src) {
			pkgSet[f.pkg] = true
		}
	}
	if len(pkgSet) == 0 {
		fmt.Fprintf(os.Stderr, "no harness for property %s\n", id)
		return 2
	}
	var pkgPaths []string
	for p := range pkgSet {
		pkgPaths = append(pkgPaths, p)
	}
	sort.Strings(pkgPaths)
	var useFiles []*harnessFile
	for _, f := range files {
		if pkgSet[f.pkg] {
			useFiles = append(useFiles, f)
		}
	}
	scratch := filepath.Join(outDir, ".scratch", fmt.Sprintf("%s-%d", id, os.Getpid()))
	defer os.RemoveAll(scratch)
	useFiles, err = expandGenerated(useFiles, filepath.Join(scratch, "gen"))
	if err != nil {
		fmt.Fprintln(os.Stderr, err)
		return 2
	}

	if replayFile != "" {
		return doReplay(id, replayFile, useFiles, scratch)
	}

	tl := time.Now()
	ld, err := load(useFiles, pkgPaths)
	if err != nil {
		fmt.Fprintln(os.Stderr, "load failed:", err)
		return 2
	}
	loadS := time.Since(tl).Seconds()
	if verbose {
		fmt.Fprintf(os.Stderr, "loaded in %.1fs\n", loadS)
	}
	if timeoutMs == 0 {
		timeoutMs = 60000
		if tierN == 1 {
			timeoutMs = 300000
		}
	}
	cfg := &interp.Config{Prog: ld.prog, Tier: tierN, SolverKind: solver, TimeoutMs: timeoutMs, MaxInstrs: 3_000_000, MaxDepth: 4000,
		StubPkgs: map[string]bool{"mosn.io/mosn/pkg/log": true, "mosn.io/pkg/log": true, "mosn.io/api/extensions/transport/http/fasthttp": false},
		Params: params, Trace: trace, EagerInit: append([]string{"mosn.io/mosn/pkg/types", "mosn.io/mosn/pkg/variable", "mosn.io/mosn/pkg/protocol"}, extraInit(useFiles)...)}
	if trace {
		workers = 1
	}
	known := loadKnown()

	type entryT struct {
		pkg string
		fn  *ssa.Function
	}
	var entries []entryT
	for _, pp := range pkgPaths {
		sp := ld.pkgs[pp]
		if sp == nil {
			fmt.Fprintln(os.Stderr, "package not built:", pp)
			return 2
		}
		var names []string
		for n, m := range sp.Members {
			if _, ok := m.(*ssa.Function); ok && strings.HasPrefix(n, "Verif"+id+"_") {
				names = append(names, n)
			}
		}
		sort.Strings(names)
		for _, n := range names {
			if tierN == 0 && strings.HasSuffix(n, "_T") {
				continue
			}
			if only != "" && !strings.Contains(n, only) {
				continue
			}
			entries = append(entries, entryT{pp, sp.Func(n)})
		}
	}
	if len(entries) == 0 {
		fmt.Fprintf(os.Stderr, "no harness entry selected for %s\n", id)
		return 2
	}

	var reports []harnessReport
	var allViol []*interp.Violation
	violPkg := map[*interp.Violation]string{}
	totalPaths, totalQueries, distinct := 0, 0, 0
	solverS := 0.0
	var samples []map[string]interface{}
	funcs := map[string]bool{}
	stubs := map[string]bool{}
	inconclusive := []string{}
	maxLen := 0
	okSamples := map[string][]replayCase{} // pkg -> cases
	entriesByPkg := map[string][]string{}
	assumes := 0
	for _, en := range entries {
		entriesByPkg[en.pkg] = append(entriesByPkg[en.pkg], en.fn.Name())
		sum, err := interp.Explore(cfg, en.fn, interp.ExploreOpts{Workers: workers, MaxPaths: maxPaths, Seed: seed, MaxViolSite: 8, Samples: 4})
		if err != nil {
			fmt.Fprintln(os.Stderr, "explore:", err)
			return 2
		}
		rep := harnessReport{Name: en.fn.Name(), Package: en.pkg, Paths: sum.Paths, Outcomes: sum.Outcomes, Queries: sum.Queries,
			SolverS: sum.SolverSec, WallS: sum.WallSec, MaxPathLen: sum.MaxPathLen, Covers: sum.Covers, Violations: len(sum.Violations)}
		// problems that make the run inconclusive
		for _, k := range []string{"fuel", "unsupported", "depth", "bound", "unknown", "engine-error", "deadlock", "exit"} {
			if n := sum.Outcomes[k]; n > 0 {
				rep.Problems = append(rep.Problems, fmt.Sprintf("%d path(s) ended with %s", n, k))
			}
		}
		if sum.Truncated {
			rep.Problems = append(rep.Problems, "exploration truncated")
		}
		if sum.SolverErrors > 0 {
			rep.Problems = append(rep.Problems, fmt.Sprintf("%d solver error lines", sum.SolverErrors))
		}
		want := map[string]bool{}
		coverLabels(en.fn, map[*ssa.Function]bool{}, want)
		for l := range want {
			if sum.Covers[l] == 0 {
				rep.Problems = append(rep.Problems, "vacuous: cover label never reached: "+l)
			}
		}
		if len(want) == 0 {
			rep.Problems = append(rep.Problems, "harness has no verif.Cover label")
		}
		for d, n := range sum.Details {
			if verbose || true {
				fmt.Fprintf(os.Stderr, "  [%s] %dx %s\n", en.fn.Name(), n, d)
			}
		}
		for _, p := range rep.Problems {
			inconclusive = append(inconclusive, en.fn.Name()+": "+p)
		}
		fmt.Fprintf(os.Stderr, "%s: %d paths %v, %d queries, %.1fs solver, %.1fs wall, %d violations\n", en.fn.Name(), sum.Paths, sum.Outcomes, sum.Queries, sum.SolverSec, sum.WallSec, len(sum.Violations))
		reports = append(reports, rep)
		totalPaths += sum.Paths
		totalQueries += sum.Queries
		distinct += sum.Distinct
		solverS += sum.SolverSec
		assumes += sum.Assumes
		if sum.MaxPathLen > maxLen {
			maxLen = sum.MaxPathLen
		}
		for _, s := range sum.Samples {
			if len(samples) < 12 {
				samples = append(samples, s)
			}
			if w, ok := s["witness"].(map[string]uint64); ok {
				okSamples[en.pkg] = append(okSamples[en.pkg], replayCase{Model: w, Harness: en.fn.Name(), Tier: tierN, Params: params, Tag: fmt.Sprintf("sample-%d", len(okSamples[en.pkg]))})
			}
		}
		for f := range sum.Funcs {
			funcs[f] = true
		}
		for st := range sum.Stubs {
			if strings.HasPrefix(st, "incomplete-init:") && !stubs[st] {
				fmt.Fprintf(os.Stderr, "  note: %s\n", st)
			}
		}
		for s := range sum.Stubs {
			stubs[s] = true
		}
		for _, v := range sum.Violations {
			allViol = append(allViol, v)
			violPkg[v] = en.pkg
		}
	}

	// ---- native validation: replay violations and sample ok-paths against the real build
	validated := 0
	mismatches := []string{}
	type verdict struct {
		v      *interp.Violation
		file   string
		status string // reproduced | not-reproduced
	}
	var verdicts []verdict
	engineOnlyViol, engineOnlySamples := 0, 0
	nativeRetries := 0
	siteRepro := map[string]bool{}
	siteMiss := map[string][]string{}
	if len(allViol) > 0 || !noNative {
		byPkg := map[string][]replayCase{}
		idx := map[string]*interp.Violation{}
		for i, v := range allViol {
			tag := fmt.Sprintf("viol-%d", i)
			idx[tag] = v
			byPkg[violPkg[v]] = append(byPkg[violPkg[v]], replayCase{Model: v.Model, Harness: v.Harness, Tier: tierN, Params: params, Tag: tag})
		}
		if !noNative {
			for p, cs := range okSamples {
				byPkg[p] = append(byPkg[p], cs...)
			}
		}
		for p, cs := range byPkg {
			outs, log, err := nativeReplay(useFiles, p, entriesByPkg[p], cs, filepath.Join(scratch, strings.ReplaceAll(p, "/", "_")))
			if err != nil {
				fmt.Fprintf(os.Stderr, "native replay failed for %s: %v\n%s\n", p, err, tail(log, 40))
				inconclusive = append(inconclusive, "native replay failed for "+p)
				continue
			}
			for _, o := range outs {
				if o.Result == "not-run" {
					// an earlier case of this batch did not return natively (verif.MustFinish):
					// the process had to exit; this case says nothing either way
					if v, ok := idx[o.Tag]; ok {
						verdicts = append(verdicts, verdict{v: v, status: "not-reproduced"})
					}
					continue
				}
				if v, ok := idx[o.Tag]; ok {
					st := "not-reproduced"
					if o.Result == "engine-only" {
						// the native run reached a point that needs an environment only the
						// engine stubs (stated in the harness): nothing to contradict the engine
						st = "reproduced"
						engineOnlyViol++
					}
					if strings.HasPrefix(v.Msg, "engine:") && (o.Result == "passed" || o.Result == "violated") {
						// observation that only the engine can make (stale-capacity read,
						// input-dependent allocation size): the native run followed the
						// same inputs without diverging, which is all it can confirm.
						st = "reproduced"
					}
					if o.Result == "violated" {
						for _, f := range o.Failed {
							if f == v.Msg || (strings.HasPrefix(v.Msg, "no-panic") && strings.HasPrefix(f, "no-panic")) {
								st = "reproduced"
							}
						}
					}
					if st == "reproduced" {
						validated++
					}
					verdicts = append(verdicts, verdict{v: v, status: st})
					site := v.Harness + "|" + v.Msg
					if st == "reproduced" {
						siteRepro[site] = true
					} else {
						siteMiss[site] = append(siteMiss[site], fmt.Sprintf("%s: %q -> native %s %v %s", v.Harness, v.Msg, o.Result, o.Failed, o.Detail))
						if os.Getenv("VCHECK_KEEP_MISMATCH") != "" {
							b, _ := json.MarshalIndent(map[string]interface{}{"harness": v.Harness, "assertion": v.Msg, "model": v.Model, "choices": v.Choices, "notes": v.Notes, "tier": tierN, "params": params, "package": violPkg[v]}, "", " ")
							os.WriteFile(fmt.Sprintf("/tmp/mismatch-%s-%d.json", v.Harness, len(siteMiss[site])), b, 0644)
						}
					}
				} else {
					// sample of a passing path must pass natively too
					if o.Result == "passed" {
						validated++
					} else if o.Result == "engine-only" {
						engineOnlySamples++
					} else {
						// harnesses that let goroutines settle by sleeping can miss their window on a
						// loaded machine: such a case is run once more, alone, before it counts
						var again []replayCase
						for _, c := range cs {
							if c.Tag == o.Tag && c.Harness == o.Harness {
								again = append(again, c)
							}
						}
						retried := false
						if len(again) == 1 {
							if outs2, _, err2 := nativeReplay(useFiles, p, entriesByPkg[p], again, filepath.Join(scratch, strings.ReplaceAll(p, "/", "_")+"_retry")); err2 == nil && len(outs2) == 1 && outs2[0].Result == "passed" {
								retried = true
								validated++
								nativeRetries++
							}
						}
						if !retried {
							mismatches = append(mismatches, fmt.Sprintf("%s: passing path sample -> native %s %v %s", o.Harness, o.Result, o.Failed, o.Detail))
						}
					}
				}
			}
		}
	}

	// a site whose violation reproduced at least once is a violation; the
	// non-reproducing siblings differ only in choices the native run cannot
	// force (map iteration order, schedules)
	for site, ms := range siteMiss {
		if !siteRepro[site] {
			mismatches = append(mismatches, ms...)
		}
	}
	// ---- classify
	exit := 0
	nViol := 0
	printedKnown := map[string]bool{}
	os.RemoveAll(filepath.Join(outDir, "replay", id))
	os.MkdirAll(filepath.Join(outDir, "replay", id), 0755)
	for _, vd := range verdicts {
		if vd.status != "reproduced" {
			continue
		}
		if kf := known.match(id, vd.v); kf != nil {
			if !printedKnown[kf.ID] {
				printedKnown[kf.ID] = true
				fmt.Printf("KNOWN-FINDING: property=%s %s (%s)\n", id, kf.What, kf.ID)
			}
			continue
		}
		nViol++
		if nViol <= 5 {
			h := fmt.Sprintf("%s-%08x", vd.v.Harness, hashStr(fmt.Sprint(vd.v.Msg, vd.v.Choices)))
			path := filepath.Join(outDir, "replay", id, h+".json")
			b, _ := json.MarshalIndent(map[string]interface{}{"property": id, "harness": vd.v.Harness, "assertion": vd.v.Msg, "where": vd.v.Where,
				"model": vd.v.Model, "choices": vd.v.Choices, "notes": vd.v.Notes, "tier": tierN, "params": params, "package": violPkg[vd.v]}, "", " ")
			os.WriteFile(path, b, 0644)
			fmt.Printf("VIOLATION property=%s replay=%s\n", id, path)
			fmt.Printf("  assertion: %s (at %s)\n", vd.v.Msg, vd.v.Where)
		}
		exit = 1
	}
	if len(mismatches) > 0 {
		for _, m := range mismatches {
			fmt.Fprintln(os.Stderr, "ENGINE-MISMATCH:", m)
		}
		if exit == 0 {
			exit = 3
		}
	}
	if len(inconclusive) > 0 {
		for _, m := range inconclusive {
			fmt.Fprintln(os.Stderr, "INCONCLUSIVE:", m)
		}
		if exit == 0 {
			exit = 2
		}
	}

	// ---- evidence
	var fl []string
	for f := range funcs {
		if !strings.Contains(f, "zzverif") {
			fl = append(fl, f)
		}
	}
	sort.Strings(fl)
	var sl []string
	for s := range stubs {
		sl = append(sl, s)
	}
	sort.Strings(sl)
	if len(samples) == 0 {
		samples = append(samples, map[string]interface{}{"note": "no symbolic-branch path sample collected"})
	}
	meta := loadMeta(id)
	ev := map[string]interface{}{
		"property_id": id,
		"tier":        tier,
		"seed":        seed,
		"level":       "model_checking",
		"wall_s":      time.Since(t0).Seconds(),
		"violations":  nViol,
		"assumptions": meta.Assumptions,
		"coverage": map[string]interface{}{
			"states":                        totalPaths,
			"transitions":                   totalQueries,
			"traces_validated_against_impl": validated,
			"samples":                       samples,
			"evaluations":                   totalPaths,
			"distinct_nontrivial":           distinct,
			"rule":                          "one case = one feasible path of the real SSA code under a symbolic harness (a set of inputs, not one input); distinct = distinct decision vectors; non-trivial = at least one solver-decided branch on the path",
			"exhaustive":                    len(inconclusive) == 0,
			"explanation":                   "bounded symbolic execution of go/ssa built from /repo's working tree; every branch and assertion decided by " + solver + " over bit-vector terms; unsat of (path condition AND NOT assertion) on every feasible path within the stated bounds",
			"functions_encoded":             fl,
			"functions_encoded_count":       len(fl),
			"bounds":                        meta.Bounds[tier],
			"not_decided":                   meta.NotDecided,
			"stubs":                         sl,
			"queries":                       totalQueries,
			"solver_s":                      solverS,
			"solver":                        solver,
			"load_s":                        loadS,
			"max_path_len":                  maxLen,
			"assume_calls":                  assumes,
			"harnesses":                     reports,
			"inconclusive":                  inconclusive,
			"engine_mismatches":             mismatches,
			"engine_only_samples":           engineOnlySamples,
			"native_samples_passed_on_solo_retry": nativeRetries,
			"engine_only_violations":        engineOnlyViol,
			"known_findings_hit":            keys(printedKnown),
		},
	}
	os.MkdirAll(filepath.Join(outDir, "evidence"), 0755)
	eb, _ := json.MarshalIndent(ev, "", " ")
	os.WriteFile(filepath.Join(outDir, "evidence", id+".json"), eb, 0644)
	fmt.Fprintf(os.Stderr, "%s %s: exit %d, %d paths, %d queries, %.1fs\n", id, tier, exit, totalPaths, totalQueries, time.Since(t0).Seconds())
	return exit
}

type propMeta struct {
	Assumptions []string            `json:"assumptions"`
	Bounds      map[string][]string `json:"bounds"`
	NotDecided  []string            `json:"not_decided"`
}

func loadMeta(id string) propMeta {
	var all map[string]propMeta
	b, err := os.ReadFile(filepath.Join(verifDir, "harness", "meta.json"))
	if err == nil {
		json.Unmarshal(b, &all)
	}
	m := all[id]
	if m.Assumptions == nil {
		m.Assumptions = []string{}
	}
	return m
}

func keys(m map[string]bool) []string {
	out := []string{}
	for k := range m {
		out = append(out, k)
	}
	sort.Strings(out)
	return out
}

func hashStr(s string) uint32 {
	var h uint32 = 2166136261
	for i := 0; i < len(s); i++ {
		h ^= uint32(s[i])
		h *= 16777619
	}
	return h
}

func tail(s string, n int) string {
	lines := strings.Split(s, "\n")
	if len(lines) > n {
		lines = lines[len(lines)-n:]
	}
	return strings.Join(lines, "\n")
}

func doReplay(id, file string, files []*harnessFile, scratch string) int {
	b, err := os.ReadFile(file)
	if err != nil {
		fmt.Fprintln(os.Stderr, err)
		return 2
	}
	var r struct {
		Harness string            `json:"harness"`
		Msg     string            `json:"assertion"`
		Model   map[string]uint64 `json:"model"`
		Tier    int               `json:"tier"`
		Params  map[string]int    `json:"params"`
		Package string            `json:"package"`
	}
	if err := json.Unmarshal(b, &r); err != nil {
		fmt.Fprintln(os.Stderr, err)
		return 2
	}
	outs, log, err := nativeReplay(files, r.Package, []string{r.Harness}, []replayCase{{Model: r.Model, Harness: r.Harness, Tier: r.Tier, Params: r.Params, Tag: "replay"}}, scratch)
	if err != nil {
		fmt.Fprintln(os.Stderr, err, "\n", tail(log, 40))
		return 2
	}
	for _, o := range outs {
		fmt.Printf("replay %s: %s %v %s\n", o.Harness, o.Result, o.Failed, o.Detail)
		if o.Result == "violated" {
			fmt.Printf("VIOLATION property=%s replay=%s\n", id, file)
			return 1
		}
	}
	return 0
}

// extraInit collects "//verif:init <pkg> ..." directives: packages whose
// initialisers (registries) must have run before the harness starts.
func extraInit(files []*harnessFile) []string {
	var out []string
	re := regexp.MustCompile(`(?m)^//verif:init\s+(.+)$`)
	for _, f := range files {
		for _, m := range re.FindAllStringSubmatch(f.src, -1) {
			out = append(out, strings.Fields(m[1])...)
		}
	}
	return out
}

// Package sym implements a hash-consed term DAG over SMT-LIB2 bit-vectors and
// booleans, with constructor-time simplification, a concrete evaluator and an
// SMT-LIB2 printer. Widths are 1..64 bits; W==0 means Bool.
package sym

import (
	"fmt"
	"strings"
)

type Kind uint8

const (
	KConst Kind = iota
	KVar
	KNot
	KAnd
	KOr
	KIte
	KEq
	KAdd
	KSub
	KMul
	KUDiv
	KURem
	KSDiv
	KSRem
	KBAnd
	KBOr
	KBXor
	KBNot
	KNeg
	KShl
	KLShr
	KAShr
	KUlt
	KUle
	KSlt
	KSle
	KZext    // V = result width
	KSext    // V = result width
	KExtract // V = hi<<8 | lo
	KConcat
	KUF // uninterpreted function application: Name, args; W result width
)

var kindOp = map[Kind]string{
	KNot: "not", KAnd: "and", KOr: "or", KIte: "ite", KEq: "=",
	KAdd: "bvadd", KSub: "bvsub", KMul: "bvmul", KUDiv: "bvudiv", KURem: "bvurem",
	KSDiv: "bvsdiv", KSRem: "bvsrem", KBAnd: "bvand", KBOr: "bvor", KBXor: "bvxor",
	KBNot: "bvnot", KNeg: "bvneg", KShl: "bvshl", KLShr: "bvlshr", KAShr: "bvashr",
	KUlt: "bvult", KUle: "bvule", KSlt: "bvslt", KSle: "bvsle", KConcat: "concat",
}

// Term is an immutable hash-consed node.
type Term struct {
	ID   int
	K    Kind
	W    int // 0 = Bool
	A    [3]*Term
	N    int // number of args used
	V    uint64
	Name string
}

type key struct {
	k       Kind
	w       int
	v       uint64
	a, b, c int
	name    string
}

// Store owns terms. Not safe for concurrent use: one Store per worker.
type Store struct {
	tab    map[key]*Term
	all    []*Term
	True   *Term
	False  *Term
	UFs    map[string][]int // name -> arg widths + result width
	nextID int
}

func NewStore() *Store {
	s := &Store{tab: map[key]*Term{}, UFs: map[string][]int{}}
	s.False = s.mk(KConst, 0, 0, "", nil, nil, nil)
	s.True = s.mk(KConst, 0, 1, "", nil, nil, nil)
	return s
}

func id(t *Term) int {
	if t == nil {
		return -1
	}
	return t.ID
}

func (s *Store) mk(k Kind, w int, v uint64, name string, a, b, c *Term) *Term {
	ky := key{k, w, v, id(a), id(b), id(c), name}
	if t, ok := s.tab[ky]; ok {
		return t
	}
	t := &Term{ID: s.nextID, K: k, W: w, V: v, Name: name}
	s.nextID++
	t.A = [3]*Term{a, b, c}
	switch {
	case c != nil:
		t.N = 3
	case b != nil:
		t.N = 2
	case a != nil:
		t.N = 1
	}
	s.tab[ky] = t
	s.all = append(s.all, t)
	return t
}

func (s *Store) NumTerms() int { return len(s.all) }

func mask(w int) uint64 {
	if w >= 64 {
		return ^uint64(0)
	}
	return (uint64(1) << uint(w)) - 1
}

func (t *Term) IsConst() bool { return t.K == KConst }
func (t *Term) IsBool() bool  { return t.W == 0 }
func (t *Term) IsTrue() bool  { return t.K == KConst && t.W == 0 && t.V == 1 }
func (t *Term) IsFalse() bool { return t.K == KConst && t.W == 0 && t.V == 0 }

// SignedVal returns the constant as sign-extended int64.
func (t *Term) SignedVal() int64 {
	if t.W >= 64 {
		return int64(t.V)
	}
	sh := uint(64 - t.W)
	return int64(t.V<<sh) >> sh
}

func (s *Store) Const(w int, v uint64) *Term {
	if w == 0 {
		if v != 0 {
			return s.True
		}
		return s.False
	}
	return s.mk(KConst, w, v&mask(w), "", nil, nil, nil)
}

func (s *Store) Bool(b bool) *Term {
	if b {
		return s.True
	}
	return s.False
}

func (s *Store) Var(name string, w int) *Term {
	return s.mk(KVar, w, 0, name, nil, nil, nil)
}

// ---- boolean ----

func (s *Store) Not(a *Term) *Term {
	if a.W != 0 {
		panic("Not on non-bool")
	}
	if a.K == KConst {
		return s.Bool(a.V == 0)
	}
	if a.K == KNot {
		return a.A[0]
	}
	return s.mk(KNot, 0, 0, "", a, nil, nil)
}

func (s *Store) And(a, b *Term) *Term {
	if a.IsFalse() || b.IsFalse() {
		return s.False
	}
	if a.IsTrue() {
		return b
	}
	if b.IsTrue() {
		return a
	}
	if a == b {
		return a
	}
	if (a.K == KNot && a.A[0] == b) || (b.K == KNot && b.A[0] == a) {
		return s.False
	}
	if a.ID > b.ID {
		a, b = b, a
	}
	return s.mk(KAnd, 0, 0, "", a, b, nil)
}

func (s *Store) Or(a, b *Term) *Term {
	if a.IsTrue() || b.IsTrue() {
		return s.True
	}
	if a.IsFalse() {
		return b
	}
	if b.IsFalse() {
		return a
	}
	if a == b {
		return a
	}
	if (a.K == KNot && a.A[0] == b) || (b.K == KNot && b.A[0] == a) {
		return s.True
	}
	if a.ID > b.ID {
		a, b = b, a
	}
	return s.mk(KOr, 0, 0, "", a, b, nil)
}

func (s *Store) AndAll(ts ...*Term) *Term {
	r := s.True
	for _, t := range ts {
		r = s.And(r, t)
	}
	return r
}

func (s *Store) OrAll(ts ...*Term) *Term {
	r := s.False
	for _, t := range ts {
		r = s.Or(r, t)
	}
	return r
}

func (s *Store) Implies(a, b *Term) *Term { return s.Or(s.Not(a), b) }

func (s *Store) Ite(c, a, b *Term) *Term {
	if c.W != 0 {
		panic("Ite cond non-bool")
	}
	if a.W != b.W {
		panic(fmt.Sprintf("Ite width mismatch %d %d", a.W, b.W))
	}
	if c.IsTrue() {
		return a
	}
	if c.IsFalse() {
		return b
	}
	if a == b {
		return a
	}
	if a.W == 0 {
		if a.IsTrue() && b.IsFalse() {
			return c
		}
		if a.IsFalse() && b.IsTrue() {
			return s.Not(c)
		}
		if a.IsTrue() {
			return s.Or(c, b)
		}
		if a.IsFalse() {
			return s.And(s.Not(c), b)
		}
		if b.IsTrue() {
			return s.Or(s.Not(c), a)
		}
		if b.IsFalse() {
			return s.And(c, a)
		}
	}
	if c.K == KNot {
		return s.Ite(c.A[0], b, a)
	}
	return s.mk(KIte, a.W, 0, "", c, a, b)
}

func (s *Store) Eq(a, b *Term) *Term {
	if a.W != b.W {
		panic(fmt.Sprintf("Eq width mismatch %d %d", a.W, b.W))
	}
	if a == b {
		return s.True
	}
	if a.K == KConst && b.K == KConst {
		return s.Bool(a.V == b.V)
	}
	if a.W == 0 {
		if a.K == KConst {
			a, b = b, a
		}
		if b.IsTrue() {
			return a
		}
		if b.IsFalse() {
			return s.Not(a)
		}
	}
	// zext(x) == const: reduce width
	if b.K == KConst && a.K == KZext {
		in := a.A[0]
		if b.V&^mask(in.W) != 0 {
			return s.False
		}
		return s.Eq(in, s.Const(in.W, b.V))
	}
	if a.K == KConst && b.K == KZext {
		return s.Eq(b, a)
	}
	if a.K == KZext && b.K == KZext && a.A[0].W == b.A[0].W {
		return s.Eq(a.A[0], b.A[0])
	}
	// ite(c, k1, k2) == k  with constants
	if b.K == KConst && a.K == KIte && a.A[1].K == KConst && a.A[2].K == KConst {
		return s.Ite(a.A[0], s.Eq(a.A[1], b), s.Eq(a.A[2], b))
	}
	if a.K == KConst && b.K == KIte && b.A[1].K == KConst && b.A[2].K == KConst {
		return s.Eq(b, a)
	}
	if a.ID > b.ID {
		a, b = b, a
	}
	return s.mk(KEq, 0, 0, "", a, b, nil)
}

// ---- bit-vector arithmetic ----

func (s *Store) bin(k Kind, a, b *Term) *Term {
	if a.W != b.W || a.W == 0 {
		panic(fmt.Sprintf("bin %v width mismatch %d %d", kindOp[k], a.W, b.W))
	}
	return s.mk(k, a.W, 0, "", a, b, nil)
}

func (s *Store) Add(a, b *Term) *Term {
	if a.K == KConst && b.K == KConst {
		return s.Const(a.W, a.V+b.V)
	}
	if a.K == KConst {
		a, b = b, a
	}
	if b.K == KConst {
		if b.V == 0 {
			return a
		}
		// (x + c1) + c2
		if a.K == KAdd && a.A[1].K == KConst {
			return s.Add(a.A[0], s.Const(a.W, a.A[1].V+b.V))
		}
		if a.K == KSub && a.A[1].K == KConst {
			return s.Add(a.A[0], s.Const(a.W, b.V-a.A[1].V))
		}
		return s.bin(KAdd, a, b)
	}
	if a.ID > b.ID {
		a, b = b, a
	}
	return s.bin(KAdd, a, b)
}

func (s *Store) Sub(a, b *Term) *Term {
	if a.K == KConst && b.K == KConst {
		return s.Const(a.W, a.V-b.V)
	}
	if a == b {
		return s.Const(a.W, 0)
	}
	if b.K == KConst {
		return s.Add(a, s.Const(a.W, -b.V))
	}
	// (x + y) - x  = y
	if a.K == KAdd {
		if a.A[0] == b {
			return a.A[1]
		}
		if a.A[1] == b {
			return a.A[0]
		}
	}
	return s.bin(KSub, a, b)
}

func (s *Store) Mul(a, b *Term) *Term {
	if a.K == KConst && b.K == KConst {
		return s.Const(a.W, a.V*b.V)
	}
	if a.K == KConst {
		a, b = b, a
	}
	if b.K == KConst {
		if b.V == 0 {
			return b
		}
		if b.V == 1 {
			return a
		}
		// power of two -> shift
		if b.V&(b.V-1) == 0 {
			n := 0
			for v := b.V; v > 1; v >>= 1 {
				n++
			}
			return s.Shl(a, s.Const(a.W, uint64(n)))
		}
		return s.bin(KMul, a, b)
	}
	if a.ID > b.ID {
		a, b = b, a
	}
	return s.bin(KMul, a, b)
}

// UDiv: SMT-LIB semantics (x/0 = all ones); callers fork on zero before.
func (s *Store) UDiv(a, b *Term) *Term {
	if a.K == KConst && b.K == KConst && b.V != 0 {
		return s.Const(a.W, a.V/b.V)
	}
	if b.K == KConst && b.V == 1 {
		return a
	}
	if b.K == KConst && b.V != 0 && b.V&(b.V-1) == 0 {
		n := 0
		for v := b.V; v > 1; v >>= 1 {
			n++
		}
		return s.LShr(a, s.Const(a.W, uint64(n)))
	}
	return s.bin(KUDiv, a, b)
}

func (s *Store) URem(a, b *Term) *Term {
	if a.K == KConst && b.K == KConst && b.V != 0 {
		return s.Const(a.W, a.V%b.V)
	}
	if b.K == KConst && b.V == 1 {
		return s.Const(a.W, 0)
	}
	if b.K == KConst && b.V != 0 && b.V&(b.V-1) == 0 {
		return s.BAnd(a, s.Const(a.W, b.V-1))
	}
	return s.bin(KURem, a, b)
}

func (s *Store) SDiv(a, b *Term) *Term {
	if a.K == KConst && b.K == KConst && b.V != 0 {
		x, y := a.SignedVal(), b.SignedVal()
		if y == -1 {
			return s.Const(a.W, uint64(-x))
		}
		return s.Const(a.W, uint64(x/y))
	}
	if b.K == KConst && b.V == 1 {
		return a
	}
	return s.bin(KSDiv, a, b)
}

func (s *Store) SRem(a, b *Term) *Term {
	if a.K == KConst && b.K == KConst && b.V != 0 {
		x, y := a.SignedVal(), b.SignedVal()
		if y == -1 {
			return s.Const(a.W, 0)
		}
		return s.Const(a.W, uint64(x%y))
	}
	return s.bin(KSRem, a, b)
}

func (s *Store) BAnd(a, b *Term) *Term {
	if a.K == KConst && b.K == KConst {
		return s.Const(a.W, a.V&b.V)
	}
	if a.K == KConst {
		a, b = b, a
	}
	if b.K == KConst {
		if b.V == 0 {
			return b
		}
		if b.V == mask(a.W) {
			return a
		}
		// zext(x) & m where m covers x's width fully
		if a.K == KZext && b.V&mask(a.A[0].W) == mask(a.A[0].W) {
			return a
		}
		// (x & c1) & c2
		if a.K == KBAnd && a.A[1].K == KConst {
			return s.BAnd(a.A[0], s.Const(a.W, a.A[1].V&b.V))
		}
		// low mask 2^k-1 : zext(extract(k-1,0,x))
		if b.V&(b.V+1) == 0 {
			k := 0
			for v := b.V; v != 0; v >>= 1 {
				k++
			}
			return s.Zext(s.Extract(a, k-1, 0), a.W)
		}
		return s.bin(KBAnd, a, b)
	}
	if a == b {
		return a
	}
	if a.ID > b.ID {
		a, b = b, a
	}
	return s.bin(KBAnd, a, b)
}

// asShiftedByte recognises zext(x8) << (8*k) patterns (or plain zext) and
// returns the inner term and shift amount, used to fold byte assembly.
func asShifted(t *Term) (in *Term, sh int, ok bool) {
	if t.K == KZext {
		return t.A[0], 0, true
	}
	if t.K == KShl && t.A[1].K == KConst && t.A[0].K == KZext {
		return t.A[0].A[0], int(t.A[1].V), true
	}
	return nil, 0, false
}

func (s *Store) BOr(a, b *Term) *Term {
	if a.K == KConst && b.K == KConst {
		return s.Const(a.W, a.V|b.V)
	}
	if a.K == KConst {
		a, b = b, a
	}
	if b.K == KConst {
		if b.V == 0 {
			return a
		}
		if b.V == mask(a.W) {
			return b
		}
		return s.bin(KBOr, a, b)
	}
	if a == b {
		return a
	}
	if a.ID > b.ID {
		a, b = b, a
	}
	return s.bin(KBOr, a, b)
}

func (s *Store) BXor(a, b *Term) *Term {
	if a.K == KConst && b.K == KConst {
		return s.Const(a.W, a.V^b.V)
	}
	if a.K == KConst {
		a, b = b, a
	}
	if b.K == KConst && b.V == 0 {
		return a
	}
	if a == b {
		return s.Const(a.W, 0)
	}
	if b.K != KConst && a.ID > b.ID {
		a, b = b, a
	}
	return s.bin(KBXor, a, b)
}

func (s *Store) BNot(a *Term) *Term {
	if a.K == KConst {
		return s.Const(a.W, ^a.V)
	}
	if a.K == KBNot {
		return a.A[0]
	}
	return s.mk(KBNot, a.W, 0, "", a, nil, nil)
}

func (s *Store) Neg(a *Term) *Term {
	if a.K == KConst {
		return s.Const(a.W, -a.V)
	}
	return s.mk(KNeg, a.W, 0, "", a, nil, nil)
}

// Shifts: SMT-LIB semantics coincide with Go's for shift counts >= width
// (shl/lshr give 0, ashr gives sign fill) provided the count is an unsigned
// value of the same width; callers must saturate wider counts.
func (s *Store) Shl(a, b *Term) *Term {
	if b.K == KConst {
		if b.V == 0 {
			return a
		}
		if b.V >= uint64(a.W) {
			return s.Const(a.W, 0)
		}
		if a.K == KConst {
			return s.Const(a.W, a.V<<b.V)
		}
	}
	return s.bin(KShl, a, b)
}

func (s *Store) LShr(a, b *Term) *Term {
	if b.K == KConst {
		if b.V == 0 {
			return a
		}
		if b.V >= uint64(a.W) {
			return s.Const(a.W, 0)
		}
		if a.K == KConst {
			return s.Const(a.W, a.V>>b.V)
		}
		// lshr by constant = zext(extract(w-1, k))
		return s.Zext(s.Extract(a, a.W-1, int(b.V)), a.W)
	}
	return s.bin(KLShr, a, b)
}

func (s *Store) AShr(a, b *Term) *Term {
	if b.K == KConst {
		if b.V == 0 {
			return a
		}
		if a.K == KConst {
			n := b.V
			if n >= uint64(a.W) {
				n = uint64(a.W - 1)
			}
			return s.Const(a.W, uint64(a.SignedVal()>>n))
		}
		if b.V >= uint64(a.W) {
			b = s.Const(a.W, uint64(a.W-1))
		}
		return s.Sext(s.Extract(a, a.W-1, int(b.V)), a.W)
	}
	return s.bin(KAShr, a, b)
}

func (s *Store) cmp(k Kind, a, b *Term) *Term {
	if a.W != b.W || a.W == 0 {
		panic(fmt.Sprintf("cmp width mismatch %d %d", a.W, b.W))
	}
	return s.mk(k, 0, 0, "", a, b, nil)
}

func (s *Store) Ult(a, b *Term) *Term {
	if a.K == KConst && b.K == KConst {
		return s.Bool(a.V < b.V)
	}
	if a == b {
		return s.False
	}
	if b.K == KConst && b.V == 0 {
		return s.False
	}
	if a.K == KConst && a.V == mask(a.W) {
		return s.False
	}
	if a.K == KZext && b.K == KConst {
		in := a.A[0]
		if b.V > mask(in.W) {
			return s.True
		}
		return s.Ult(in, s.Const(in.W, b.V))
	}
	if b.K == KZext && a.K == KConst {
		in := b.A[0]
		if a.V >= mask(in.W) {
			return s.False
		}
		return s.Ult(s.Const(in.W, a.V), in)
	}
	if a.K == KZext && b.K == KZext && a.A[0].W == b.A[0].W {
		return s.Ult(a.A[0], b.A[0])
	}
	return s.cmp(KUlt, a, b)
}

func (s *Store) Ule(a, b *Term) *Term { return s.Not(s.Ult(b, a)) }

func (s *Store) Slt(a, b *Term) *Term {
	if a.K == KConst && b.K == KConst {
		return s.Bool(a.SignedVal() < b.SignedVal())
	}
	if a == b {
		return s.False
	}
	// both zero-extended (hence non-negative) => unsigned compare on inner
	if a.K == KZext && b.K == KConst && b.SignedVal() >= 0 {
		return s.Ult(a, b)
	}
	if a.K == KZext && b.K == KConst && b.SignedVal() < 0 {
		return s.False
	}
	if b.K == KZext && a.K == KConst && a.SignedVal() >= 0 {
		return s.Ult(a, b)
	}
	if b.K == KZext && a.K == KConst && a.SignedVal() < 0 {
		return s.True
	}
	if a.K == KZext && b.K == KZext {
		return s.Ult(a, b)
	}
	return s.cmp(KSlt, a, b)
}

func (s *Store) Sle(a, b *Term) *Term { return s.Not(s.Slt(b, a)) }

func (s *Store) Zext(a *Term, w int) *Term {
	if w == a.W {
		return a
	}
	if w < a.W {
		panic("Zext narrowing")
	}
	if a.K == KConst {
		return s.Const(w, a.V)
	}
	if a.K == KZext {
		return s.Zext(a.A[0], w)
	}
	return s.mk(KZext, w, uint64(w), "", a, nil, nil)
}

func (s *Store) Sext(a *Term, w int) *Term {
	if w == a.W {
		return a
	}
	if w < a.W {
		panic("Sext narrowing")
	}
	if a.K == KConst {
		return s.Const(w, uint64(a.SignedVal()))
	}
	if a.K == KZext {
		return s.Zext(a.A[0], w) // zero-extended value is non-negative
	}
	if a.K == KSext {
		return s.Sext(a.A[0], w)
	}
	return s.mk(KSext, w, uint64(w), "", a, nil, nil)
}

// Extract bits hi..lo inclusive.
func (s *Store) Extract(a *Term, hi, lo int) *Term {
	if hi < lo || hi >= a.W || lo < 0 {
		panic(fmt.Sprintf("Extract %d..%d of width %d", hi, lo, a.W))
	}
	w := hi - lo + 1
	if w == a.W {
		return a
	}
	switch a.K {
	case KConst:
		return s.Const(w, a.V>>uint(lo))
	case KZext, KSext:
		in := a.A[0]
		if hi < in.W {
			return s.Extract(in, hi, lo)
		}
		if lo >= in.W && a.K == KZext {
			return s.Const(w, 0)
		}
		if lo == 0 && a.K == KZext {
			return s.Zext(in, w)
		}
		if lo == 0 && a.K == KSext {
			return s.Sext(in, w)
		}
	case KExtract:
		ilo := int(a.V & 0xff)
		return s.Extract(a.A[0], hi+ilo, lo+ilo)
	case KConcat:
		lw := a.A[1].W
		if hi < lw {
			return s.Extract(a.A[1], hi, lo)
		}
		if lo >= lw {
			return s.Extract(a.A[0], hi-lw, lo-lw)
		}
	case KShl:
		if a.A[1].K == KConst {
			k := int(a.A[1].V)
			if lo >= k {
				return s.Extract(a.A[0], hi-k, lo-k)
			}
			if hi < k {
				return s.Const(w, 0)
			}
		}
	case KBOr, KBAnd, KBXor:
		// distribute extraction over bitwise ops (cheap, enables byte folding)
		x := s.Extract(a.A[0], hi, lo)
		y := s.Extract(a.A[1], hi, lo)
		switch a.K {
		case KBOr:
			return s.BOr(x, y)
		case KBAnd:
			return s.BAnd(x, y)
		default:
			return s.BXor(x, y)
		}
	case KIte:
		if a.A[1].K == KConst || a.A[2].K == KConst {
			return s.Ite(a.A[0], s.Extract(a.A[1], hi, lo), s.Extract(a.A[2], hi, lo))
		}
	}
	return s.mk(KExtract, w, uint64(hi)<<8|uint64(lo), "", a, nil, nil)
}

func (s *Store) Concat(hi, lo *Term) *Term {
	w := hi.W + lo.W
	if w > 64 {
		panic("Concat > 64 bits")
	}
	if hi.K == KConst && lo.K == KConst {
		return s.Const(w, hi.V<<uint(lo.W)|lo.V)
	}
	if hi.K == KConst && hi.V == 0 {
		return s.Zext(lo, w)
	}
	// concat(extract(h,m+1,x), extract(m,l,x)) = extract(h,l,x)
	if hi.K == KExtract && lo.K == KExtract && hi.A[0] == lo.A[0] {
		hl := int(hi.V & 0xff)
		lh := int(lo.V >> 8)
		if hl == lh+1 {
			return s.Extract(hi.A[0], int(hi.V>>8), int(lo.V&0xff))
		}
	}
	return s.mk(KConcat, w, 0, "", hi, lo, nil)
}

// UF applies an uninterpreted function.
func (s *Store) UF(name string, w int, args ...*Term) *Term {
	if len(args) > 3 {
		panic("UF arity > 3")
	}
	sig := []int{}
	for _, a := range args {
		sig = append(sig, a.W)
	}
	sig = append(sig, w)
	s.UFs[name] = sig
	var a [3]*Term
	copy(a[:], args)
	return s.mk(KUF, w, 0, name, a[0], a[1], a[2])
}

// ---- printing ----

func sortStr(w int) string {
	if w == 0 {
		return "Bool"
	}
	return fmt.Sprintf("(_ BitVec %d)", w)
}

func (t *Term) ref() string {
	switch t.K {
	case KConst:
		if t.W == 0 {
			if t.V != 0 {
				return "true"
			}
			return "false"
		}
		if t.W%4 == 0 {
			return fmt.Sprintf("#x%0*x", t.W/4, t.V)
		}
		return fmt.Sprintf("#b%0*b", t.W, t.V)
	case KVar:
		return "|" + t.Name + "|"
	}
	return fmt.Sprintf("t%d", t.ID)
}

func (t *Term) expr() string {
	var sb strings.Builder
	switch t.K {
	case KZext:
		fmt.Fprintf(&sb, "((_ zero_extend %d) %s)", t.W-t.A[0].W, t.A[0].ref())
	case KSext:
		fmt.Fprintf(&sb, "((_ sign_extend %d) %s)", t.W-t.A[0].W, t.A[0].ref())
	case KExtract:
		fmt.Fprintf(&sb, "((_ extract %d %d) %s)", t.V>>8, t.V&0xff, t.A[0].ref())
	case KUF:
		sb.WriteString("(|" + t.Name + "|")
		for i := 0; i < t.N; i++ {
			sb.WriteString(" " + t.A[i].ref())
		}
		sb.WriteString(")")
	default:
		sb.WriteString("(" + kindOp[t.K])
		for i := 0; i < t.N; i++ {
			sb.WriteString(" " + t.A[i].ref())
		}
		sb.WriteString(")")
	}
	return sb.String()
}

// String renders a term for humans (nested, truncated).
func (t *Term) String() string { return t.str(4) }

func (t *Term) str(depth int) string {
	if t.K == KConst || t.K == KVar {
		return t.ref()
	}
	if depth == 0 {
		return "…"
	}
	var sb strings.Builder
	switch t.K {
	case KZext:
		sb.WriteString("(zext" + fmt.Sprint(t.W))
	case KSext:
		sb.WriteString("(sext" + fmt.Sprint(t.W))
	case KExtract:
		fmt.Fprintf(&sb, "(extract[%d:%d]", t.V>>8, t.V&0xff)
	case KUF:
		sb.WriteString("(" + t.Name)
	default:
		sb.WriteString("(" + kindOp[t.K])
	}
	for i := 0; i < t.N; i++ {
		sb.WriteString(" " + t.A[i].str(depth-1))
	}
	sb.WriteString(")")
	return sb.String()
}

// ---- evaluation under a model ----

// Eval computes the value of t under model m (variables missing from m are 0).
// memo may be nil.
func Eval(t *Term, m map[string]uint64, memo map[*Term]uint64) (uint64, bool) {
	if memo == nil {
		memo = map[*Term]uint64{}
	}
	return eval(t, m, memo)
}

func eval(t *Term, m map[string]uint64, memo map[*Term]uint64) (uint64, bool) {
	switch t.K {
	case KConst:
		return t.V, true
	case KVar:
		return m[t.Name] & func() uint64 {
			if t.W == 0 {
				return 1
			}
			return mask(t.W)
		}(), true
	case KUF:
		return 0, false
	}
	if v, ok := memo[t]; ok {
		return v, true
	}
	var a [3]uint64
	for i := 0; i < t.N; i++ {
		v, ok := eval(t.A[i], m, memo)
		if !ok {
			return 0, false
		}
		a[i] = v
	}
	b2u := func(b bool) uint64 {
		if b {
			return 1
		}
		return 0
	}
	sx := func(v uint64, w int) int64 {
		if w >= 64 {
			return int64(v)
		}
		sh := uint(64 - w)
		return int64(v<<sh) >> sh
	}
	var r uint64
	w := t.W
	aw := 0
	if t.N > 0 {
		aw = t.A[0].W
	}
	switch t.K {
	case KNot:
		r = a[0] ^ 1
	case KAnd:
		r = a[0] & a[1]
	case KOr:
		r = a[0] | a[1]
	case KIte:
		if a[0] != 0 {
			r = a[1]
		} else {
			r = a[2]
		}
	case KEq:
		r = b2u(a[0] == a[1])
	case KAdd:
		r = a[0] + a[1]
	case KSub:
		r = a[0] - a[1]
	case KMul:
		r = a[0] * a[1]
	case KUDiv:
		if a[1] == 0 {
			r = ^uint64(0)
		} else {
			r = a[0] / a[1]
		}
	case KURem:
		if a[1] == 0 {
			r = a[0]
		} else {
			r = a[0] % a[1]
		}
	case KSDiv:
		x, y := sx(a[0], aw), sx(a[1], aw)
		switch {
		case y == 0:
			if x >= 0 {
				r = ^uint64(0)
			} else {
				r = 1
			}
		case y == -1:
			r = uint64(-x)
		default:
			r = uint64(x / y)
		}
	case KSRem:
		x, y := sx(a[0], aw), sx(a[1], aw)
		switch {
		case y == 0:
			r = uint64(x)
		case y == -1:
			r = 0
		default:
			r = uint64(x % y)
		}
	case KBAnd:
		r = a[0] & a[1]
	case KBOr:
		r = a[0] | a[1]
	case KBXor:
		r = a[0] ^ a[1]
	case KBNot:
		r = ^a[0]
	case KNeg:
		r = -a[0]
	case KShl:
		if a[1] >= uint64(aw) {
			r = 0
		} else {
			r = a[0] << a[1]
		}
	case KLShr:
		if a[1] >= uint64(aw) {
			r = 0
		} else {
			r = a[0] >> a[1]
		}
	case KAShr:
		n := a[1]
		if n >= uint64(aw) {
			n = uint64(aw - 1)
		}
		r = uint64(sx(a[0], aw) >> n)
	case KUlt:
		r = b2u(a[0] < a[1])
	case KUle:
		r = b2u(a[0] <= a[1])
	case KSlt:
		r = b2u(sx(a[0], aw) < sx(a[1], aw))
	case KSle:
		r = b2u(sx(a[0], aw) <= sx(a[1], aw))
	case KZext:
		r = a[0]
	case KSext:
		r = uint64(sx(a[0], aw))
	case KExtract:
		r = a[0] >> (t.V & 0xff)
	case KConcat:
		r = a[0]<<uint(t.A[1].W) | a[1]
	default:
		return 0, false
	}
	if w == 0 {
		r &= 1
	} else {
		r &= mask(w)
	}
	memo[t] = r
	return r, true
}

// Vars collects the variables of t into out.
func Vars(t *Term, seen map[*Term]bool, out map[string]*Term) {
	if seen[t] {
		return
	}
	seen[t] = true
	if t.K == KVar {
		out[t.Name] = t
		return
	}
	for i := 0; i < t.N; i++ {
		Vars(t.A[i], seen, out)
	}
}

package sym

import (
	"bufio"
	"fmt"
	"io"
	"os"
	"os/exec"
	"strconv"
	"strings"
	"time"
)

type Result int

const (
	Unsat Result = iota
	Sat
	Unknown
)

func (r Result) String() string { return [...]string{"unsat", "sat", "unknown"}[r] }

// Solver drives one persistent SMT solver process. Term definitions are sent
// once, at base level, as nullary define-funs; queries are
// check-sat-assuming over those names.
type Solver struct {
	Name    string
	cmd     *exec.Cmd
	in      io.WriteCloser
	out     *bufio.Reader
	defined map[int]bool
	ufs     map[string]bool
	store   *Store
	Queries int
	SatN    int
	UnsatN  int
	Unknown int
	Errors  int
	Time    time.Duration
	timeout int // ms
	Log     io.Writer
	dead    bool
}

// NewSolver starts kind ∈ {"z3","z3-new","cvc5"}.
func NewSolver(kind string, st *Store, timeoutMs int) (*Solver, error) {
	var cmd *exec.Cmd
	switch kind {
	case "z3":
		cmd = exec.Command("z3", "-in")
	case "z3-new":
		cmd = exec.Command("z3-new", "-in")
	case "cvc5":
		cmd = exec.Command("cvc5", "--incremental", "--lang", "smt2", "--tlimit-per", strconv.Itoa(timeoutMs))
	default:
		return nil, fmt.Errorf("unknown solver %q", kind)
	}
	in, err := cmd.StdinPipe()
	if err != nil {
		return nil, err
	}
	outp, err := cmd.StdoutPipe()
	if err != nil {
		return nil, err
	}
	cmd.Stderr = nil
	if err := cmd.Start(); err != nil {
		return nil, err
	}
	s := &Solver{Name: kind, cmd: cmd, in: in, out: bufio.NewReaderSize(outp, 1<<20), defined: map[int]bool{},
		ufs: map[string]bool{}, store: st, timeout: timeoutMs}
	s.send("(set-option :produce-models true)\n")
	if kind != "cvc5" {
		s.send(fmt.Sprintf("(set-option :timeout %d)\n", timeoutMs))
	}
	s.send("(set-logic ALL)\n")
	return s, nil
}

func tailStr(x string, n int) string {
	if len(x) > n {
		return x[len(x)-n:]
	}
	return x
}

func (s *Solver) send(str string) {
	if s.Log != nil {
		io.WriteString(s.Log, str)
	}
	if _, err := io.WriteString(s.in, str); err != nil {
		s.dead = true
	}
}

func (s *Solver) Close() {
	if s.cmd != nil && s.cmd.Process != nil {
		s.in.Close()
		s.cmd.Process.Kill()
		s.cmd.Wait()
	}
}

// define emits definitions for t and its sub-terms (iteratively, post-order).
func (s *Solver) define(t *Term, sb *strings.Builder) {
	type fr struct {
		t *Term
		i int
	}
	stack := []fr{{t, 0}}
	for len(stack) > 0 {
		f := &stack[len(stack)-1]
		tt := f.t
		if tt.K == KConst || s.defined[tt.ID] {
			stack = stack[:len(stack)-1]
			continue
		}
		if f.i < tt.N {
			f.i++
			stack = append(stack, fr{tt.A[f.i-1], 0})
			continue
		}
		stack = stack[:len(stack)-1]
		s.defined[tt.ID] = true
		if tt.K == KVar {
			fmt.Fprintf(sb, "(declare-const %s %s)\n", tt.ref(), sortStr(tt.W))
			continue
		}
		if tt.K == KUF && !s.ufs[tt.Name] {
			s.ufs[tt.Name] = true
			fmt.Fprintf(sb, "(declare-fun |%s| (", tt.Name)
			for i := 0; i < tt.N; i++ {
				sb.WriteString(sortStr(tt.A[i].W) + " ")
			}
			fmt.Fprintf(sb, ") %s)\n", sortStr(tt.W))
		}
		fmt.Fprintf(sb, "(define-fun t%d () %s %s)\n", tt.ID, sortStr(tt.W), tt.expr())
	}
}

func (s *Solver) readUntilDone() ([]string, error) {
	var lines []string
	for {
		line, err := s.out.ReadString('\n')
		if err != nil {
			return lines, err
		}
		line = strings.TrimSpace(line)
		if strings.Contains(line, "@@done") {
			return lines, nil
		}
		if line != "" {
			lines = append(lines, line)
		}
	}
}

// Check decides the conjunction of assumps.
func (s *Solver) Check(assumps []*Term) Result {
	if s.dead {
		s.Unknown++
		return Unknown
	}
	t0 := time.Now()
	var sb strings.Builder
	var names []string
	for _, a := range assumps {
		if a.IsTrue() {
			continue
		}
		if a.IsFalse() {
			return Unsat
		}
		s.define(a, &sb)
		// check-sat-assuming needs literals: name or (not name)
		if a.K == KNot {
			names = append(names, "(not "+a.A[0].ref()+")")
		} else {
			names = append(names, a.ref())
		}
	}
	sb.WriteString("(check-sat-assuming (" + strings.Join(names, " ") + "))\n(echo \"@@done\")\n")
	s.send(sb.String())
	s.Queries++
	res := Unknown
	lines, err := s.readUntilDone()
	if err != nil {
		s.dead = true
	} else {
		bad := false
		verdict := ""
		for _, line := range lines {
			if strings.HasPrefix(line, "(error") {
				bad = true
				if os.Getenv("VCHECK_SOLVER_DEBUG") != "" {
					fmt.Fprintln(os.Stderr, "solver:", line, "\n  last batch:", tailStr(sb.String(), 1500))
				}
			}
			switch line {
			case "sat", "unsat", "unknown", "timeout":
				verdict = line
			}
		}
		if bad {
			s.Errors++
		} else if verdict == "sat" {
			res = Sat
		} else if verdict == "unsat" {
			res = Unsat
		}
	}
	s.Time += time.Since(t0)
	switch res {
	case Sat:
		s.SatN++
	case Unsat:
		s.UnsatN++
	default:
		s.Unknown++
	}
	return res
}

// Model returns values of the given variables after a Sat answer.
func (s *Solver) Model(vars []*Term) (map[string]uint64, error) {
	m := map[string]uint64{}
	if len(vars) == 0 {
		return m, nil
	}
	var sb strings.Builder
	sb.WriteString("(get-value (")
	for _, v := range vars {
		if !s.defined[v.ID] {
			// variable never sent: unconstrained, value 0
			continue
		}
		sb.WriteString(v.ref() + " ")
	}
	sb.WriteString("))\n")
	if !strings.Contains(sb.String(), "|") {
		return m, nil
	}
	sb.WriteString("(echo \"@@done\")\n")
	s.send(sb.String())
	lines, err := s.readUntilDone()
	if err != nil {
		s.dead = true
		return nil, err
	}
	var all strings.Builder
	for _, l := range lines {
		all.WriteString(l + "\n")
	}
	txt := all.String()
	if strings.HasPrefix(strings.TrimSpace(txt), "(error") {
		return nil, fmt.Errorf("solver: %s", txt)
	}
	// parse pairs (|name| #x..)
	i := 0
	for {
		j := strings.Index(txt[i:], "(|")
		if j < 0 {
			break
		}
		i += j + 2
		k := strings.Index(txt[i:], "|")
		if k < 0 {
			break
		}
		name := txt[i : i+k]
		i += k + 1
		rest := strings.TrimSpace(txt[i:])
		var val uint64
		switch {
		case strings.HasPrefix(rest, "#x"):
			e := strings.IndexAny(rest, ") \n")
			val, _ = strconv.ParseUint(rest[2:e], 16, 64)
		case strings.HasPrefix(rest, "#b"):
			e := strings.IndexAny(rest, ") \n")
			val, _ = strconv.ParseUint(rest[2:e], 2, 64)
		case strings.HasPrefix(rest, "true"):
			val = 1
		case strings.HasPrefix(rest, "false"):
			val = 0
		case strings.HasPrefix(rest, "(_ bv"):
			e := strings.IndexAny(rest[5:], " ")
			val, _ = strconv.ParseUint(rest[5:5+e], 10, 64)
		}
		m[name] = val
	}
	return m, nil
}

#!/usr/bin/env python3
# Regenerates /verif/MANIFEST.json from the table below.
import json, os
BASE = json.load(open('/root/.vp/BASELINE.json'))
claimed = {
 # id: (level text, level note, technique, design ref)
}
exec(open('/verif/tools/claims.py').read())
checks = []
for pid in sorted(claimed):
    text, note, tech, ref = claimed[pid]
    checks.append({
        "property_id": pid,
        "quick_cmd": f"./bin/vcheck {pid} --tier quick",
        "thorough_cmd": f"./bin/vcheck {pid} --tier thorough",
        "evidence_file": f"/verif/evidence/{pid}.json",
        "replay_cmd_template": f"./bin/vcheck {pid} --replay {{path}}",
        "engine": "gosym",
        "level_claimed": {"category": "model_checking", "text": text, "design_ref": ref},
        "level_note": note,
        "technique": tech,
    })
na = [{"property_id": k, "reason": v} for k, v in sorted(not_applicable.items()) if k not in claimed]
m = {
 "version": 1,
 "setup_cmd": "cd /verif/engine && GOFLAGS=-mod=mod GOPROXY=off GOSUMDB=off GOTOOLCHAIN=local go build -o ../bin/vcheck ./cmd/vcheck",
 "hooks": {"guard": "verif", "enable": "go build/test -tags verif (no hook file is needed by any registered check: harnesses are injected as build overlays)",
           "baseline_off_cmd": BASE["cmd"], "source_commits": hook_commits, "add_only": True},
 "engines": [{"name": "gosym", "path": "/verif/engine", "serves_properties": sorted(claimed),
              "kind_free_text": "bounded symbolic execution of go/ssa (built from /repo's working tree on every run) with z3 deciding every branch and assertion over bit-vector terms; counterexamples replayed natively with go test -overlay"}],
 "checks": checks,
 "not_applicable": na,
 "notes": "See DESIGN.md. Exit codes of vcheck: 0 held within bounds, 1 violation (replayed natively), 2 inconclusive (unknown/timeout/unsupported/vacuous), 3 engine mismatch (counterexample did not reproduce natively).",
}
json.dump(m, open('/verif/MANIFEST.json','w'), indent=1)
print("wrote MANIFEST.json with", len(checks), "checks;", len(na), "not applicable")

hook_commits = []
BMC = "bounded model checking of the real code: go/ssa symbolic execution, every branch and assertion decided by z3 (QF_BV); holds for every input within the stated bounds, says nothing outside them"
NOTE = "trusted: the SSA->SMT interpreter (validated by replaying solver models and path samples against the natively compiled code on every run), z3 4.8.12, the listed stubs (log packages are no-ops; sync.Pool never reuses); bounds and undecided clauses are listed in the evidence file and DESIGN.md"
claimed["C01"] = (BMC + ". Clauses: xprotocol decode->encode byte identity under read-buffer reuse, and slow-path re-encode consistency, for bolt frames built from the documented layout with symbolic content.", NOTE, "SSA symbolic execution + z3 (bounded), native replay", "DESIGN.md §3 C01")
claimed["C07"] = (BMC + ". Clauses: whole vs. cut delivery gives the same frames; incomplete frame consumes nothing; no stale-capacity byte read.", NOTE, "SSA symbolic execution + z3 (bounded), native replay", "DESIGN.md §3 C07")
claimed["C08"] = (BMC + ". Clauses: arbitrary bytes never panic the decoder, never read beyond the received bytes, allocation bounded by delivered length, decode loop progress.", NOTE, "SSA symbolic execution + z3 (bounded), native replay", "DESIGN.md §3 C08")
not_applicable = {
 "C11": "graceful shutdown/hot upgrade is about signals, two processes, listener fd passing and draining real sockets: there is no function of SMT-rangeable values to encode; a model of it would be a different technique",
 "C19": "the subject is reflection-driven JSON/YAML (de)serialisation and file I/O, which an SSA->SMT encoder cannot execute; stubbing it removes the property",
}
for k in ["C02","C03","C04","C05","C06","C09","C10","C12","C13","C14","C15","C16","C17","C18","C20"]:
    not_applicable.setdefault(k, "harness not built yet in this session (planned, see DESIGN.md §7)")

#!/usr/bin/env python3
# usage: seedmeta.py <seed-dir-name> <caught_by text>
import json,sys
name,cb=sys.argv[1],sys.argv[2]
p='/verif/seeded/%s/meta.json'%name
d=json.load(open(p))
d['caught_by']=cb
d['confirmed']="demo test fails with patch.diff applied and passes with it reverted (tools/seedcheck.sh in the scratch worktree under /tmp/seed); existing tests of the touched packages pass with the change (agent's run); the property's quick check was run against the worktree with the change applied (VCHECK_REPO_DIR=<worktree> ./bin/vcheck %s --tier quick): exit 1 with replayed VIOLATION lines; /repo untouched"%d['property']
json.dump(d,open(p,'w'),indent=1)
print('ok',name)

#!/bin/bash
# usage: seedcheck.sh <worktree-id> <seed-name> <property> [extra vcheck args]
# Confirms a seeded change (demo fails with / passes without) in its scratch worktree,
# stores it under /verif/seeded/<seed-name>/, and runs the property's check against the
# worktree with the change applied (VCHECK_REPO_DIR; /repo itself is not touched, evidence
# and replay files of this experiment go to /tmp/seedout/<seed-name>).
set -u
WT=/tmp/seed/$1; NAME=$2; PROP=$3; shift 3
export GOFLAGS=-mod=mod GOPROXY=off GOSUMDB=off GOTOOLCHAIN=local
S=$WT/_seed
DEMO_CMD=$(python3 -c "import json;print(json.load(open('$S/meta.json'))['demo_cmd'])")
mkdir -p /verif/seeded/$NAME
cp $S/patch.diff $S/meta.json /verif/seeded/$NAME/ 2>/dev/null
cp $S/*_test.go /verif/seeded/$NAME/ 2>/dev/null
cd $WT
echo "== demo with change"; (eval "$DEMO_CMD" 2>&1 | grep -- "^--- FAIL\|^ok\|^FAIL\|^PASS" | head -5)
git apply -R $S/patch.diff && echo "== demo without change" && (eval "$DEMO_CMD" 2>&1 | grep -- "^--- FAIL\|^ok\|^FAIL\|^PASS" | head -5)
git apply $S/patch.diff
git -C $WT diff --stat | tail -1
# the demo test file stays in _seed/; it is moved out of the package so that it cannot clash with the harness files in the native replay build
find $WT -name 'zz_seed_demo_test.go' -not -path '*/_seed/*' -delete
mkdir -p /tmp/seedout/$NAME
echo "== check on the worktree with the change"
(cd /verif && VCHECK_REPO_DIR=$WT VCHECK_OUT_DIR=/tmp/seedout/$NAME timeout 1800 ./bin/vcheck $PROP --tier quick "$@" 2>&1 | grep "^VIOLATION\|^  assertion\|exit\|MISMATCH\|INCONCLUSIVE\|KNOWN" | cut -c1-220 | sort | uniq -c | head -12)
rm -rf /tmp/seedout/$NAME

#!/bin/bash
# usage: runall.sh quick|thorough [ids...]  - runs the registered checks sequentially, one summary line each.
# Works from /verif or from a snapshot of it (vp run): harnesses are taken from the directory this script lives in.
tier=$1; shift
ids="$@"; [ -z "$ids" ] && ids="C01 C02 C03 C04 C05 C06 C07 C08 C09 C10 C12 C13 C14 C15 C16 C17 C18 C20"
ROOT=$(cd "$(dirname "$0")/.." && pwd)
export VCHECK_VERIF_DIR=$ROOT
mkdir -p $ROOT/bin $ROOT/logs
[ "$ROOT" != /verif ] && cp /verif/bin/vcheck $ROOT/bin/vcheck
cd $ROOT
for id in $ids; do
  s=$(date +%s)
  timeout ${RUNALL_TIMEOUT:-7200} ./bin/vcheck $id --tier $tier > logs/$id.$tier.log 2>&1; rc=$?
  e=$(( $(date +%s) - s ))
  echo "$id $tier rc=$rc ${e}s $(grep -c '^KNOWN-FINDING' logs/$id.$tier.log) known, $(grep -c '^VIOLATION' logs/$id.$tier.log) viol, $(grep -c 'INCONCLUSIVE' logs/$id.$tier.log) inconc"
done

#!/bin/bash
# usage: runall.sh quick|thorough [ids...]  - runs the registered checks sequentially, one summary line each
tier=$1; shift
ids="$@"; [ -z "$ids" ] && ids="C01 C02 C03 C04 C05 C06 C07 C08 C09 C10 C12 C13 C14 C15 C16 C17 C18 C20"
cd /verif
for id in $ids; do
  s=$(date +%s)
  timeout 7200 ./bin/vcheck $id --tier $tier > /tmp/runall_$id.$tier.log 2>&1; rc=$?
  e=$(( $(date +%s) - s ))
  echo "$id $tier rc=$rc ${e}s $(grep -c '^KNOWN-FINDING' /tmp/runall_$id.$tier.log) known, $(grep -c '^VIOLATION' /tmp/runall_$id.$tier.log) viol, $(grep -c 'INCONCLUSIVE' /tmp/runall_$id.$tier.log) inconc"
done

//verif:pkg mosn.io/mosn/pkg/protocol/xprotocol/dubbothrift
package dubbothrift

import (
	"context"

	"mosn.io/api"
	"mosn.io/mosn/pkg/zzverif/verif"
	"mosn.io/pkg/buffer"
	"mosn.io/pkg/variable"
)

func zzCtx() context.Context {
	return variable.NewVariableContext(context.Background())
}

func zzReadBuffer(s []byte) api.IoBuffer {
	return buffer.NewIoBufferBytes(verif.WithStaleCap(s, 64))
}

// VerifC08_ThriftArbitrary: arbitrary bytes into the dubbo decoder.
func VerifC08_ThriftArbitrary() {
	verif.NoPanic()
	n := verif.Len("n", 0, verif.Param("N", 14, 20))
	s := verif.Bytes("s", n)
	// apache/thrift reads strings through a buffer of at most readLimit = 32768
	// bytes: a constant bound, not an announced length.
	verif.AllocLimit(n + 64 + 32768)
	verif.AllocCut(n + 64)
	buf := zzReadBuffer(s)
	frame, err := thriftProtocol{}.Decode(zzCtx(), buf)
	left := buf.Len()
	switch {
	case frame == nil && err == nil:
		verif.Assert(left == n, "need-more must not consume")
		verif.Cover("need-more")
	case err != nil:
	default:
		verif.Assert(left < n, "a decoded frame must consume at least one byte (progress)")
	}
	verif.Assert(left <= n, "cannot consume more than delivered")
	verif.Assert(verif.StaleReads() == 0, "engine: decoder read bytes that were never received")
	verif.Cover("end")
}

type zzRec struct {
	consumed int
	raw      []byte
	id       uint64
	kind     int
}

func zzDecodeAll(ctx context.Context, buf api.IoBuffer, max int) (recs []zzRec, failed bool) {
	for i := 0; i < max; i++ {
		if buf.Len() == 0 {
			return
		}
		before := buf.Len()
		frame, err := thriftProtocol{}.Decode(ctx, buf)
		if frame == nil && err == nil {
			return
		}
		if err != nil {
			return recs, true
		}
		f := frame.(*Frame)
		recs = append(recs, zzRec{consumed: before - buf.Len(), id: f.GetRequestId(), kind: int(f.GetStreamType()), raw: append([]byte{}, f.rawData...)})
	}
	return
}

// zzFrame builds one well-formed dubbo-thrift frame from the layout the
// decoder documents: len(4) | magic(2) msglen(4) hdrlen(2) version(1)
// service(string) id(i64) | TBinary strict message begin (version|type,
// name, seqid) | body.
func zzFrame(tag string, maxBody int) []byte {
	k := verif.Choose(tag+".k", 2)
	m := verif.Choose(tag+".m", 2)
	p := verif.Choose(tag+".p", maxBody+1)
	H := 9 + 4 + k + 8
	M := H + 4 + 4 + m + 4 + p
	b := verif.Bytes(tag, 4+M)
	b[0], b[1], b[2], b[3] = 0, 0, 0, byte(M)
	b[4], b[5] = 0xda, 0xbc
	b[6], b[7], b[8], b[9] = 0, 0, 0, byte(M)
	b[10], b[11] = 0, byte(H)
	b[12] = 1
	b[13], b[14], b[15], b[16] = 0, 0, 0, byte(k)
	o := 4 + H
	b[o], b[o+1], b[o+2] = 0x80, 0x01, 0x00
	b[o+4], b[o+5], b[o+6], b[o+7] = 0, 0, 0, byte(m)
	zzLastIDOff = 4 + H - 8
	return b
}

var zzLastIDOff int

func VerifC07_ThriftStream() {
	nf := 2
	var s []byte
	var lens []int
	for i := 0; i < nf; i++ {
		f := zzFrame("f"+string(rune('0'+i)), 1-i)
		lens = append(lens, len(f))
		s = append(s, f...)
	}
	n := len(s)
	cutc := verif.Concrete(verif.IntRange("cut", 0, n))
	buf := buffer.NewIoBufferBytes(verif.WithStaleCap(append([]byte{}, s[:cutc]...), 64))
	ctx := zzCtx()
	got, fail := zzDecodeAll(ctx, buf, 4)
	verif.Assert(!fail, "prefix of a valid stream failed to decode")
	complete, off := 0, 0
	for _, l := range lens {
		if off+l > cutc {
			break
		}
		complete++
		off += l
	}
	verif.Assert(len(got) == complete, "frames extracted from the prefix differ from the complete frames it holds")
	verif.Assert(buf.Len() == cutc-off, "an incomplete frame must consume nothing")
	buf.Write(s[cutc:])
	got2, fail2 := zzDecodeAll(ctx, buf, 4)
	verif.Assert(!fail2, "remainder of a valid stream failed to decode")
	got = append(got, got2...)
	verif.Assert(len(got) == nf && buf.Len() == 0, "every frame exactly once, no byte left")
	off = 0
	for i, l := range lens {
		if i < len(got) {
			verif.Assert(got[i].consumed == l && string(got[i].raw) == string(s[off:off+l]), "frame bytes attributed wrongly")
		}
		off += l
	}
	verif.Assert(verif.StaleReads() == 0, "engine: decoder read bytes that were never received")
	verif.Cover("end")
}


func zzCheckForwarded(out, orig []byte, id uint64, zzIDField int) {
	verif.Assert(len(out) == len(orig), "forwarded frame length differs from the received frame")
	if len(out) != len(orig) {
		return
	}
	var diff byte
	for i := range orig {
		if i >= zzIDField && i < zzIDField+8 {
			diff |= out[i] ^ byte(id>>(8*uint(zzIDField+7-i)))
		} else {
			diff |= out[i] ^ orig[i]
		}
	}
	verif.Assert(diff == 0, "forwarded bytes differ from the received bytes outside the request-id field")
}

func VerifC01_ThriftFast() {
	f := zzFrame("f", 4)
	orig := append([]byte{}, f...)
	rb := verif.WithStaleCap(f, 64)
	buf := buffer.NewIoBufferBytes(rb)
	ctx := zzCtx()
	frame, err := thriftProtocol{}.Decode(ctx, buf)
	verif.Assert(frame != nil && err == nil, "well-formed frame must decode")
	if frame == nil {
		return
	}
	id := verif.U64("id")
	frame.(api.XFrame).SetRequestId(id)
	verif.Havoc(rb)
	out, err := thriftProtocol{}.Encode(ctx, frame)
	verif.Assert(err == nil && out != nil, "encode of an unmodified frame failed")
	if out == nil {
		return
	}
	zzCheckForwarded(out.Bytes(), orig, id, zzLastIDOff)
	verif.Cover("end")
}

// VerifC01_ThriftSlow: the body is replaced before forwarding; decoding what
// goes out must give the new body and the retargeted id.
func VerifC01_ThriftSlow() {
	f := zzFrame("f", 2)
	rb := verif.WithStaleCap(f, 64)
	ctx := zzCtx()
	frame, err := thriftProtocol{}.Decode(ctx, buffer.NewIoBufferBytes(rb))
	verif.Assert(frame != nil && err == nil, "well-formed frame must decode")
	if frame == nil {
		return
	}
	xf := frame.(api.XFrame)
	old := append([]byte{}, xf.GetData().Bytes()...)
	nb := append([]byte{}, old...)
	if len(nb) > 0 {
		nb[len(nb)-1] ^= 0xff // a different body of the same shape (still a valid message)
	}
	nb = append(nb, verif.Bytes("nb", verif.Choose("nbl", 3))...)
	xf.SetData(buffer.NewIoBufferBytes(nb))
	id := verif.U64("id")
	xf.SetRequestId(id)
	verif.Havoc(rb)
	out, err := thriftProtocol{}.Encode(ctx, frame)
	if err != nil {
		return
	}
	wire := append([]byte{}, out.Bytes()...)
	frame2, err := thriftProtocol{}.Decode(zzCtx(), buffer.NewIoBufferBytes(verif.WithStaleCap(wire, 64)))
	verif.Assert(frame2 != nil && err == nil, "re-encoded frame does not decode")
	if frame2 == nil {
		return
	}
	xf2 := frame2.(api.XFrame)
	verif.Cover("end") // before the assertions: a known finding ends the path at its assertion
	verif.Assert(xf2.GetRequestId() == id, "request id differs after re-encode")
	verif.Assert(string(xf2.GetData().Bytes()) == string(nb), "forwarded body is not the replaced body")
}

// VerifC02_ThriftIDWidth: the id handed to the stream table by
// GenerateRequestID is exactly the id read back from the wire after
// SetRequestId/Encode/Decode, and counters less than 2^63 apart give distinct ids.
func VerifC02_ThriftIDWidth() {
	c := verif.U64("c")
	c0 := c
	id := thriftProtocol{}.GenerateRequestID(&c)
	verif.Assert(c == c0+1, "counter must advance by one")
	f := zzFrame("f", 0)
	ctx := zzCtx()
	frame, err := thriftProtocol{}.Decode(ctx, buffer.NewIoBufferBytes(verif.WithStaleCap(f, 64)))
	verif.Assume(frame != nil && err == nil)
	xf := frame.(api.XFrame)
	xf.SetRequestId(id)
	out, err := thriftProtocol{}.Encode(ctx, frame)
	verif.Assume(err == nil && out != nil)
	frame2, err := thriftProtocol{}.Decode(zzCtx(), buffer.NewIoBufferBytes(verif.WithStaleCap(append([]byte{}, out.Bytes()...), 64)))
	verif.Assert(frame2 != nil && err == nil, "frame with the generated id must decode")
	if frame2 == nil {
		return
	}
	verif.Assert(frame2.(api.XFrame).GetRequestId() == id, "id read from the wire differs from the id the stream table was given")
	d := verif.U64("d")
	verif.Assume(d != 0 && d>>63 == 0)
	c2 := c0 + d
	id2 := thriftProtocol{}.GenerateRequestID(&c2)
	verif.Assert(id2 != id, "two live counters map to the same wire id")
	verif.Cover("end")
}

// VerifC01_ThriftLargeBody: the body is replaced by one that makes the
// re-encoded frame cross the encoder's initial buffer size (1024 bytes) -
// just below, just above and well above: what goes out still decodes to the
// replaced body with the retargeted id.
func VerifC01_ThriftLargeBody() {
	f := zzFrame("f", 2)
	ctx := zzCtx()
	frame, err := thriftProtocol{}.Decode(ctx, buffer.NewIoBufferBytes(f))
	verif.Assert(frame != nil && err == nil, "well-formed frame must decode")
	if frame == nil {
		return
	}
	xf := frame.(api.XFrame)
	nb := append([]byte{}, xf.GetData().Bytes()...)
	extra := []int{900, 1030, 2100}[verif.Choose("extra", 3)]
	for i := 0; i < extra; i++ {
		nb = append(nb, 'x')
	}
	xf.SetData(buffer.NewIoBufferBytes(nb))
	id := verif.U64("id")
	xf.SetRequestId(id)
	out, err := thriftProtocol{}.Encode(ctx, frame)
	verif.Assert(err == nil && out != nil, "a body of a few kilobytes must be encodable")
	if err != nil || out == nil {
		return
	}
	wire := append([]byte{}, out.Bytes()...)
	frame2, err := thriftProtocol{}.Decode(zzCtx(), buffer.NewIoBufferBytes(wire))
	verif.Assert(frame2 != nil && err == nil, "re-encoded frame does not decode (length fields do not describe it)")
	if frame2 == nil {
		return
	}
	xf2 := frame2.(api.XFrame)
	verif.Cover("end") // before the assertions: a known finding ends the path at its assertion
	verif.Assert(xf2.GetRequestId() == id, "request id differs after re-encode")
	verif.Assert(string(xf2.GetData().Bytes()) == string(nb), "forwarded body is not the replaced body")
}

// VerifC08_ThriftInnerLength: a dubbo-thrift frame carries its length twice
// (the 4-byte prefix that frames the stream, and a copy inside the message
// header). The frame is well formed except that the inner copy is arbitrary
// (32 symbolic bits) - a peer can send that. Whatever the value, a decoded
// frame takes exactly the prefix-delimited bytes out of the read buffer (so
// the decode loop makes progress and the frame behind it is read next), or
// the frame is refused with an error; never a panic.
func VerifC08_ThriftInnerLength() {
	verif.NoPanic()
	f := zzFrame("f", 1)
	inner := verif.U32("inner_length")
	f[6], f[7], f[8], f[9] = byte(inner>>24), byte(inner>>16), byte(inner>>8), byte(inner)
	g := zzFrame("g", 0)
	wire := append(append([]byte{}, f...), g...)
	buf := buffer.NewIoBufferBytes(verif.WithStaleCap(wire, 64))
	frame, err := thriftProtocol{}.Decode(zzCtx(), buf)
	if err != nil {
		return // refusing such a frame is fine (the unchanged decoder ignores the inner copy)
	}
	verif.Assert(frame != nil, "a complete frame is neither decoded nor refused")
	if frame == nil {
		return
	}
	verif.Assert(buf.Len() == len(g), "a decoded frame did not take exactly its prefix-delimited bytes out of the read buffer (no progress: the same bytes are decoded again for ever - or bytes of the next frame are lost)")
	frame2, err := thriftProtocol{}.Decode(zzCtx(), buf)
	verif.Assert(frame2 != nil && err == nil && buf.Len() == 0, "the frame behind a frame with an odd inner length does not decode")
	verif.Cover("end")
}

//verif:pkg mosn.io/mosn/pkg/protocol/http2
package http2

import (
	"net/http"

	"mosn.io/mosn/pkg/zzverif/verif"
)

// VerifC01_H2HeaderClone: the HTTP/2 stream layer clones the downstream
// header map before it builds the upstream request. The clone holds every
// field line of the original - repeated names with all their values, in
// order - and shares no storage with it; request line data (method, URI,
// host) is carried over.
func VerifC01_H2HeaderClone() {
	h := http.Header{}
	names := []string{"A", "B"}
	total := 0
	for _, n := range names {
		k := verif.Choose("values_of_"+n, 3) // absent, one value, two values
		for i := 0; i < k; i++ {
			h[n] = append(h[n], verif.Str("value", 1))
			total++
		}
	}
	req := &http.Request{Method: "POST", RequestURI: "/p?q", Host: "h", Header: h}
	orig := NewReqHeader(req)
	cl, ok := orig.Clone().(*ReqHeader)
	verif.Assert(ok && cl != nil, "clone of a request header is not a request header")
	if !ok || cl == nil {
		return
	}
	verif.Assert(cl.Req.Method == "POST" && cl.Req.RequestURI == "/p?q" && cl.Req.Host == "h", "method / URI / host lost in the clone")
	for _, n := range names {
		verif.Assert(len(cl.H[n]) == len(h[n]), "the clone lost (or invented) a field line of a repeated header")
		if len(cl.H[n]) == len(h[n]) {
			for i := range h[n] {
				verif.Assert(cl.H[n][i] == h[n][i], "a header value differs in the clone")
			}
		}
	}
	// independence: changing the clone leaves the original alone
	before := ""
	if len(h["A"]) > 0 {
		before = h["A"][0]
		cl.H["A"][0] = before + "!"
		verif.Assert(h["A"][0] == before, "the clone shares value storage with the original")
	}
	cl.Set("C", "x")
	_, has := h["C"]
	verif.Assert(!has, "the clone shares its map with the original")
	if total >= 3 {
		verif.Cover("repeated")
	}
	verif.Cover("end")
}

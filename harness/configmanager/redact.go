//verif:pkg mosn.io/mosn/pkg/configmanager
package configmanager

import (
	"encoding/json"

	v2 "mosn.io/mosn/pkg/config/v2"
	"mosn.io/mosn/pkg/zzverif/verif"
)

func zzTLS(k string) v2.TLSConfig {
	return v2.TLSConfig{Status: true, PrivateKey: k, CertChain: "cert"}
}

func zzListener(name, k string, n int) v2.Listener {
	l := v2.Listener{}
	l.Name = name
	for i := 0; i < n; i++ {
		fc := v2.FilterChain{}
		// a listener built in code may carry its key in any of the three positions of a filter chain
		form := verif.Choose("tls_form", 4) // all three, tls_contexts only, tls_context only, tls_context_set only
		if form == 0 || form == 1 {
			fc.TLSContexts = []v2.TLSConfig{zzTLS(k)}
		}
		if form == 0 || form == 2 {
			t := zzTLS(k)
			fc.TLSConfig = &t
		}
		if form == 0 || form == 3 {
			fc.TLSConfigs = []v2.TLSConfig{zzTLS(k)}
		}
		l.FilterChains = append(l.FilterChains, fc)
	}
	return l
}

// VerifC20_NoLeak: after any short sequence of configuration mutators (and of
// the file-dump assembly), no value handed out by the admin dump entry points
// holds the private key in any string position, and the live configuration
// is not altered by dumping.
func VerifC20_NoLeak() {
	verif.Replace("mosn.io/mosn/pkg/configmanager.tryDump", func() {})
	verif.Replace("encoding/json.MarshalIndent", func(v interface{}, prefix, indent string) ([]byte, error) { return nil, nil })
	Reset()
	// an inline key is what MOSN itself treats as one (pkg/mtls: the string contains
	// "-----BEGIN"; PEM decoding skips any text before the header): arbitrary short
	// preamble, the PEM header, arbitrary content. A file path is not key material.
	k := verif.Str("key_preamble", verif.Choose("preamble_len", 2)) + "-----BEGIN" + verif.Str("key", 2)
	n := verif.Param("elems", 1, 2)
	steps := verif.Param("steps", 3, 4)
	for i := 0; i < steps; i++ {
		switch verif.Choose("op", 6) {
		case 0:
			m := &v2.MOSNConfig{}
			m.ClusterManager.TLSContext = zzTLS(k)
			m.ClusterManager.Clusters = []v2.Cluster{{Name: "cm", TLS: zzTLS(k)}}
			if verif.Choose("bootstrap_loaded", 2) == 1 {
				// a bootstrap configuration that was parsed from its file (inline clusters): the
				// cluster manager section goes through its real MarshalJSON / UnmarshalJSON
				b, err := json.Marshal(m.ClusterManager)
				var cm v2.ClusterManagerConfig
				if err == nil && json.Unmarshal(b, &cm) == nil {
					m.ClusterManager = cm
					verif.Cover("bootstrap-loaded")
				}
			}
			// how the process is run decides nothing about redaction: from a file, from a file plus
			// an xDS control plane (mix: servers and both resource sections), from xDS alone
			mode := verif.Choose("bootstrap_mode", 3)
			if mode != 2 {
				m.Servers = []v2.ServerConfig{{Listeners: []v2.Listener{zzListener("boot", k, n)}}}
			}
			if mode != 0 {
				m.RawStaticResources = json.RawMessage("{}")
				m.RawDynamicResources = json.RawMessage("{}")
				verif.Cover("xds-or-mix-mode")
			}
			SetMosnConfig(m)
		case 1:
			SetListenerConfig(zzListener("l"+string(rune('0'+i%2)), k, n))
		case 2:
			// a cluster may still carry its own context (and key) although it is switched to the manager's
			SetClusterConfig(v2.Cluster{Name: "c" + string(rune('0'+i%2)), TLS: zzTLS(k), ClusterManagerTLS: verif.Choose("cluster_manager_tls", 2) == 1})
		case 3:
			SetClusterManagerTLS(zzTLS(k))
		case 4:
			transferConfig() // what the periodic file dump and hot upgrade run
			verif.Cover("file-dump")
		default:
		}
	}
	before := zzSections(k)
	leak := verif.CountString(redactedCopy(conf), k)
	for _, typ := range []string{CfgTypeMOSN, CfgTypeRouter, CfgTypeCluster, CfgTypeListener, CfgTypeExtend} {
		leak += verif.CountString(getMOSNConfigRedacted(typ), k)
	}
	verif.Assert(leak == 0, "a dump value holds the TLS private key")
	after := zzSections(k)
	for i := range before {
		verif.Assert(after[i] == before[i], "dumping altered the live configuration (a private key was replaced in place)")
	}
	if before[0]+before[1]+before[2] > 0 {
		verif.Cover("has-keys")
	}
	verif.Cover("end")
}

// zzSections counts the key per section of the live configuration (sections
// can share storage, so each is counted on its own).
func zzSections(k string) [3]int {
	return [3]int{verif.CountString(conf.MosnConfig, k), verif.CountString(conf.Listener, k), verif.CountString(conf.Cluster, k)}
}

//verif:pkg mosn.io/mosn/pkg/configmanager
//verif:gen v2.Listener,v2.Cluster,v2.RouterConfiguration,v2.ExtendConfig,v2.Host
//verif:gen-skip Listener.Addr,Listener.InheritListener,Listener.InheritPacketConn,SecretConfigWrapper.SdsConfig,CidrRange.IpNet

package configmanager

// C19, lemma 3: the reassembly of the effective configuration for the dump
// (transferConfig, which the periodic file dump and the hot upgrade use) is
// lossless. After a short sequence of the recording calls the running proxy makes
// (SetMosnConfig, SetListenerConfig, SetClusterConfig, SetRemoveClusterConfig,
// SetHosts, SetRouter, SetExtend), the dump is loaded again through the real
// UnmarshalJSON methods and must contain exactly the recorded listeners, clusters
// (with their current hosts), routers (dynamic-mode path restored) and extends -
// each once, whatever the iteration order of the maps - with every field equal
// (field-by-field comparison generated from the type declarations).

import (
	"encoding/json"
	"net"

	v2 "mosn.io/mosn/pkg/config/v2"
	"mosn.io/mosn/pkg/zzverif/verif"
)

func zzMeta(md map[string]string) *v2.MetadataConfig {
	if len(md) == 0 {
		return nil
	}
	m := map[string]interface{}{}
	for k, v := range md {
		m[k] = v
	}
	return &v2.MetadataConfig{MetaKey: v2.LbMeta{LbMetaKey: m}}
}

func zzMetaNorm(md map[string]string) map[string]string {
	out := map[string]string{}
	for k, v := range md {
		out[k] = v
	}
	return out
}

// the normalisations a dump / load cycle is allowed to perform (see harness/configv2)
func zzExpect_v2_HealthCheck(x *v2.HealthCheck) {
	x.TimeoutConfig.Duration = x.Timeout
	x.IntervalConfig.Duration = x.Interval
	x.IntervalJitterConfig.Duration = x.IntervalJitter
}
func zzExpect_v2_KeepAlive(x *v2.KeepAlive) {
	x.TimeoutConfig.Duration = x.Timeout
	x.IntervalConfig.Duration = x.Interval
}
func zzExpect_v2_Host(x *v2.Host) {
	x.MetaDataConfig = zzMeta(x.MetaData)
	x.MetaData = zzMetaNorm(x.MetaData)
}
func zzExpect_v2_Router(x *v2.Router) {
	x.MetadataConfig = zzMeta(x.Metadata)
	x.Metadata = zzMetaNorm(x.Metadata)
}
func zzExpect_v2_RouteAction(x *v2.RouteAction) {
	x.MetadataConfig = zzMeta(x.MetadataMatch)
	x.MetadataMatch = zzMetaNorm(x.MetadataMatch)
	x.TimeoutConfig.Duration = x.Timeout
}
func zzExpect_v2_ClusterWeight(x *v2.ClusterWeight) {
	x.MetadataConfig = zzMeta(x.MetadataMatch)
	x.MetadataMatch = zzMetaNorm(x.MetadataMatch)
}
func zzExpect_v2_RetryPolicy(x *v2.RetryPolicy) { x.RetryTimeoutConfig.Duration = x.RetryTimeout }
func zzExpect_v2_RouterConfiguration(x *v2.RouterConfiguration) {
	if x.RouterConfigPath == "" {
		x.StaticVirtualHosts = x.VirtualHosts
	}
}
func zzExpect_v2_FilterChain(x *v2.FilterChain) {
	if len(x.TLSContexts) > 0 {
		x.TLSConfig = nil
		x.TLSConfigs = x.TLSContexts
		return
	}
	if len(x.TLSConfigs) > 0 {
		x.TLSContexts = x.TLSConfigs
	} else if x.TLSConfig != nil {
		x.TLSContexts = []v2.TLSConfig{*x.TLSConfig}
	} else {
		x.TLSContexts = []v2.TLSConfig{{}}
	}
}
func zzExpect_v2_Listener(x *v2.Listener) {
	if x.Addr != nil {
		x.AddrConfig = x.Addr.String()
	}
	x.PerConnBufferLimitBytes = 1 << 15
	if x.Network == "" {
		x.Network = "tcp"
	}
	x.ListenerTag, x.ListenerScope, x.Remain = 0, "", false
}

func zzStubResolve() {
	verif.Replace("net.ResolveTCPAddr", func(network, address string) (*net.TCPAddr, error) {
		return &net.TCPAddr{IP: net.IPv4(127, 0, 0, 1), Port: 8080}, nil
	})
}

func zzName(prefix string, i int) string { return prefix + string(rune('0'+i)) }

func zzMkListener(h *zzHv, name string) v2.Listener {
	l := zzHv_v2_Listener(h)
	l.Name = name
	l.AddrConfig = "127.0.0.1:8080"
	l.Network = "tcp"
	l.ListenerTag, l.ListenerScope, l.Remain = 0, "", false
	for i := range l.FilterChains {
		if len(l.FilterChains[i].TLSContexts) == 0 && l.FilterChains[i].TLSConfig != nil {
			l.FilterChains[i].TLSConfigs = nil
		}
	}
	return l
}

func VerifC19_TransferConfig() {
	verif.Replace("mosn.io/mosn/pkg/configmanager.tryDump", func() {})
	zzStubResolve()
	verif.MapOrderNondet(true)
	Reset()
	// shapes of the recorded values: everything empty or everything populated
	h := &zzHv{flip: -1, mode: verif.Choose("shape", 2)}
	// the reference: what the recording calls were given, by name
	listeners := map[string]v2.Listener{}
	clusters := map[string]v2.Cluster{}
	routers := map[string]v2.RouterConfiguration{}
	extends := map[string]bool{}
	extendOrder := []string{}
	extendVal := map[string]string{}
	steps := verif.Param("steps", 3, 4)
	for i := 0; i < steps; i++ {
		switch verif.Choose("op", 8) {
		case 0:
			SetMosnConfig(&v2.MOSNConfig{Pid: "pid", Servers: []v2.ServerConfig{{ServerName: "srv"}}})
		case 1:
			l := zzMkListener(h, zzName("l", verif.Choose("lname", 2)))
			SetListenerConfig(l)
			listeners[l.Name] = l
		case 2:
			c := zzHv_v2_Cluster(h)
			c.Name = zzName("c", verif.Choose("cname", 2))
			SetClusterConfig(c)
			clusters[c.Name] = c
		case 3:
			n := zzName("c", verif.Choose("cname", 2))
			SetRemoveClusterConfig(n)
			delete(clusters, n)
		case 4:
			n := zzName("c", verif.Choose("cname", 2))
			hs := []v2.Host{zzHv_v2_Host(h)}
			SetHosts(n, hs)
			if c, ok := clusters[n]; ok {
				c.Hosts = hs
				clusters[n] = c
			}
		case 5:
			r := zzHv_v2_RouterConfiguration(h)
			r.RouterConfigName = zzName("r", verif.Choose("rname", 2))
			r.RouterConfigPath = "" // inline mode; the directory mode writes files
			SetRouter(r)
			routers[r.RouterConfigName] = r
		case 6:
			// an extend is recorded, or a recorded one is updated with another value
			t := zzName("e", verif.Choose("ename", 2))
			val := []string{"v1", "v2"}[verif.Choose("evalue", 2)]
			SetExtend(t, json.RawMessage(`{"zzk":"`+val+`"}`))
			if !extends[t] {
				extends[t] = true
				extendOrder = append(extendOrder, t)
			}
			extendVal[t] = val
		default:
		}
	}
	content, err := transferConfig()
	verif.Assert(err == nil, "transferConfig fails")
	if err != nil {
		return
	}
	var out v2.MOSNConfig
	err = json.Unmarshal(content, &out)
	verif.Assert(err == nil, "the dump does not load")
	if err != nil {
		return
	}
	verif.Assert(len(out.Servers) == 1, "the dump does not have exactly one server")
	if len(out.Servers) != 1 {
		return
	}
	srv := out.Servers[0]
	verif.Assert(len(srv.Listeners) == len(listeners), "the dump does not hold each recorded listener exactly once")
	for _, l := range srv.Listeners {
		want, ok := listeners[l.Name]
		verif.Assert(ok, "the dump holds a listener that was not recorded (or one twice)")
		if ok {
			zzEq_v2_Listener(h, want, l, "listener")
			delete(listeners, l.Name)
		}
	}
	verif.Assert(len(out.ClusterManager.Clusters) == len(clusters), "the dump does not hold each recorded cluster exactly once")
	for _, c := range out.ClusterManager.Clusters {
		want, ok := clusters[c.Name]
		verif.Assert(ok, "the dump holds a cluster that was not recorded or was removed (or one twice)")
		if ok {
			zzEq_v2_Cluster(h, want, c, "cluster")
			delete(clusters, c.Name)
		}
	}
	verif.Assert(len(srv.Routers) == len(routers), "the dump does not hold each recorded router exactly once")
	for _, r := range srv.Routers {
		if r == nil {
			verif.Assert(false, "the dump holds a null router")
			continue
		}
		want, ok := routers[r.RouterConfigName]
		verif.Assert(ok, "the dump holds a router that was not recorded (or one twice)")
		if ok {
			zzEq_v2_RouterConfiguration(h, want, *r, "router")
			delete(routers, r.RouterConfigName)
		}
	}
	verif.Assert(len(out.Extends) == len(extendOrder), "the dump does not hold each recorded extend exactly once")
	for i, e := range out.Extends {
		if i < len(extendOrder) {
			verif.Assert(e.Type == extendOrder[i], "the extends are not dumped in the order they were recorded")
			verif.Assert(!zzRawEmpty(e.Config), "an extend lost its configuration")
			var got map[string]string
			if json.Unmarshal(e.Config, &got) == nil {
				verif.Assert(got["zzk"] == extendVal[e.Type], "the dump holds a value of an extend that is not the one recorded last")
			} else {
				verif.Assert(false, "an extend's configuration does not load")
			}
		}
	}
	if len(srv.Routers) == 2 {
		verif.Cover("two routers")
	}
	if len(srv.Listeners) == 2 {
		verif.Cover("two listeners")
	}
	if len(out.ClusterManager.Clusters) == 2 {
		verif.Cover("two clusters")
	}
	verif.Cover("end")
}

// C19, lemma 2: load-time defaulting survives the dump. A cluster (listener) as the
// loader leaves it - ParseClusterConfig / ParseListenerConfig applied to an arbitrary
// generated value - is dumped, loaded again and passed through the same defaulting:
// the result equals the configuration the proxy was running with, field by field. A
// default that is applied on load but written out differently (or a clamp that is not
// a fixpoint) would make a restart from the persisted file differ from the running proxy.
func VerifC19_LoadDefaults() {
	zzStubResolve()
	h := &zzHv{flip: -1, mode: verif.Choose("shape", 2)}
	if verif.Choose("kind", 2) == 0 {
		c := zzHv_v2_Cluster(h)
		c.Name = "c"
		running, _ := ParseClusterConfig([]v2.Cluster{c})
		verif.Assert(len(running) == 1, "ParseClusterConfig lost the cluster")
		if len(running) != 1 {
			return
		}
		b, err := json.Marshal(running[0])
		verif.Assert(err == nil, "the dump fails")
		var loaded v2.Cluster
		if err != nil || json.Unmarshal(b, &loaded) != nil {
			verif.Assert(err != nil, "the dump does not load")
			return
		}
		again, _ := ParseClusterConfig([]v2.Cluster{loaded})
		verif.Assert(len(again) == 1, "ParseClusterConfig lost the reloaded cluster")
		if len(again) == 1 {
			zzEq_v2_Cluster(h, running[0], again[0], "cluster after restart")
		}
		verif.Cover("cluster")
	} else {
		l := zzMkListener(h, "l")
		l.Network = []string{"", "tcp", "TCP"}[verif.Choose("network", 3)]
		running := ParseListenerConfig(&l, nil, nil)
		b, err := json.Marshal(*running)
		verif.Assert(err == nil, "the dump fails")
		var loaded v2.Listener
		if err != nil || json.Unmarshal(b, &loaded) != nil {
			verif.Assert(err != nil, "the dump does not load")
			return
		}
		again := ParseListenerConfig(&loaded, nil, nil)
		zzEq_v2_Listener(h, *running, *again, "listener after restart")
		verif.Cover("listener")
	}
	verif.Cover("end")
}

//verif:pkg mosn.io/mosn/pkg/protocol/xprotocol/dubbo
package dubbo

import (
	"context"

	"mosn.io/api"
	"mosn.io/mosn/pkg/zzverif/verif"
	"mosn.io/pkg/buffer"
	"mosn.io/pkg/variable"
)

func zzCtx() context.Context {
	return variable.NewVariableContext(context.Background())
}

func zzReadBuffer(s []byte) api.IoBuffer {
	return buffer.NewIoBufferBytes(verif.WithStaleCap(s, 64))
}

// zzNoHessian: request frames that are not events hand their payload to the
// hessian2 library (getServiceAwareMeta), which is not encoded; they are
// outside this claim.
func zzNoHessian(flag byte) bool {
	return flag&0x20 != 0 || flag&0x80 == 0
}

// VerifC08_DubboArbitrary: arbitrary bytes into the dubbo decoder.
func VerifC08_DubboArbitrary() {
	verif.NoPanic()
	n := verif.Len("n", 0, verif.Param("N", 32, 48))
	s := verif.Bytes("s", n)
	verif.AllocLimit(n + 64)
	if n > 2 {
		verif.Assume(zzNoHessian(s[2]))
	}
	buf := zzReadBuffer(s)
	frame, err := dubboProtocol{}.Decode(zzCtx(), buf)
	left := buf.Len()
	switch {
	case frame == nil && err == nil:
		verif.Assert(left == n, "need-more must not consume")
		verif.Cover("need-more")
	case err != nil:
	default:
		verif.Assert(left < n, "a decoded frame must consume at least one byte (progress)")
		verif.Cover("frame")
	}
	verif.Assert(left <= n, "cannot consume more than delivered")
	verif.Assert(verif.StaleReads() == 0, "engine: decoder read bytes that were never received")
	verif.Cover("end")
}

type zzRec struct {
	consumed int
	raw      []byte
	id       uint64
	kind     int
}

func zzDecodeAll(ctx context.Context, buf api.IoBuffer, max int) (recs []zzRec, failed bool) {
	for i := 0; i < max; i++ {
		if buf.Len() == 0 {
			return
		}
		before := buf.Len()
		frame, err := dubboProtocol{}.Decode(ctx, buf)
		if frame == nil && err == nil {
			return
		}
		if err != nil {
			return recs, true
		}
		f := frame.(*Frame)
		recs = append(recs, zzRec{consumed: before - buf.Len(), id: f.GetRequestId(), kind: int(f.GetStreamType()), raw: append([]byte{}, f.rawData...)})
	}
	return
}

// zzFrame builds one well-formed dubbo frame from the documented layout:
// magic(2) flag status id(8) datalen(4) payload.
func zzFrame(tag string, maxBody int) []byte {
	ct := verif.Choose(tag+".ct", maxBody+1)
	b := verif.Bytes(tag, HeaderLen+ct)
	b[0], b[1] = 0xda, 0xbb
	verif.Assume(zzNoHessian(b[2]))
	b[12], b[13], b[14], b[15] = 0, 0, 0, byte(ct)
	return b
}

func VerifC07_DubboStream() {
	nf := 2
	var s []byte
	var lens []int
	for i := 0; i < nf; i++ {
		f := zzFrame("f"+string(rune('0'+i)), 3)
		lens = append(lens, len(f))
		s = append(s, f...)
	}
	n := len(s)
	cutc := verif.Concrete(verif.IntRange("cut", 0, n))
	buf := buffer.NewIoBufferBytes(verif.WithStaleCap(append([]byte{}, s[:cutc]...), 64))
	ctx := zzCtx()
	got, fail := zzDecodeAll(ctx, buf, 4)
	verif.Assert(!fail, "prefix of a valid stream failed to decode")
	complete, off := 0, 0
	for _, l := range lens {
		if off+l > cutc {
			break
		}
		complete++
		off += l
	}
	verif.Assert(len(got) == complete, "frames extracted from the prefix differ from the complete frames it holds")
	verif.Assert(buf.Len() == cutc-off, "an incomplete frame must consume nothing")
	buf.Write(s[cutc:])
	got2, fail2 := zzDecodeAll(ctx, buf, 4)
	verif.Assert(!fail2, "remainder of a valid stream failed to decode")
	got = append(got, got2...)
	verif.Assert(len(got) == nf && buf.Len() == 0, "every frame exactly once, no byte left")
	off = 0
	for i, l := range lens {
		if i < len(got) {
			verif.Assert(got[i].consumed == l && string(got[i].raw) == string(s[off:off+l]), "frame bytes attributed wrongly")
		}
		off += l
	}
	verif.Assert(verif.StaleReads() == 0, "engine: decoder read bytes that were never received")
	verif.Cover("end")
}

const zzIDField = 4

func zzCheckForwarded(out, orig []byte, id uint64) {
	verif.Assert(len(out) == len(orig), "forwarded frame length differs from the received frame")
	if len(out) != len(orig) {
		return
	}
	var diff byte
	for i := range orig {
		if i >= zzIDField && i < zzIDField+8 {
			diff |= out[i] ^ byte(id>>(8*uint(zzIDField+7-i)))
		} else {
			diff |= out[i] ^ orig[i]
		}
	}
	verif.Assert(diff == 0, "forwarded bytes differ from the received bytes outside the request-id field")
}

func VerifC01_DubboFast() {
	f := zzFrame("f", 4)
	orig := append([]byte{}, f...)
	rb := verif.WithStaleCap(f, 64)
	buf := buffer.NewIoBufferBytes(rb)
	ctx := zzCtx()
	frame, err := dubboProtocol{}.Decode(ctx, buf)
	verif.Assert(frame != nil && err == nil, "well-formed frame must decode")
	if frame == nil {
		return
	}
	id := verif.U64("id")
	frame.(api.XFrame).SetRequestId(id)
	verif.Havoc(rb)
	out, err := dubboProtocol{}.Encode(ctx, frame)
	verif.Assert(err == nil && out != nil, "encode of an unmodified frame failed")
	if out == nil {
		return
	}
	zzCheckForwarded(out.Bytes(), orig, id)
	verif.Cover("end")
}

// VerifC01_DubboSlow: the body is replaced before forwarding; what goes out
// must be the frame with the new body and a matching length field (or an
// error) - even when the read buffer has been reused meanwhile.
func VerifC01_DubboSlow() {
	f := zzFrame("f", 3)
	orig := append([]byte{}, f...)
	rb := verif.WithStaleCap(f, 64)
	ctx := zzCtx()
	frame, err := dubboProtocol{}.Decode(ctx, buffer.NewIoBufferBytes(rb))
	verif.Assert(frame != nil && err == nil, "well-formed frame must decode")
	if frame == nil {
		return
	}
	xf := frame.(api.XFrame)
	nb := verif.Bytes("nb", verif.Choose("nbl", 4))
	xf.SetData(buffer.NewIoBufferBytes(nb))
	id := verif.U64("id")
	xf.SetRequestId(id)
	verif.Havoc(rb)
	out, err := dubboProtocol{}.Encode(ctx, frame)
	if err != nil {
		return
	}
	wire := out.Bytes()
	verif.Cover("end") // before the assertions: a known finding ends the path at its assertion
	verif.Assert(len(wire) == HeaderLen+len(nb), "wire length is not header + new body")
	if len(wire) != HeaderLen+len(nb) {
		return
	}
	var diff byte
	for i := 0; i < 4; i++ {
		diff |= wire[i] ^ orig[i]
	}
	for i := 0; i < 8; i++ {
		diff |= wire[4+i] ^ byte(id>>(8*uint(7-i)))
	}
	diff |= wire[12] | wire[13] | wire[14] | (wire[15] ^ byte(len(nb)))
	for i := range nb {
		diff |= wire[HeaderLen+i] ^ nb[i]
	}
	verif.Assert(diff == 0, "re-encoded frame is not the modified frame (magic/flag/status, id, length, new body)")
}

// VerifC02_DubboIDWidth: the id handed to the stream table by
// GenerateRequestID is exactly the id read back from the wire after
// SetRequestId/Encode/Decode, and counters less than 2^63 apart give distinct ids.
func VerifC02_DubboIDWidth() {
	c := verif.U64("c")
	c0 := c
	id := dubboProtocol{}.GenerateRequestID(&c)
	verif.Assert(c == c0+1, "counter must advance by one")
	f := zzFrame("f", 1)
	ctx := zzCtx()
	frame, err := dubboProtocol{}.Decode(ctx, buffer.NewIoBufferBytes(verif.WithStaleCap(f, 64)))
	verif.Assume(frame != nil && err == nil)
	xf := frame.(api.XFrame)
	xf.SetRequestId(id)
	out, err := dubboProtocol{}.Encode(ctx, frame)
	verif.Assume(err == nil && out != nil)
	frame2, err := dubboProtocol{}.Decode(zzCtx(), buffer.NewIoBufferBytes(verif.WithStaleCap(append([]byte{}, out.Bytes()...), 64)))
	verif.Assert(frame2 != nil && err == nil, "frame with the generated id must decode")
	if frame2 == nil {
		return
	}
	verif.Assert(frame2.(api.XFrame).GetRequestId() == id, "id read from the wire differs from the id the stream table was given")
	d := verif.U64("d")
	verif.Assume(d != 0 && d>>63 == 0)
	c2 := c0 + d
	id2 := dubboProtocol{}.GenerateRequestID(&c2)
	verif.Assert(id2 != id, "two live counters map to the same wire id")
	verif.Cover("end")
}

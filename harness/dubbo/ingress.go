//verif:pkg mosn.io/mosn/pkg/protocol/xprotocol/dubbo
//verif:init github.com/dubbogo/gost/bytes
package dubbo

import (
	"encoding/binary"

	"mosn.io/mosn/pkg/types"
	"mosn.io/mosn/pkg/zzverif/verif"
	"mosn.io/pkg/buffer"
	"mosn.io/pkg/variable"
)

// the hessian2 encodings of values a peer may put where the argument-type descriptor belongs
var zzFifth = [][]byte{
	{0x00},           // empty string
	{0x02, 'L', ';'}, // a short string
	{'N'},            // null
	{'T'},            // true
	{0x90},           // int 0
	{0xe0},           // long 0
	{0x5b},           // double 0
	{'S', 0x00, 0x01, 'I'}, // string with explicit length
}

// VerifC08_DubboIngressRequest: a complete dubbo request frame decoded under an
// ingress_dubbo / egress_dubbo listener (the service-aware path that goes on into the
// arguments and attachments with the hessian2 library): framework version, path, version
// and method are short strings, the value in the place of the argument-type descriptor is
// any of 8 basic hessian2 values (string forms, null, bool, int, long, double), followed
// by nothing or one or two nulls (values that need reflection - lists, maps, objects - are
// outside the engine); the request id is arbitrary. Decode returns a frame or an
// error; it never panics.
func VerifC08_DubboIngressRequest() {
	verif.NoPanic()
	var payload []byte
	str := func(v string) {
		payload = append(payload, byte(len(v)))
		payload = append(payload, v...)
	}
	str("2.0.2")
	str("svc")
	str("1.0")
	str("m")
	payload = append(payload, zzFifth[verif.Choose("fifth_value", len(zzFifth))]...)
	// what follows: nothing, or one / two nulls (an argument, the attachments), or one arbitrary byte
	switch verif.Choose("tail", 3) {
	case 1:
		payload = append(payload, 'N')
	case 2:
		payload = append(payload, 'N', 'N')
	}
	hdr := make([]byte, HeaderLen)
	hdr[0], hdr[1] = 0xda, 0xbb
	hdr[2] = 0x80 | 0x40 | 2 // request, two-way, hessian2
	binary.BigEndian.PutUint64(hdr[IdIdx:], verif.U64("id"))
	binary.BigEndian.PutUint32(hdr[DataLenIdx:], uint32(len(payload)))
	frame := append(hdr, payload...)
	ctx := zzCtx()
	listener := []string{IngressDubbo, EgressDubbo, "other"}[verif.Choose("listener", 3)]
	variable.Set(ctx, types.VariableListenerName, listener)
	buf := buffer.NewIoBufferBytes(frame)
	f, err := dubboProtocol{}.Decode(ctx, buf)
	if err == nil && f != nil {
		verif.Assert(buf.Len() == 0, "a decoded frame must be consumed")
		verif.Cover("decoded")
	}
	if err != nil {
		verif.Cover("refused")
	}
	verif.Cover("end")
}

//verif:pkg mosn.io/mosn/pkg/admin/server
package server

import (
	jsoniter "github.com/json-iterator/go"
	"net/http"
	"net/url"
	"strings"

	v2 "mosn.io/mosn/pkg/config/v2"
	"mosn.io/mosn/pkg/configmanager"
	"mosn.io/mosn/pkg/zzverif/verif"
)

type zzRespWriter struct {
	bodies [][]byte
	status int
}

func (w *zzRespWriter) Header() http.Header { return http.Header{} }
func (w *zzRespWriter) Write(b []byte) (int, error) {
	w.bodies = append(w.bodies, b)
	return len(b), nil
}

// zzJSON stands in for the handler's JSON printer (json-iterator, a registry-driven library
// the engine does not initialise): it records the value it is handed.
type zzJSON struct {
	jsoniter.API
	handed *[]interface{}
}

func (j zzJSON) MarshalIndent(v interface{}, prefix, indent string) ([]byte, error) {
	*j.handed = append(*j.handed, v)
	return []byte("{}"), nil
}
func (w *zzRespWriter) WriteHeader(s int) { w.status = s }

func zzTLSKey(k string) v2.TLSConfig {
	return v2.TLSConfig{Status: true, PrivateKey: k, CertChain: "cert"}
}

// VerifC20_AdminConfigDump: the admin API's config_dump handler itself, for every form of the
// query it accepts (no parameter, mosnconfig, allrouters, allclusters, alllisteners, router=,
// cluster=, listener= with the name of an existing object). The running configuration holds
// an inline private key in a listener's filter chain, in a cluster's own tls_context and in
// the cluster manager's context. No answer contains the key. Under the engine the value
// handed to the JSON printer is inspected (every string position); natively the response
// bytes are searched.
func VerifC20_AdminConfigDump() {
	var handed []interface{}
	verif.Replace("mosn.io/mosn/pkg/configmanager.tryDump", func() {})
	verif.Replace("encoding/json.MarshalIndent", func(v interface{}, prefix, indent string) ([]byte, error) {
		handed = append(handed, v)
		return nil, nil
	})
	oldJSON := json
	json = zzJSON{handed: &handed}
	defer func() { json = oldJSON }()
	configmanager.Reset()
	k := verif.Str("key_preamble", verif.Choose("preamble_len", 2)) + "-----BEGIN" + verif.Str("key", 2)
	m := &v2.MOSNConfig{}
	m.ClusterManager.TLSContext = zzTLSKey(k)
	l := v2.Listener{}
	l.Name = "l0"
	l.FilterChains = []v2.FilterChain{{TLSContexts: []v2.TLSConfig{zzTLSKey(k)}}}
	m.Servers = []v2.ServerConfig{{Listeners: []v2.Listener{l}}}
	configmanager.SetMosnConfig(m)
	configmanager.SetListenerConfig(l)
	configmanager.SetClusterConfig(v2.Cluster{Name: "c0", TLS: zzTLSKey(k)})
	configmanager.SetClusterConfig(v2.Cluster{Name: "c1"})
	configmanager.SetRouter(v2.RouterConfiguration{RouterConfigurationConfig: v2.RouterConfigurationConfig{RouterConfigName: "r0"}})
	queries := []url.Values{{}, {"mosnconfig": {""}}, {"allrouters": {""}}, {"allclusters": {""}}, {"alllisteners": {""}},
		{"router": {"r0"}}, {"cluster": {"c0"}}, {"cluster": {"c1"}}, {"listener": {"l0"}}}
	q := queries[verif.Choose("query", len(queries))]
	w := &zzRespWriter{}
	ConfigDump(w, &http.Request{Method: http.MethodGet, Form: q, PostForm: url.Values{}})
	verif.Assert(w.status == 200, "a supported config_dump query was not answered")
	leak := 0
	if !verif.Symbolic() {
		for _, b := range w.bodies {
			leak += strings.Count(string(b), k)
		}
	}
	for _, v := range handed {
		leak += verif.CountString(v, k)
	}
	verif.Assert(leak == 0, "a config_dump answer holds the TLS private key")
	verif.Assert(len(w.bodies) == 1, "the answer was not written in one piece")
	verif.Cover("end")
}

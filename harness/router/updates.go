//verif:pkg mosn.io/mosn/pkg/router
package router

import (
	v2 "mosn.io/mosn/pkg/config/v2"
	"mosn.io/mosn/pkg/configmanager"
	"mosn.io/mosn/pkg/types"
	"mosn.io/mosn/pkg/zzverif/verif"
)

// zzUpdCfg builds one of two router configurations named "r": variant a has a
// default virtual host only, variant b has the exact domain "ab" first and a
// default second; cluster names identify the routes.
func zzUpdCfg(tag string, variant int) *v2.RouterConfiguration {
	cfg := &v2.RouterConfiguration{}
	cfg.RouterConfigName = "r"
	mk := func(name, domain, cluster, prefix string) v2.VirtualHost {
		r := v2.Router{}
		r.Match.Prefix = prefix
		r.Route.ClusterName = cluster
		return v2.VirtualHost{Name: name, Domains: []string{domain}, Routers: []v2.Router{r}}
	}
	if variant == 0 {
		cfg.VirtualHosts = []v2.VirtualHost{mk("d", "*", tag+"-d", "/")}
	} else {
		cfg.VirtualHosts = []v2.VirtualHost{mk("x", "ab", tag+"-x", "/p"), mk("d", "*", tag+"-d", "/")}
	}
	return cfg
}

func zzRecordedRouter(name string) (v2.RouterConfiguration, bool) {
	var out v2.RouterConfiguration
	found := false
	configmanager.HandleMOSNConfig(configmanager.CfgTypeRouter, func(v interface{}) {
		if m, ok := v.(map[string]v2.RouterConfiguration); ok {
			out, found = m[name]
		}
	})
	return out, found
}

// VerifC12_RouterUpdates: after any sequence of router updates, the live
// routing table answers every request exactly as a table rebuilt from the
// recorded configuration (what a restart would load) does.
func VerifC12_RouterUpdates() {
	configmanager.Reset()
	rm := &routersManagerImpl{}
	n := verif.Param("ops", 3, 4)
	added := 0
	for i := 0; i < n; i++ {
		switch verif.Choose("op", 6) {
		case 0:
			rm.AddOrUpdateRouters(zzUpdCfg("a"+string(rune('0'+i)), 0))
		case 1:
			rm.AddOrUpdateRouters(zzUpdCfg("b"+string(rune('0'+i)), 1))
		case 2:
			r := &v2.Router{}
			r.Match.Prefix = "/q"
			r.Route.ClusterName = "added" + string(rune('0'+added))
			added++
			rm.AddRoute("r", []string{"*", "ab"}[verif.Choose("add_domain", 2)], r)
		case 3:
			rm.RemoveAllRoutes("r", []string{"*", "ab"}[verif.Choose("rm_domain", 2)])
		case 4:
			bad := &v2.RouterConfiguration{} // an update without virtual hosts (RDS sends these)
			bad.RouterConfigName = "r"
			rm.AddOrUpdateRouters(bad)
		default:
		}
	}
	w := rm.GetRouterWrapperByName("r")
	rec, found := zzRecordedRouter("r")
	verif.Assert((w != nil) == found, "router known to the manager but not recorded (or the reverse)")
	if w == nil {
		return
	}
	live := w.GetRouters()
	fresh, err := NewRouters(&rec)
	if live == nil {
		verif.Assert(err != nil, "live table is empty but the recorded configuration builds a table")
		verif.Cover("empty")
		return
	}
	verif.Assert(err == nil && fresh != nil, "recorded configuration does not build although a live table exists")
	if fresh == nil {
		return
	}
	host := []string{"", "ab", "zz"}[verif.Choose("host", 3)]
	path := "/" + zzLetters("path", verif.Choose("pl", 2), "pq")
	gl := zzMatch(live, host, path, "x")
	gf := zzMatch(fresh, host, path, "x")
	verif.Assert(gl == gf, "live routing table and the table rebuilt from the recorded configuration disagree")
	wc := w.GetRoutersConfig()
	verif.Assert(len(wc.VirtualHosts) == len(rec.VirtualHosts), "wrapper configuration and recorded configuration differ")
	for i := range wc.VirtualHosts {
		if i < len(rec.VirtualHosts) {
			verif.Assert(len(wc.VirtualHosts[i].Routers) == len(rec.VirtualHosts[i].Routers), "route lists of wrapper and recorded configuration differ")
		}
	}
	if gl != "" {
		verif.Cover("matched")
	}
	verif.Cover("end")
}

var _ types.Routers

// VerifC12_SwapAtomic: a lookup that runs concurrently with a router update
// answers from the old table or from the new one - never from neither.
func VerifC12_SwapAtomic() {
	verif.Switches(verif.Param("switches", 3, 4))
	configmanager.Reset()
	rm := &routersManagerImpl{}
	rm.AddOrUpdateRouters(zzUpdCfg("a", 0))
	w := rm.GetRouterWrapperByName("r")
	tries := 1
	if !verif.Symbolic() {
		tries = 200
	}
	for t := 0; t < tries; t++ {
		got := ""
		done := make(chan struct{}, 2)
		go func() { rm.AddOrUpdateRouters(zzUpdCfg("b", 1)); done <- struct{}{} }()
		go func() { got = zzMatch(w.GetRouters(), "ab", "/p", "x"); done <- struct{}{} }()
		<-done
		<-done
		verif.Assert(got == "a-d" || got == "b-x", "a lookup concurrent with an update saw neither the old nor the new table")
		after := zzMatch(w.GetRouters(), "ab", "/p", "x")
		verif.Assert(after == "b-x", "the last update must win")
		rm.AddOrUpdateRouters(zzUpdCfg("a", 0))
	}
	verif.Cover("end")
}

//verif:pkg mosn.io/mosn/pkg/router
package router

import (
	"context"
	"net"

	gometrics "github.com/rcrowley/go-metrics"
	"mosn.io/api"
	v2 "mosn.io/mosn/pkg/config/v2"
	"mosn.io/mosn/pkg/types"
	"mosn.io/mosn/pkg/upstream/cluster"
	"mosn.io/mosn/pkg/zzverif/verif"
	"mosn.io/pkg/variable"
)

type zzCGauge struct{ n int64 }

func (g *zzCGauge) Snapshot() gometrics.Gauge { return g }
func (g *zzCGauge) Update(v int64)            { g.n = v }
func (g *zzCGauge) Value() int64              { return g.n }

type zzCCounter struct{ n int64 }

func (c *zzCCounter) Clear()                      { c.n = 0 }
func (c *zzCCounter) Count() int64                { return c.n }
func (c *zzCCounter) Dec(i int64)                 { c.n -= i }
func (c *zzCCounter) Inc(i int64)                 { c.n += i }
func (c *zzCCounter) Snapshot() gometrics.Counter { return c }

type zzCInfo struct {
	types.ClusterInfo
	sub types.LBSubsetInfo
	st  *types.ClusterStats
}

func (i *zzCInfo) Name() string                     { return "c" }
func (i *zzCInfo) LbType() types.LoadBalancerType   { return types.RoundRobin }
func (i *zzCInfo) LbSubsetInfo() types.LBSubsetInfo { return i.sub }
func (i *zzCInfo) Stats() *types.ClusterStats       { return i.st }
func (i *zzCInfo) SlowStart() types.SlowStart       { return types.SlowStart{} }
func (i *zzCInfo) LbConfig() *v2.LbConfig           { return nil }

type zzCHost struct {
	types.Host
	name string
	meta api.Metadata
}

func (h *zzCHost) Health() bool           { return true }
func (h *zzCHost) Weight() uint32         { return 10 }
func (h *zzCHost) AddressString() string  { return h.name }
func (h *zzCHost) Hostname() string       { return h.name }
func (h *zzCHost) Metadata() api.Metadata { return h.meta }

type zzCLbCtx struct {
	ctx  context.Context
	crit api.MetadataMatchCriteria
}

func (c *zzCLbCtx) MetadataMatchCriteria() api.MetadataMatchCriteria { return c.crit }
func (c *zzCLbCtx) DownstreamConnection() net.Conn                   { return nil }
func (c *zzCLbCtx) DownstreamHeaders() api.HeaderMap                 { return nil }
func (c *zzCLbCtx) DownstreamContext() context.Context               { return c.ctx }
func (c *zzCLbCtx) DownstreamCluster() types.ClusterInfo             { return nil }
func (c *zzCLbCtx) DownstreamRoute() api.Route                       { return nil }

// VerifC15_RouteCriteriaReachSubset: the match criteria the router builds
// from a route's metadata_match (two keys from a catalogue with mixed case,
// so that byte-wise and case-insensitive orders differ) find the subset the
// balancer built for a selector over the same keys: the request is only sent
// to hosts carrying both pairs and HostNum is their number, with both subset
// builders. Also: the criteria come out in strictly ascending byte-wise key
// order, which is the order the subset trie is keyed in.
func VerifC15_RouteCriteriaReachSubset() {
	keys := []string{"Zone", "app", "B", "zone"}
	k1 := keys[verif.Choose("key1", len(keys))]
	k2 := keys[verif.Choose("key2", len(keys))]
	verif.Assume(k1 != k2)
	crit := NewMetadataMatchCriteriaImpl(map[string]string{k1: "x", k2: "y"})
	arr := crit.MetadataMatchCriteria()
	verif.Assert(len(arr) == 2, "two criteria expected")
	if len(arr) != 2 {
		return
	}
	verif.Assert(arr[0].MetadataKeyName() < arr[1].MetadataKeyName(), "route match criteria are not in ascending byte-wise key order (the order of the subset trie)")
	hs := []types.Host{
		&zzCHost{name: "h0", meta: api.Metadata{k1: "x", k2: "y"}},
		&zzCHost{name: "h1", meta: api.Metadata{k1: "x", k2: "other"}},
		&zzCHost{name: "h2", meta: api.Metadata{k1: "other", k2: "y"}},
	}
	cfg := &v2.LBSubsetConfig{FallBackPolicy: uint8(verif.Choose("fallback", 2)), SubsetSelectors: [][]string{{k1, k2}}}
	info := &zzCInfo{sub: cluster.NewLBSubsetInfo(cfg), st: &types.ClusterStats{LBSubSetsFallBack: &zzCCounter{}, LBSubsetsCreated: &zzCGauge{}}}
	for variant := 0; variant < 2; variant++ {
		var lb types.LoadBalancer
		if variant == 0 {
			lb = cluster.NewSubsetLoadBalancer(info, cluster.NewHostSet(hs))
		} else {
			lb = cluster.NewSubsetLoadBalancerPreIndex(info, cluster.NewHostSet(hs))
		}
		ctx := &zzCLbCtx{ctx: variable.NewVariableContext(context.Background()), crit: crit}
		verif.Assert(lb.HostNum(crit) == 1, "the subset for the route's criteria was not found (HostNum is not the number of matching hosts)")
		for i := 0; i < 2; i++ {
			verif.Assert(lb.ChooseHost(ctx) == hs[0], "a request with route criteria was not sent to the one host carrying every pair")
		}
	}
	verif.Cover("end")
}

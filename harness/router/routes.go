//verif:pkg mosn.io/mosn/pkg/router
package router

import (
	"context"
	"strings"

	v2 "mosn.io/mosn/pkg/config/v2"
	"mosn.io/mosn/pkg/protocol"
	"mosn.io/mosn/pkg/types"
	"mosn.io/mosn/pkg/zzverif/verif"
	"mosn.io/pkg/variable"
)

// zzLetters returns n symbolic bytes, each restricted to the given alphabet.
func zzLetters(tag string, n int, alphabet string) string {
	s := verif.Str(tag, n)
	for i := 0; i < n; i++ {
		ok := false
		for j := 0; j < len(alphabet); j++ {
			ok = ok || s[i] == alphabet[j]
		}
		verif.Assume(ok)
	}
	return s
}

type zzDomain struct {
	kind int    // 0 default "*", 1 exact host, 2 wildcard suffix "*s"
	name string // host or suffix, as configured (case preserved)
	port string // "" (none), "80", "*"
}

func (d zzDomain) String() string {
	s := "*"
	switch d.kind {
	case 1:
		s = d.name
	case 2:
		s = "*" + d.name
	}
	if d.port != "" {
		s += ":" + d.port
	}
	return s
}

func zzLower(s string) string {
	b := []byte(s)
	for i := range b {
		if b[i] >= 'A' && b[i] <= 'Z' {
			b[i] += 'a' - 'A'
		}
	}
	return string(b)
}

// zzCase returns s with every letter in arbitrary (symbolic) case.
func zzCase(tag, s string) string {
	b := []byte(s)
	for i := range b {
		if verif.Bool(tag) {
			b[i] -= 'a' - 'A'
		}
	}
	return string(b)
}

// zzMakeDomain picks a domain from a catalogue built around the request host
// "ab": exact match, exact non-match, matching suffixes of both lengths, a
// non-matching suffix, a too-long suffix, or the default - each with no port,
// port 80 or any port, and letters in arbitrary case.
func zzMakeDomain(tag string) zzDomain {
	d := zzDomain{}
	switch verif.Choose(tag+".port", 3) {
	case 1:
		d.port = "80"
	case 2:
		d.port = "*"
	}
	shape := 0
	if verif.Tier() == 0 {
		shape = []int{0, 1, 3, 4, 6}[verif.Choose(tag+".shape", 5)] // quick: without the two never-matching entries
	} else {
		shape = verif.Choose(tag+".shape", 7)
	}
	switch shape {
	case 0:
		d.kind = 0
	case 1:
		d.kind, d.name = 1, zzCase(tag+".case", "ab")
	case 2:
		d.kind, d.name = 1, "ac"
	case 3:
		d.kind, d.name = 2, zzCase(tag+".case", "b")
	case 4:
		d.kind, d.name = 2, "ab" // not strictly shorter than the host: must not match "ab"
	case 5:
		d.kind, d.name = 2, "c"
	default:
		d.kind, d.name = 2, "" // "*:port": the empty suffix
	}
	// "*" and "*:*" are the default; "*:80" is the empty suffix on port 80
	if (d.kind == 0 || (d.kind == 2 && d.name == "")) && (d.port == "" || d.port == "*") {
		d.kind, d.name = 0, ""
	} else if d.kind == 0 {
		d.kind, d.name = 2, ""
	}
	return d
}

// zzRefVhost is the documented precedence, written over the configuration:
// exact host+port, exact host+any port, longest matching suffix+port, longest
// suffix+any port, default. Host names compare case-insensitively (ASCII); a
// missing port is the port "".
func zzRefVhost(doms []zzDomain, host, port string) int {
	host = zzLower(host)
	best := -1
	for i, d := range doms { // 1
		if d.kind == 1 && zzLower(d.name) == host && d.port == port && d.port != "*" {
			return i
		}
	}
	for i, d := range doms { // 2
		if d.kind == 1 && zzLower(d.name) == host && d.port == "*" {
			return i
		}
	}
	for _, wantStar := range []bool{false, true} { // 3, 4
		best = -1
		for i, d := range doms {
			if d.kind != 2 || (d.port == "*") != wantStar {
				continue
			}
			if !wantStar && d.port != port {
				continue
			}
			sfx := zzLower(d.name)
			if len(host) > len(sfx) && strings.HasSuffix(host, sfx) {
				if best < 0 || len(sfx) > len(zzLower(doms[best].name)) {
					best = i
				}
			}
		}
		if best >= 0 {
			return best
		}
	}
	for i, d := range doms { // 5
		if d.kind == 0 && (d.port == "" || d.port == "*") {
			return i
		}
	}
	return -1
}

type zzRouteCfg struct {
	prefix bool
	arg    string
	hdr    string // required value of header "h" ("" = no header condition)
	method string // required request method ("" = no method condition)
	regex  string // path regular expression (overrides prefix/arg when set)
}

func zzBuild(doms []zzDomain, routes [][]zzRouteCfg) *v2.RouterConfiguration {
	cfg := &v2.RouterConfiguration{}
	for i, d := range doms {
		vh := v2.VirtualHost{Name: "vh" + string(rune('0'+i)), Domains: []string{d.String()}}
		for j, rc := range routes[i] {
			r := v2.Router{}
			if rc.regex != "" {
				r.Match.Regex = rc.regex
			} else if rc.prefix {
				r.Match.Prefix = rc.arg
			} else {
				r.Match.Path = rc.arg
			}
			if rc.hdr != "" {
				r.Match.Headers = append(r.Match.Headers, v2.HeaderMatcher{Name: "h", Value: rc.hdr})
			}
			if rc.method != "" {
				r.Match.Headers = append(r.Match.Headers, v2.HeaderMatcher{Name: "method", Value: rc.method})
			}
			r.Route.ClusterName = "c" + string(rune('0'+i)) + string(rune('0'+j))
			vh.Routers = append(vh.Routers, r)
		}
		cfg.VirtualHosts = append(cfg.VirtualHosts, vh)
	}
	return cfg
}

func zzRefRoute(vh int, rcs []zzRouteCfg, path, hv, method string) string {
	for j, rc := range rcs {
		m := false
		if rc.regex != "" {
			m = zzRegexP(path) // the only regular expression configured is zzRegexPSrc
		} else if rc.prefix {
			m = strings.HasPrefix(path, rc.arg)
		} else {
			m = zzLower(path) == zzLower(rc.arg)
		}
		if m && (rc.hdr == "" || rc.hdr == hv) && (rc.method == "" || rc.method == method) {
			return "c" + string(rune('0'+vh)) + string(rune('0'+j))
		}
	}
	return ""
}

func zzMatch(rs types.Routers, hostHeader, path, hv string) string {
	return zzMatchM(rs, hostHeader, path, hv, "")
}

// zzMatchM: method "" leaves the method variable unset.
func zzMatchM(rs types.Routers, hostHeader, path, hv, method string) string {
	ctx := variable.NewVariableContext(context.Background())
	if hostHeader != "" {
		variable.SetString(ctx, types.VarHost, hostHeader)
	}
	variable.SetString(ctx, types.VarPath, path)
	if method != "" {
		variable.SetString(ctx, types.VarMethod, method)
	}
	got := ""
	if r := rs.MatchRoute(ctx, protocol.CommonHeader{"h": hv}); r != nil {
		got = r.RouteRule().ClusterName(ctx)
	}
	return got
}

// VerifC04_VirtualHost: virtual-host precedence (1-5) and host-name case
// folding against a reference written over the configuration; every virtual
// host has one catch-all route.
func VerifC04_VirtualHost() {
	nv := verif.Param("vhosts", 2, 2)
	var doms []zzDomain
	var routes [][]zzRouteCfg
	for i := 0; i < nv; i++ {
		doms = append(doms, zzMakeDomain("d"+string(rune('0'+i))))
		routes = append(routes, []zzRouteCfg{{prefix: true, arg: "/"}})
	}
	rs, err := NewRouters(zzBuild(doms, routes))
	verif.Assume(err == nil) // rejected configurations (duplicate domains/defaults) are out of scope
	host := ""
	switch verif.Choose("hostshape", 4) {
	case 1:
		host = zzCase("hostcase", "ab")
	case 2:
		host = "b"
	case 3:
		host = "xab"
	}
	port := ""
	switch verif.Choose("reqport", 3) {
	case 1:
		port = "80"
	case 2:
		port = "81"
	}
	hostHeader := host
	if port != "" && host != "" {
		hostHeader += ":" + port
	}
	wantVh := -1
	if hostHeader != "" {
		wantVh = zzRefVhost(doms, host, port)
		verif.Cover("with-host")
	} else {
		verif.Cover("no-host")
		for i, d := range doms { // precedence 5: only the default can apply to a request without Host
			if d.kind == 0 && (d.port == "" || d.port == "*") {
				wantVh = i
			}
		}
	}
	want := ""
	if wantVh >= 0 {
		want = "c" + string(rune('0'+wantVh)) + "0"
	}
	got := zzMatch(rs, hostHeader, "/p", "x")
	if hostHeader == "" {
		verif.Assert(got == want, "request without Host: the default virtual host (precedence 5) must apply, and nothing else")
	} else {
		verif.Assert(got == want, "selected virtual host differs from the documented precedence 1-5")
	}
	verif.Assert(zzMatch(rs, hostHeader, "/p", "x") == got, "route selection is not deterministic")
	verif.Cover("end")
}

// VerifC04_RouteOrder: inside the selected virtual host the first route in
// configuration order whose matchers all hold is used (exact path compares
// case-insensitively, prefix and header values exactly).
func VerifC04_RouteOrder() {
	nr := 1 + verif.Choose("nr", verif.Param("routes", 2, 3))
	var rcs []zzRouteCfg
	for j := 0; j < nr; j++ {
		rc := zzRouteCfg{prefix: verif.Choose("isprefix", 2) == 1, arg: "/" + zzLetters("arg", verif.Choose("al", 2), "pP")}
		if verif.Choose("hashdr", 2) == 1 {
			rc.hdr = zzLetters("hv", 1, "xy")
		}
		rcs = append(rcs, rc)
	}
	doms := []zzDomain{{kind: 0}}
	rs, err := NewRouters(zzBuild(doms, [][]zzRouteCfg{rcs}))
	verif.Assume(err == nil)
	path := "/" + zzLetters("path", verif.Choose("pl", 3), "pP")
	hv := zzLetters("reqhv", 1, "xy")
	want := zzRefRoute(0, rcs, path, hv, "")
	got := zzMatch(rs, "a", path, hv)
	verif.Assert(got == want, "selected route is not the first matching route in configuration order")
	if want != "" {
		verif.Cover("matched")
	}
	verif.Cover("end")
}

// VerifC04_RouteMethod: a route's method condition (configured as the header
// matcher named "method") holds only for requests whose method variable
// equals it, alone or together with an ordinary header condition; the first
// route in configuration order whose matchers all hold is used. Routes are
// catch-all prefixes or the regular expression ^/p.*$ (regex rules have their own Match).
func VerifC04_RouteMethod() {
	nr := 1 + verif.Choose("nr", verif.Param("mroutes", 2, 3))
	var rcs []zzRouteCfg
	for j := 0; j < nr; j++ {
		rc := zzRouteCfg{prefix: true, arg: "/"}
		if verif.Choose("regex_route", 2) == 1 {
			rc.regex = zzRegexPSrc
		}
		if verif.Choose("hashdr", 2) == 1 {
			rc.hdr = "x"
		}
		rc.method = []string{"", "GET", "POST"}[verif.Choose("cfg_method", 3)]
		rcs = append(rcs, rc)
	}
	rs, err := NewRouters(zzBuild([]zzDomain{{kind: 0}}, [][]zzRouteCfg{rcs}))
	verif.Assume(err == nil)
	hv := zzLetters("reqhv", 1, "xy")
	method := []string{"", "GET", "POST", "get"}[verif.Choose("req_method", 4)] // "" = no method variable (non-HTTP protocol)
	path := []string{"/p", "/pq", "/q"}[verif.Choose("req_path", 3)]
	want := zzRefRoute(0, rcs, path, hv, method)
	got := zzMatchM(rs, "a", path, hv, method)
	verif.Assert(got == want, "selected route ignores or misapplies a method condition")
	if want != "" {
		verif.Cover("matched")
	}
	verif.Cover("end")
}

// VerifC04_RPCRule: header-only (RPC) routes, including the "service" key
// that selects the fast-match mode: every condition of a route must hold
// (conjunction), whatever the order of its conditions, and the first such
// route in configuration order wins.
func VerifC04_RPCRule() {
	nr := 1 + verif.Choose("nr", verif.Param("rpcroutes", 2, 3))
	type cond struct{ k, v string }
	var rules [][]cond
	vh := v2.VirtualHost{Name: "vh", Domains: []string{"*"}}
	for j := 0; j < nr; j++ {
		var cs []cond
		switch verif.Choose("shape", 5) {
		case 0:
			cs = []cond{{"service", zzLetters("sv", 1, "ST")}}
		case 1:
			cs = []cond{{"zone", zzLetters("zv", 1, "ab")}}
		case 2:
			cs = []cond{{"service", zzLetters("sv", 1, "ST")}, {"zone", zzLetters("zv", 1, "ab")}}
		case 3:
			cs = []cond{{"zone", zzLetters("zv", 1, "ab")}, {"service", zzLetters("sv", 1, "ST")}}
		default:
			cs = []cond{{"service", ".*"}, {"zone", zzLetters("zv", 1, "ab")}}
		}
		r := v2.Router{}
		for _, c := range cs {
			r.Match.Headers = append(r.Match.Headers, v2.HeaderMatcher{Name: c.k, Value: c.v, Regex: c.v == ".*"})
		}
		r.Route.ClusterName = "c" + string(rune('0'+j))
		vh.Routers = append(vh.Routers, r)
		rules = append(rules, cs)
	}
	rs, err := NewRouters(&v2.RouterConfiguration{VirtualHosts: []v2.VirtualHost{vh}})
	verif.Assume(err == nil)
	hdr := protocol.CommonHeader{}
	if verif.Choose("has_service", 2) == 1 {
		hdr["service"] = zzLetters("req_service", 1, "ST")
	}
	if verif.Choose("has_zone", 2) == 1 {
		hdr["zone"] = zzLetters("req_zone", 1, "ab")
	}
	want := ""
	for j, cs := range rules {
		all := true
		for _, c := range cs {
			v, ok := hdr[c.k]
			if !ok || (c.v != ".*" && v != c.v) {
				all = false
			}
		}
		if all {
			want = "c" + string(rune('0'+j))
			break
		}
	}
	ctx := variable.NewVariableContext(context.Background())
	got := ""
	if r := rs.MatchRoute(ctx, hdr); r != nil {
		got = r.RouteRule().ClusterName(ctx)
	}
	verif.Assert(got == want, "selected RPC route is not the first route all of whose header conditions hold")
	if want != "" {
		verif.Cover("matched")
	}
	verif.Cover("end")
}

// zzRegexPSrc is the one path regular expression the harnesses configure; zzRegexP is its meaning.
const zzRegexPSrc = "^/p.*$"

func zzRegexP(path string) bool { return strings.HasPrefix(path, "/p") }

// VerifC04_VariableRule: a variable route (conditions on request variables
// joined by "and" / "or", evaluated left to right: an "or" item closes a group
// of and-ed items) followed by a catch-all route. The variable route is
// chosen exactly when one of its groups holds entirely - in particular not
// when every group fails and the last item happens to be marked "or".
func VerifC04_VariableRule() {
	n := 1 + verif.Choose("items", verif.Param("varitems", 2, 3))
	type item struct {
		name, value string
		or          bool
	}
	var items []item
	r := v2.Router{}
	for i := 0; i < n; i++ {
		it := item{name: []string{types.VarMethod, types.VarHost}[verif.Choose("var", 2)], value: zzLetters("want", 1, "AB"), or: verif.Choose("or", 2) == 1}
		items = append(items, it)
		m := v2.VariableMatcher{Name: it.name, Value: it.value}
		switch {
		case it.or:
			m.Model = "or"
		case verif.Tier() == 1 && verif.Choose("explicit_and", 2) == 1:
			m.Model = "and"
		}
		r.Match.Variables = append(r.Match.Variables, m)
	}
	r.Route.ClusterName = "variable"
	all := v2.Router{}
	all.Match.Prefix = "/"
	all.Route.ClusterName = "catchall"
	rs, err := NewRouters(&v2.RouterConfiguration{VirtualHosts: []v2.VirtualHost{{Name: "vh", Domains: []string{"*"}, Routers: []v2.Router{r, all}}}})
	verif.Assume(err == nil)
	method, host := zzLetters("method", 1, "AB"), zzLetters("host", 1, "AB")
	ctx := variable.NewVariableContext(context.Background())
	variable.SetString(ctx, types.VarMethod, method)
	variable.SetString(ctx, types.VarHost, host)
	variable.SetString(ctx, types.VarPath, "/p")
	// reference: a disjunction of and-groups, a group ends at an "or" item or at the end of the list
	holds := func(it item) bool {
		if it.name == types.VarMethod {
			return it.value == method
		}
		return it.value == host
	}
	want := "catchall"
	group := true
	for i, it := range items {
		group = group && holds(it)
		if it.or || i == len(items)-1 {
			if group {
				want = "variable"
				break
			}
			group = true
		}
	}
	got := ""
	if rt := rs.MatchRoute(ctx, protocol.CommonHeader{}); rt != nil {
		got = rt.RouteRule().ClusterName(ctx)
	}
	verif.Assert(got == want, "a variable route was chosen although none of its condition groups holds (or skipped although one holds)")
	verif.Cover("end")
}

//verif:pkg mosn.io/mosn/pkg/router
package router

import (
	"context"

	v2 "mosn.io/mosn/pkg/config/v2"
	"mosn.io/mosn/pkg/protocol"
	"mosn.io/mosn/pkg/types"
	"mosn.io/mosn/pkg/zzverif/verif"
	"mosn.io/pkg/variable"
)

type zzHdrOps struct {
	hasAdd bool
	key    string
	val    string
	app    bool
	remove string // "" = none
}

var zzHdrKeys = []string{"k1", "k2"}

func zzMakeOps(tag string) (zzHdrOps, []*v2.HeaderValueOption, []string) {
	o := zzHdrOps{val: tag[:1]}
	if verif.Tier() == 0 {
		// quick: six representative operations per level
		switch verif.Choose(tag+".op", 6) {
		case 1:
			o.hasAdd, o.key, o.app = true, "k1", false
		case 2:
			o.hasAdd, o.key, o.app = true, "k1", true
		case 3:
			o.hasAdd, o.key, o.app = true, "k2", true
		case 4:
			o.remove = "k1"
		case 5:
			o.hasAdd, o.key, o.app, o.remove = true, "k1", true, "k2"
		}
	} else {
		o.hasAdd = verif.Choose(tag+".add", 2) == 1
		if o.hasAdd {
			o.key = zzHdrKeys[verif.Choose(tag+".key", 2)]
			o.app = verif.Choose(tag+".append", 2) == 1
		}
		switch verif.Choose(tag+".rm", 3) {
		case 1:
			o.remove = "k1"
		case 2:
			o.remove = "k2"
		}
	}
	var adds []*v2.HeaderValueOption
	if o.hasAdd {
		app := o.app
		adds = []*v2.HeaderValueOption{{Header: &v2.HeaderValue{Key: o.key, Value: o.val}, Append: &app}}
	}
	var rm []string
	if o.remove != "" {
		rm = []string{o.remove}
	}
	return o, adds, rm
}

func zzApplyOps(h map[string]string, o zzHdrOps) {
	if o.hasAdd {
		v := o.val
		if old, ok := h[o.key]; ok && len(old) > 0 && o.app {
			v = old + "," + o.val
		}
		h[o.key] = v
	}
	if o.remove != "" {
		delete(h, o.remove)
	}
}

// VerifC17_HeaderMutation: request and response header additions (append or
// overwrite) and removals are applied at route, virtual-host and router level,
// in that order, additions before removals within a level.
func VerifC17_HeaderMutation() {
	response := verif.Choose("direction", 2) == 1
	ro, radd, rrm := zzMakeOps("route")
	vo, vadd, vrm := zzMakeOps("vhost")
	gop, gadd, grm := zzMakeOps("global")
	r := v2.Router{}
	r.Match.Prefix = "/"
	r.Route.ClusterName = "c"
	vh := v2.VirtualHost{Name: "vh", Domains: []string{"*"}}
	cfg := &v2.RouterConfiguration{}
	if response {
		r.Route.ResponseHeadersToAdd, r.Route.ResponseHeadersToRemove = radd, rrm
		vh.ResponseHeadersToAdd, vh.ResponseHeadersToRemove = vadd, vrm
		cfg.ResponseHeadersToAdd, cfg.ResponseHeadersToRemove = gadd, grm
	} else {
		r.Route.RequestHeadersToAdd, r.Route.RequestHeadersToRemove = radd, rrm
		vh.RequestHeadersToAdd, vh.RequestHeadersToRemove = vadd, vrm
		cfg.RequestHeadersToAdd, cfg.RequestHeadersToRemove = gadd, grm
	}
	vh.Routers = []v2.Router{r}
	cfg.VirtualHosts = []v2.VirtualHost{vh}
	rs, err := NewRouters(cfg)
	verif.Assume(err == nil)
	ctx := variable.NewVariableContext(context.Background())
	variable.SetString(ctx, types.VarPath, "/x")
	headers := protocol.CommonHeader{}
	want := map[string]string{}
	switch verif.Choose("init_k1", 3) { // absent, present but empty, present
	case 1:
		headers["k1"], want["k1"] = "", ""
	case 2:
		headers["k1"], want["k1"] = "i", "i"
	}
	route := rs.MatchRoute(ctx, headers)
	verif.Assert(route != nil, "catch-all route must match")
	if route == nil {
		return
	}
	if response {
		route.RouteRule().FinalizeResponseHeaders(ctx, headers, nil)
	} else {
		route.RouteRule().FinalizeRequestHeaders(ctx, headers, nil)
	}
	zzApplyOps(want, ro)
	zzApplyOps(want, vo)
	zzApplyOps(want, gop)
	for _, k := range zzHdrKeys {
		gv, gok := headers[k]
		wv, wok := want[k]
		verif.Assert(gok == wok && gv == wv, "header "+k+" after route/vhost/router mutations differs from the configured order and append semantics")
	}
	verif.Cover("end")
}

// VerifC17_PrefixRewrite: a prefix route with prefix_rewrite turns
// prefix+rest into rewrite+rest, records the original path, and leaves a path
// without the prefix alone.
func VerifC17_PrefixRewrite() {
	prefix := "/" + zzLetters("prefix", verif.Choose("pl", 2), "pq")
	rewrite := "/" + zzLetters("rewrite", verif.Choose("rl", 2), "rs")
	r := v2.Router{}
	r.Match.Prefix = prefix
	r.Route.ClusterName = "c"
	r.Route.PrefixRewrite = rewrite
	cfg := &v2.RouterConfiguration{VirtualHosts: []v2.VirtualHost{{Name: "vh", Domains: []string{"*"}, Routers: []v2.Router{r}}}}
	rs, err := NewRouters(cfg)
	verif.Assume(err == nil)
	path := "/" + zzLetters("path", verif.Choose("pathlen", 3), "pq")
	ctx := variable.NewVariableContext(context.Background())
	variable.SetString(ctx, types.VarPath, path)
	headers := protocol.CommonHeader{}
	route := rs.MatchRoute(ctx, headers)
	has := len(path) >= len(prefix) && path[:len(prefix)] == prefix
	verif.Assert((route != nil) == has, "prefix route matches exactly the paths that start with the prefix")
	if route == nil {
		return
	}
	route.RouteRule().FinalizeRequestHeaders(ctx, headers, nil)
	got, _ := variable.GetString(ctx, types.VarPath)
	verif.Assert(got == rewrite+path[len(prefix):], "rewritten path is not rewrite + remainder")
	orig, ok := headers.Get(types.HeaderOriginalPath)
	verif.Assert(ok && orig == path, "original path must be recorded")
	verif.Cover("end")
}

// VerifC17_HeaderAddList: a headers_to_add list of several entries at one
// level is applied entry by entry in configuration order; each entry appends
// ("old,new") when its append flag is true or unset (the documented default)
// and the header already has a non-empty value, and overwrites otherwise.
// Keys are configured in mixed case and matched in lower case.
func VerifC17_HeaderAddList() {
	response := verif.Choose("direction", 2) == 1
	n := 2 + verif.Choose("entries", verif.Param("addlist", 1, 2))
	var adds []*v2.HeaderValueOption
	type op struct {
		key, val string
		app      bool
	}
	var ops []op
	for i := 0; i < n; i++ {
		o := op{key: zzHdrKeys[verif.Choose("key", 2)], val: string(rune('a' + i)), app: true}
		opt := &v2.HeaderValueOption{Header: &v2.HeaderValue{Key: "K" + o.key[1:], Value: o.val}}
		switch verif.Choose("append", 3) { // unset, true, false
		case 1:
			t := true
			opt.Append = &t
		case 2:
			f := false
			opt.Append = &f
			o.app = false
		}
		adds = append(adds, opt)
		ops = append(ops, o)
	}
	r := v2.Router{}
	r.Match.Prefix = "/"
	r.Route.ClusterName = "c"
	vh := v2.VirtualHost{Name: "vh", Domains: []string{"*"}}
	cfg := &v2.RouterConfiguration{}
	level := verif.Choose("level", 3)
	switch {
	case level == 0 && response:
		r.Route.ResponseHeadersToAdd = adds
	case level == 0:
		r.Route.RequestHeadersToAdd = adds
	case level == 1 && response:
		vh.ResponseHeadersToAdd = adds
	case level == 1:
		vh.RequestHeadersToAdd = adds
	case response:
		cfg.ResponseHeadersToAdd = adds
	default:
		cfg.RequestHeadersToAdd = adds
	}
	vh.Routers = []v2.Router{r}
	cfg.VirtualHosts = []v2.VirtualHost{vh}
	rs, err := NewRouters(cfg)
	verif.Assume(err == nil)
	ctx := variable.NewVariableContext(context.Background())
	variable.SetString(ctx, types.VarPath, "/x")
	headers := protocol.CommonHeader{}
	want := map[string]string{}
	for _, k := range zzHdrKeys {
		if verif.Choose("init_"+k, 2) == 1 {
			headers[k], want[k] = "i", "i"
		}
	}
	route := rs.MatchRoute(ctx, headers)
	verif.Assert(route != nil, "catch-all route must match")
	if route == nil {
		return
	}
	if response {
		route.RouteRule().FinalizeResponseHeaders(ctx, headers, nil)
	} else {
		route.RouteRule().FinalizeRequestHeaders(ctx, headers, nil)
	}
	for _, o := range ops {
		v := o.val
		if old, ok := want[o.key]; ok && len(old) > 0 && o.app {
			v = old + "," + o.val
		}
		want[o.key] = v
	}
	for _, k := range zzHdrKeys {
		gv, gok := headers[k]
		wv, wok := want[k]
		verif.Assert(gok == wok && gv == wv, "header "+k+" after a multi-entry headers_to_add list differs from entry-by-entry append/overwrite semantics")
	}
	verif.Cover("end")
}

// VerifC17_HostRewrite (router half): a route with host_rewrite, or with
// auto_host_rewrite_header naming a request header, leaves the upstream
// authority it asks for in the protocol-independent host variable (host_rewrite
// wins when both are configured); a route with neither leaves the variable
// as it was. The HTTP/1 half (what ends up in the Host header) is
// VerifC17_HostHeader in pkg/stream/http.
func VerifC17_HostRewrite() {
	hr := []string{"", "new.host"}[verif.Choose("host_rewrite", 2)]
	hh := []string{"", "x-target"}[verif.Choose("auto_host_rewrite_header", 2)]
	hasHdr := verif.Choose("request_has_header", 2) == 1
	r := v2.Router{}
	r.Match.Prefix = "/"
	r.Route.ClusterName = "c"
	r.Route.HostRewrite = hr
	r.Route.AutoHostRewriteHeader = hh
	cfg := &v2.RouterConfiguration{VirtualHosts: []v2.VirtualHost{{Name: "vh", Domains: []string{"*"}, Routers: []v2.Router{r}}}}
	rs, err := NewRouters(cfg)
	verif.Assume(err == nil)
	ctx := variable.NewVariableContext(context.Background())
	variable.SetString(ctx, types.VarPath, "/p")
	variable.SetString(ctx, types.VarHost, "old.host")
	headers := protocol.CommonHeader{}
	if hasHdr {
		headers["x-target"] = "hdr.host"
	}
	route := rs.MatchRoute(ctx, headers)
	verif.Assert(route != nil, "the catch-all route must match")
	if route == nil {
		return
	}
	route.RouteRule().FinalizeRequestHeaders(ctx, headers, nil)
	got, gerr := variable.GetString(ctx, types.VarIstioHeaderHost)
	want := ""
	switch {
	case hr != "":
		want = hr
	case hh != "" && hasHdr:
		want = "hdr.host"
	}
	if want == "" {
		verif.Assert(gerr != nil || got == "", "a route without host rewrite set an upstream authority")
	} else {
		verif.Assert(gerr == nil && got == want, "the route's host rewrite did not reach the upstream authority variable")
	}
	h, _ := variable.GetString(ctx, types.VarHost)
	verif.Assert(h == "old.host", "host rewrite must not alter the request's own host variable")
	verif.Cover("end")
}

// VerifC17_RegexRewrite: a route with regex_rewrite ("^/a/(.*)$" -> "/b/$1")
// on paths from a catalogue around the pattern: a matching path is rewritten
// to the substitution with the captured rest and the original path is
// recorded; any other path is left alone and nothing is recorded. With a
// prefix_rewrite configured as well, the prefix rewrite is the one applied.
func VerifC17_RegexRewrite() {
	alsoPrefix := verif.Choose("prefix_rewrite_too", 2) == 1
	r := v2.Router{}
	r.Match.Prefix = "/"
	r.Route.ClusterName = "c"
	r.Route.RegexRewrite = &v2.RegexRewrite{Pattern: v2.PatternConfig{Regex: "^/a/(.*)$"}, Substitution: "/b/$1"}
	if alsoPrefix {
		r.Route.PrefixRewrite = "/z/"
	}
	cfg := &v2.RouterConfiguration{VirtualHosts: []v2.VirtualHost{{Name: "vh", Domains: []string{"*"}, Routers: []v2.Router{r}}}}
	rs, err := NewRouters(cfg)
	verif.Assume(err == nil)
	paths := []string{"/a/x", "/a/", "/a", "/b/x", "/x/a/y", "/a/x/y"}
	path := paths[verif.Choose("path", len(paths))]
	ctx := variable.NewVariableContext(context.Background())
	variable.SetString(ctx, types.VarPath, path)
	headers := protocol.CommonHeader{}
	route := rs.MatchRoute(ctx, headers)
	verif.Assert(route != nil, "the catch-all route must match")
	if route == nil {
		return
	}
	route.RouteRule().FinalizeRequestHeaders(ctx, headers, nil)
	got, _ := variable.GetString(ctx, types.VarPath)
	want := path
	switch {
	case alsoPrefix:
		want = "/z/" + path[1:]
	case len(path) >= 3 && path[:3] == "/a/":
		want = "/b/" + path[3:]
	}
	verif.Assert(got == want, "the path sent upstream is not the configured rewrite of the request path")
	orig, ok := headers.Get(types.HeaderOriginalPath)
	if want != path {
		verif.Assert(ok && orig == path, "a rewritten request must record its original path")
	} else {
		verif.Assert(!ok, "an untouched path must not be recorded as rewritten")
	}
	verif.Cover("end")
}

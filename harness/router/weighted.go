//verif:pkg mosn.io/mosn/pkg/router
package router

import (
	"time"
	"context"
	"math/rand"

	v2 "mosn.io/mosn/pkg/config/v2"
	"mosn.io/mosn/pkg/zzverif/verif"
)

// zzDrawSource makes the next Intn(n) return an arbitrary draw in [0,n).
type zzDrawSource struct{ d uint32 }

func (s zzDrawSource) Int63() int64 { return int64(s.d&0x7fffffff) << 32 }
func (zzDrawSource) Seed(int64)     {}

var zzClusterNames = []string{"ca", "cb", "cc", "cd"}

// VerifC06_WeightedCluster: for every weight vector, draw and map iteration
// order, the selected cluster X satisfies S <= draw < S + w(X), where S is the
// sum of the weights of the clusters scanned before X (some subset of the
// others). Hence: probability w/sum in every order, a zero-weight cluster is
// never selected, and the default is never returned while the sum is > 0.
func VerifC06_WeightedCluster() {
	verif.MapOrderNondet(true)
	n := verif.Param("clusters", 2, 3) + verif.Choose("extra", 2) - 1
	if n < 1 {
		n = 1
	}
	var cfg []v2.WeightedCluster
	w := make([]int, n)
	sum := 0
	for i := 0; i < n; i++ {
		wi := verif.U32("w")
		verif.Assume(wi < 1<<28)
		w[i] = int(wi)
		sum += w[i]
		cfg = append(cfg, v2.WeightedCluster{Cluster: v2.ClusterWeight{ClusterWeightConfig: v2.ClusterWeightConfig{Name: zzClusterNames[i], Weight: wi}}})
	}
	verif.Assume(sum > 0)
	draw := verif.U32("draw")
	v := int(draw & 0x7fffffff)
	// natively the map iteration order cannot be forced: repeat with fresh maps
	tries := 1
	if !verif.Symbolic() {
		tries = 300
	}
	for t := 0; t < tries; t++ {
		zzWeightedOnce(cfg, w, n, draw, v)
	}
	verif.Cover("end")
}

func zzWeightedOnce(cfg []v2.WeightedCluster, w []int, n int, draw uint32, v int) {
	// through the real constructor: what it derives from the configuration (the range of the
	// draw in particular) is part of the claim
	r := &v2.Router{}
	r.Route.ClusterName = "default"
	r.Route.WeightedClusters = cfg
	rri, err := NewRouteRuleImplBase(nil, r)
	verif.Assert(err == nil && rri != nil, "a route with weighted clusters was refused")
	if rri == nil {
		return
	}
	rri.randInstance = rand.New(zzDrawSource{draw})
	sum := 0
	for i := 0; i < n; i++ {
		sum += w[i]
	}
	verif.Assert(int(rri.totalClusterWeight) == sum, "the range of the random draw is not the sum of the configured weights (a cluster's share is then not weight/total)")
	got := rri.ClusterName(context.Background())
	sel := -1
	for i := 0; i < n; i++ {
		if got == zzClusterNames[i] {
			sel = i
		}
	}
	verif.Assert(sel >= 0, "weighted route returned a cluster outside the weighted set (default or unknown) while the total weight is positive")
	if sel < 0 {
		return
	}
	// subset sums of the other clusters' weights
	ok := false
	for mask := 0; mask < 1<<uint(n); mask++ {
		if mask&(1<<uint(sel)) != 0 {
			continue
		}
		s := 0
		for j := 0; j < n; j++ {
			if mask&(1<<uint(j)) != 0 {
				s += w[j]
			}
		}
		if s <= v && v < s+w[sel] {
			ok = true
		}
	}
	verif.Assert(ok, "selected cluster's cumulative interval does not contain the draw (weights not honoured exactly)")
}

// VerifC17_RoutePolicyFromConfig: the route is one of the sources of the
// per-try timeout and of the retry budget. A rule built by the real
// constructor from a route configuration reports exactly the configured
// retry_on, retry_timeout (any duration), num_retries (any value) and status
// codes - whether or not retry_on is set (connection failures are retried with
// the configured budget, and the per-try timeout applies, also when retry_on
// is off) - and the configured global timeout; a route without a retry policy
// reports none.
func VerifC17_RoutePolicyFromConfig() {
	r := &v2.Router{}
	r.Route.ClusterName = "c"
	global := time.Duration(verif.U32("timeout_ms")) * time.Millisecond
	r.Route.Timeout = global
	has := verif.Choose("has_retry_policy", 2) == 1
	on := verif.Bool("retry_on")
	try := time.Duration(verif.U32("retry_timeout_ms")) * time.Millisecond
	n := verif.U32("num_retries")
	if has {
		r.Route.RetryPolicy = &v2.RetryPolicy{RetryPolicyConfig: v2.RetryPolicyConfig{RetryOn: on, NumRetries: n, StatusCodes: []uint32{503}}, RetryTimeout: try}
	}
	rri, err := NewRouteRuleImplBase(nil, r)
	verif.Assert(err == nil && rri != nil, "a plain route was refused")
	if rri == nil {
		return
	}
	verif.Assert(rri.GlobalTimeout() == global, "the rule's global timeout is not the configured one")
	rp := rri.Policy().RetryPolicy()
	if !has {
		verif.Assert(!rp.RetryOn() && rp.TryTimeout() == 0 && rp.NumRetries() == 0, "a route without a retry policy reports one")
		verif.Cover("no-policy")
		return
	}
	verif.Assert(rp.RetryOn() == on, "the rule's retry_on is not the configured one")
	verif.Assert(rp.TryTimeout() == try, "the rule's per-try timeout is not the configured retry_timeout (it is dropped when retry_on is off)")
	verif.Assert(rp.NumRetries() == n, "the rule's retry budget is not the configured num_retries (it is dropped when retry_on is off)")
	verif.Assert(len(rp.RetryableStatusCodes()) == 1 && rp.RetryableStatusCodes()[0] == 503, "the rule's retriable status codes are not the configured ones")
	verif.Cover("end")
}

//verif:pkg mosn.io/mosn/pkg/zzverif/h2diff
package h2diff

import (
	"bytes"

	xhpack "golang.org/x/net/http2/hpack"
	mhpack "mosn.io/mosn/pkg/module/http2/hpack"
	"mosn.io/mosn/pkg/zzverif/verif"
)

// zzAnyField: a header field from a small shape catalogue with symbolic
// content: a fully symbolic short name or a static-table name, a symbolic
// short value, a static-table value or the empty value.
func zzAnyField() zzField {
	var f zzField
	switch verif.Choose("name_shape", 3) {
	case 0:
		f.name = verif.Str("name", 1+verif.Choose("name_len", verif.Param("hlens", 1, 2)))
	case 1:
		f.name = ":method"
	default:
		f.name = "accept-encoding"
	}
	switch verif.Choose("value_shape", 3) {
	case 0:
		f.value = verif.Str("value", 2-verif.Choose("value_len", verif.Param("hlens", 1, 2)))
	case 1:
		f.value = "GET"
	}
	f.sensitive = verif.Choose("sensitive", 2) == 1
	return f
}

// VerifC18_HpackCross: every header list encoded by MOSN's HPACK encoder is
// decoded by the reference decoder (golang.org/x/net/http2/hpack) to the same
// list, and the other way round, across dynamic-table size changes: k header
// blocks of one field each plus a repeat of an earlier field (so indexed and
// name-indexed representations from the dynamic table occur), with the table
// limit changed by the encoder between blocks. Strings shorter than 3 bytes
// are never Huffman coded by either encoder, so Huffman is outside this claim
// for symbolic content (the static names/values are concrete and go through it).
func VerifC18_HpackCross() {
	verif.NoPanic()
	k := verif.Param("hfields", 2, 3)
	var list []zzField
	for i := 0; i < k; i++ {
		list = append(list, zzAnyField())
	}
	list = append(list, list[verif.Choose("repeat", k)])
	// table scenarios: (initial limit, new limit); 40 holds one short entry, 0 none
	// ... and limits that the first one or two entries fill exactly (entry size = name + value + 32)
	sz := func(f zzField) uint32 { return uint32(len(f.name) + len(f.value) + 32) }
	scen := [][2]uint32{{4096, 4096}, {4096, 40}, {40, 0}, {4096, 0}, {40, 40},
		{sz(list[0]), sz(list[0])}, {sz(list[0]) + sz(list[1]), sz(list[0]) + sz(list[1])}, {4096, sz(list[0]) + sz(list[1])}}[verif.Choose("table_scenario", 8)]
	initial, newSize := scen[0], scen[1]
	resizeAt := k + 1 // never
	if newSize != initial {
		resizeAt = 1 + verif.Choose("resize_at", k) // before block 1..k
	}
	for dir := 0; dir < 2; dir++ {
		var wire bytes.Buffer
		var got []zzField
		var menc *mhpack.Encoder
		var xenc *xhpack.Encoder
		var mdec *mhpack.Decoder
		var xdec *xhpack.Decoder
		if dir == 0 { // MOSN encodes, reference decodes
			menc = mhpack.NewEncoder(&wire)
			menc.SetMaxDynamicTableSizeLimit(initial)
			menc.SetMaxDynamicTableSize(initial)
			xdec = xhpack.NewDecoder(initial, func(f xhpack.HeaderField) { got = append(got, zzField{f.Name, f.Value, f.Sensitive}) })
		} else {
			xenc = xhpack.NewEncoder(&wire)
			xenc.SetMaxDynamicTableSizeLimit(initial)
			xenc.SetMaxDynamicTableSize(initial)
			mdec = mhpack.NewDecoder(initial, func(f mhpack.HeaderField) { got = append(got, zzField{f.Name, f.Value, f.Sensitive}) })
		}
		for i, f := range list {
			if i == resizeAt && newSize <= initial {
				if dir == 0 {
					menc.SetMaxDynamicTableSize(newSize)
				} else {
					xenc.SetMaxDynamicTableSize(newSize)
				}
			}
			wire.Reset()
			got = got[:0]
			var err, cerr error
			if dir == 0 {
				verif.Assert(menc.WriteField(mhpack.HeaderField{Name: f.name, Value: f.value, Sensitive: f.sensitive}) == nil, "encoder refused a field")
				_, err = xdec.Write(wire.Bytes())
				cerr = xdec.Close()
			} else {
				verif.Assert(xenc.WriteField(xhpack.HeaderField{Name: f.name, Value: f.value, Sensitive: f.sensitive}) == nil, "encoder refused a field")
				_, err = mdec.Write(wire.Bytes())
				cerr = mdec.Close()
			}
			verif.Assert(err == nil && cerr == nil, "the peer's decoder rejects a block the encoder produced")
			verif.Assert(len(got) == 1 && got[0].name == f.name && got[0].value == f.value, "header block decodes to a different list on the other side")
			if len(got) == 1 && f.sensitive {
				verif.Assert(got[0].sensitive, "a sensitive field lost its never-indexed marking")
			}
		}
	}
	verif.Cover("end")
}

// VerifC18_HpackLengths: header values whose length sits at the boundaries of
// the HPACK length encoding (one octet up to 126, then 7-bit groups: 127,
// 128, 254..257, 16510, 16511) - concrete content that is not Huffman
// coded - cross the two implementations in both directions unchanged.
func VerifC18_HpackLengths() {
	verif.NoPanic()
	L := []int{126, 127, 128, 254, 255, 256, 257, 16510, 16511}[verif.Choose("length", 9)]
	val := make([]byte, L)
	for i := range val {
		val[i] = 0x01 // a 23-bit Huffman code: the raw form is shorter, so it is what both encoders emit
	}
	f := zzField{name: "x", value: string(val)}
	for dir := 0; dir < 2; dir++ {
		var wire bytes.Buffer
		var got []zzField
		var err, cerr error
		if dir == 0 {
			enc := mhpack.NewEncoder(&wire)
			verif.Assert(enc.WriteField(mhpack.HeaderField{Name: f.name, Value: f.value}) == nil, "encoder refused a field")
			dec := xhpack.NewDecoder(4096, func(h xhpack.HeaderField) { got = append(got, zzField{h.Name, h.Value, h.Sensitive}) })
			dec.SetMaxStringLength(1 << 20)
			_, err = dec.Write(wire.Bytes())
			cerr = dec.Close()
		} else {
			enc := xhpack.NewEncoder(&wire)
			verif.Assert(enc.WriteField(xhpack.HeaderField{Name: f.name, Value: f.value}) == nil, "encoder refused a field")
			dec := mhpack.NewDecoder(4096, func(h mhpack.HeaderField) { got = append(got, zzField{h.Name, h.Value, h.Sensitive}) })
			dec.SetMaxStringLength(1 << 20)
			_, err = dec.Write(wire.Bytes())
			cerr = dec.Close()
		}
		verif.Assert(err == nil && cerr == nil, "the peer's decoder rejects a block the encoder produced")
		verif.Assert(len(got) == 1 && got[0].name == f.name && got[0].value == f.value, "header block decodes to a different list on the other side")
	}
	verif.Cover("end")
}

//verif:pkg mosn.io/mosn/pkg/zzverif/h2diff
package h2diff

import (
	"bytes"
	"errors"

	xhpack "golang.org/x/net/http2/hpack"
	mhpack "mosn.io/mosn/pkg/module/http2/hpack"
	"mosn.io/mosn/pkg/zzverif/verif"
)

type zzField struct {
	name, value string
	sensitive   bool
}

var zzErrHuffman = errors.New("huffman not modelled")

// VerifC18_HpackDecodeDiff: MOSN's HPACK decoder and the reference
// (golang.org/x/net/http2/hpack) agree on every header block: same emitted
// fields, same error/no-error, for every byte string up to the bound. Huffman
// decoding is replaced in both by the same refusing stub, so Huffman-coded
// strings are an error in both (not compared).
func VerifC18_HpackDecodeDiff_T() {
	verif.NoPanic()
	stub := func(buf *bytes.Buffer, maxLen int, v []byte) error { return zzErrHuffman }
	verif.Replace("mosn.io/mosn/pkg/module/http2/hpack.huffmanDecode", stub)
	verif.Replace("golang.org/x/net/http2/hpack.huffmanDecode", stub)
	n := verif.Len("n", 0, verif.Param("HN", 2, 2))
	s := verif.Bytes("s", n)
	// strings must not carry the Huffman flag natively (the stub exists only under the engine):
	// the flag bit is the top bit of a string-length byte; excluding bytes >= 0x80 that follow a
	// literal-representation byte would need the parse, so the harness restricts every byte after
	// the first to < 0x80 (no Huffman flag anywhere, no multi-byte varint continuation).
	for i := 1; i < n; i++ {
		verif.Assume(s[i] < 0x80)
	}
	tableSize := uint32(verif.Choose("table", 2)) * 64
	var mf, xf []zzField
	md := mhpack.NewDecoder(tableSize, func(f mhpack.HeaderField) { mf = append(mf, zzField{f.Name, f.Value, f.Sensitive}) })
	xd := xhpack.NewDecoder(tableSize, func(f xhpack.HeaderField) { xf = append(xf, zzField{f.Name, f.Value, f.Sensitive}) })
	_, merr := md.Write(s)
	_, xerr := xd.Write(s)
	verif.Assert((merr == nil) == (xerr == nil), "MOSN's HPACK decoder and the reference disagree on whether the block is valid")
	verif.Assert(len(mf) == len(xf), "different number of header fields emitted")
	if len(mf) == len(xf) {
		for i := range mf {
			verif.Assert(mf[i].name == xf[i].name && mf[i].value == xf[i].value && mf[i].sensitive == xf[i].sensitive, "emitted header field differs from the reference")
		}
	}
	mcerr, xcerr := md.Close(), xd.Close()
	verif.Assert((mcerr == nil) == (xcerr == nil), "decoders disagree at Close (truncated block)")
	if len(mf) > 0 {
		verif.Cover("fields")
	}
	verif.Cover("end")
}

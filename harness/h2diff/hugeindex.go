//verif:pkg mosn.io/mosn/pkg/zzverif/h2diff
package h2diff

import (
	xhpack "golang.org/x/net/http2/hpack"
	mhpack "mosn.io/mosn/pkg/module/http2/hpack"
	"mosn.io/mosn/pkg/zzverif/verif"
)

// VerifC08_HpackIndexRange: a header block that starts with an indexed field,
// a literal with an indexed name, or a table size update whose integer is a
// multi-octet HPACK integer of 2..10 octets with arbitrary value bits (so any
// index / size up to and beyond 2^63): MOSN's decoder never panics, and it
// agrees with the reference decoder on whether the block is an error.
func VerifC08_HpackIndexRange() {
	verif.NoPanic()
	// first octet: representation prefix with all value bits set (the integer continues)
	first := []byte{0xff, 0x7f, 0x0f, 0x1f, 0x3f}[verif.Choose("representation", 5)] // indexed, incremental-indexing name, without-indexing name, never-indexed name, size update
	k := 1 + verif.Choose("continuation_octets", 10)
	block := []byte{first}
	for i := 0; i < k; i++ {
		b := verif.U8("octet")
		if i < k-1 {
			b |= 0x80
		} else {
			b &= 0x7f
		}
		block = append(block, b)
	}
	// a literal with an indexed name is followed by its value: the empty string
	if first != 0xff && first != 0x3f {
		block = append(block, 0x00)
	}
	md := mhpack.NewDecoder(4096, func(mhpack.HeaderField) {})
	xd := xhpack.NewDecoder(4096, func(xhpack.HeaderField) {})
	_, merr := md.Write(block)
	_, xerr := xd.Write(block)
	verif.Assert((merr == nil) == (xerr == nil), "MOSN's HPACK decoder and the reference disagree on a block with a large index / size")
	if merr != nil {
		verif.Cover("rejected")
	}
	verif.Cover("end")
}

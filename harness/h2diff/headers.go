//verif:pkg mosn.io/mosn/pkg/zzverif/h2diff
package h2diff

import (
	"bytes"
	"context"

	xhttp2 "golang.org/x/net/http2"
	xhpack "golang.org/x/net/http2/hpack"
	mhttp2 "mosn.io/mosn/pkg/module/http2"
	"mosn.io/mosn/pkg/zzverif/verif"
	"mosn.io/pkg/buffer"
)

// VerifC18_HeadersDiff: a valid request header block sent as HEADERS (with or
// without padding and priority, its own fragment possibly empty) followed by
// 0..2 CONTINUATION frames cut anywhere parses to the same header list in
// MOSN's framer and in the reference framer (golang.org/x/net/http2): both
// accept it, same fields in the same order, same END_STREAM.
func VerifC18_HeadersDiff() {
	verif.NoPanic()
	var hbuf bytes.Buffer
	enc := xhpack.NewEncoder(&hbuf)
	enc.WriteField(xhpack.HeaderField{Name: ":method", Value: "POST"})
	enc.WriteField(xhpack.HeaderField{Name: ":scheme", Value: "http"})
	enc.WriteField(xhpack.HeaderField{Name: ":authority", Value: "a.b"})
	enc.WriteField(xhpack.HeaderField{Name: ":path", Value: "/one"})
	enc.WriteField(xhpack.HeaderField{Name: "x-k", Value: "v"})
	block := append([]byte(nil), hbuf.Bytes()...)
	k := verif.Choose("continuations", 3)
	cuts := []int{0}
	for i := 0; i < k; i++ {
		c := cuts[len(cuts)-1] + verif.Choose("cut_step", 3) // 0: an empty fragment
		if c > len(block) {
			c = len(block)
		}
		cuts = append(cuts, c)
	}
	cuts = append(cuts, len(block))
	var wire bytes.Buffer
	fw := xhttp2.NewFramer(&wire, nil)
	p := xhttp2.HeadersFrameParam{StreamID: 1, BlockFragment: block[cuts[0]:cuts[1]], EndStream: verif.Choose("end_stream", 2) == 1, EndHeaders: k == 0,
		PadLength: uint8(verif.Choose("pad", 3))}
	if verif.Choose("priority", 2) == 1 {
		p.Priority = xhttp2.PriorityParam{StreamDep: 0, Weight: 7}
	}
	verif.Assume(fw.WriteHeaders(p) == nil)
	for i := 1; i <= k; i++ {
		verif.Assume(fw.WriteContinuation(1, i == k, block[cuts[i]:cuts[i+1]]) == nil)
	}
	// reference
	xfr := xhttp2.NewFramer(nil, bytes.NewReader(wire.Bytes()))
	xfr.ReadMetaHeaders = xhpack.NewDecoder(4096, nil)
	xf, xerr := xfr.ReadFrame()
	// MOSN, server side
	sc := mhttp2.NewServerConn(nil)
	rb := buffer.NewIoBuffer(64)
	rb.Write([]byte(mhttp2.ClientPreface))
	verif.Assert(sc.Framer.ReadPreface(rb) == nil, "valid preface refused")
	rb.Write(wire.Bytes())
	verif.MustFinish(600000, "MOSN's frame reader does not return for HEADERS + CONTINUATION frames")
	mf, _, merr := sc.Framer.ReadFrame(context.Background(), rb, 0)
	verif.Finished()
	verif.Assert(xerr == nil, "harness: the reference rejects the sequence")
	verif.Assert((merr == nil) == (xerr == nil), "MOSN rejects a HEADERS/CONTINUATION sequence the reference accepts (or the reverse)")
	if merr != nil || xerr != nil {
		return
	}
	xm, ok1 := xf.(*xhttp2.MetaHeadersFrame)
	mm, ok2 := mf.(*mhttp2.MetaHeadersFrame)
	verif.Assert(ok1 && ok2, "both sides must produce a header list")
	if !ok1 || !ok2 {
		return
	}
	verif.Assert(len(xm.Fields) == len(mm.Fields), "number of header fields differs from the reference")
	if len(xm.Fields) == len(mm.Fields) {
		for i := range xm.Fields {
			verif.Assert(xm.Fields[i].Name == mm.Fields[i].Name && xm.Fields[i].Value == mm.Fields[i].Value, "a header field differs from the reference")
		}
	}
	verif.Assert(xm.StreamEnded() == mm.StreamEnded() && xm.StreamID == mm.StreamID, "END_STREAM / stream id differ from the reference")
	if cuts[1] == 0 && k > 0 {
		verif.Cover("empty-headers-fragment")
	}
	verif.Cover("end")
}

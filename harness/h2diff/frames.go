//verif:pkg mosn.io/mosn/pkg/zzverif/h2diff
//verif:init golang.org/x/net/http2
package h2diff

import (
	"bytes"
	"context"

	xhttp2 "golang.org/x/net/http2"
	mhttp2 "mosn.io/mosn/pkg/module/http2"
	"mosn.io/mosn/pkg/zzverif/verif"
	"mosn.io/pkg/buffer"
)

// VerifC18_FrameParseDiff: one complete frame of a type that carries no header
// block (DATA with arbitrary padding, PRIORITY, RST_STREAM, SETTINGS, PING,
// GOAWAY, WINDOW_UPDATE, unknown types) with arbitrary flags, stream id and a
// short arbitrary payload parses identically in MOSN's framer and in the
// reference framer (golang.org/x/net/http2): both reject it, or both accept
// it with the same header and, for DATA, the same data bytes.
func VerifC18_FrameParseDiff() {
	verif.NoPanic()
	types := []uint8{0, 2, 3, 4, 6, 7, 8, 10}
	typ := types[verif.Choose("type", len(types))]
	n := verif.Len("payload_len", 0, verif.Param("fdiff", 6, 9))
	flags := verif.U8("flags")
	stream := verif.U32("stream") & 0x7fffffff
	payload := verif.Bytes("payload", n)
	wire := []byte{0, 0, byte(n), typ, flags, byte(stream >> 24), byte(stream >> 16), byte(stream >> 8), byte(stream)}
	wire = append(wire, payload...)
	// reference
	xfr := xhttp2.NewFramer(nil, bytes.NewReader(wire))
	xf, xerr := xfr.ReadFrame()
	// MOSN (upstream-side framer: no preface)
	cc := mhttp2.NewClientConn(nil)
	rb := buffer.NewIoBuffer(64)
	rb.Write(wire)
	mf, _, merr := cc.Framer.ReadFrame(context.Background(), rb, 0)
	verif.Assert((xerr == nil) == (merr == nil), "MOSN's frame parser and the reference disagree on whether the frame is valid")
	if xerr != nil || merr != nil {
		verif.Cover("rejected")
		return
	}
	xh, mh := xf.Header(), mf.Header()
	verif.Assert(uint8(xh.Type) == uint8(mh.Type) && uint8(xh.Flags) == uint8(mh.Flags) && xh.Length == mh.Length && xh.StreamID == mh.StreamID, "frame headers differ from the reference")
	if xd, ok := xf.(*xhttp2.DataFrame); ok {
		md, ok2 := mf.(*mhttp2.DataFrame)
		verif.Assert(ok2, "the reference parsed a DATA frame, MOSN something else")
		if ok2 {
			verif.Assert(string(xd.Data()) == string(md.Data()), "DATA payload (after padding removal) differs from the reference")
			verif.Assert(xd.StreamEnded() == md.StreamEnded(), "END_STREAM differs from the reference")
		}
		verif.Cover("data")
	}
	if xw, ok := xf.(*xhttp2.WindowUpdateFrame); ok {
		mw, ok2 := mf.(*mhttp2.WindowUpdateFrame)
		verif.Assert(ok2 && xw.Increment == mw.Increment, "WINDOW_UPDATE increment differs from the reference")
	}
	verif.Cover("accepted")
}

//verif:pkg mosn.io/mosn/pkg/protocol/xprotocol/tars
package tars

import (
	"context"

	"github.com/TarsCloud/TarsGo/tars/protocol/res/requestf"
	"mosn.io/api"
	"mosn.io/mosn/pkg/zzverif/verif"
	"mosn.io/pkg/buffer"
	"mosn.io/pkg/variable"
)

func zzCtx() context.Context {
	return variable.NewVariableContext(context.Background())
}

// VerifC08_TarsArbitrary: arbitrary short byte strings into the tars decoder
// (TarsGo's tag/type reader forks on every nibble, which bounds N hard).
func VerifC08_TarsArbitrary() {
	verif.NoPanic()
	n := verif.Len("n", 0, verif.Param("N", 7, 9))
	s := verif.Bytes("s", n)
	verif.AllocLimit(n + 64)
	buf := buffer.NewIoBufferBytes(verif.WithStaleCap(s, 64))
	frame, err := tarsProtocol{}.Decode(zzCtx(), buf)
	left := buf.Len()
	switch {
	case frame == nil && err == nil:
		verif.Assert(left == n, "need-more must not consume")
		verif.Cover("need-more")
	case err != nil:
	default:
		verif.Assert(left < n, "a decoded frame must consume at least one byte (progress)")
	}
	verif.Assert(left <= n, "cannot consume more than delivered")
	verif.Assert(verif.StaleReads() == 0, "engine: decoder read bytes that were never received")
	verif.Cover("end")
}

// zzFrame produces a well-formed tars frame with the real encoder from a
// packet whose payload bytes and request id are then made symbolic (located
// through marker bytes, so no knowledge of the TarsGo layout is needed).
func zzFrame(tag string, resp bool, body int) []byte {
	marker := make([]int8, body)
	for i := range marker {
		marker[i] = int8(0x51 + i)
	}
	var out api.IoBuffer
	var err error
	if resp {
		out, err = encodeResponse(context.Background(), &Response{cmd: &requestf.ResponsePacket{IVersion: 1, IRequestId: 0x41424344, SBuffer: marker, SResultDesc: "ok"}})
	} else {
		out, err = encodeRequest(context.Background(), &Request{cmd: &requestf.RequestPacket{IVersion: 1, IRequestId: 0x41424344, SServantName: "sv", SFuncName: "fn", SBuffer: marker, ITimeout: 7}})
	}
	verif.Assume(err == nil)
	b := append([]byte{}, out.Bytes()...)
	sym := verif.Bytes(tag, body)
	for i := 0; i+body <= len(b) && body > 0; i++ {
		if b[i] == 0x51 && (body < 2 || b[i+1] == 0x52) {
			copy(b[i:], sym)
			break
		}
	}
	return b
}

func zzDecodeAll(ctx context.Context, buf api.IoBuffer, max int) (lens []int, raws [][]byte, failed bool) {
	for i := 0; i < max; i++ {
		if buf.Len() == 0 {
			return
		}
		before := buf.Len()
		frame, err := tarsProtocol{}.Decode(ctx, buf)
		if frame == nil && err == nil {
			return
		}
		if err != nil {
			return lens, raws, true
		}
		lens = append(lens, before-buf.Len())
		switch f := frame.(type) {
		case *Request:
			raws = append(raws, append([]byte{}, f.rawData...))
		case *Response:
			raws = append(raws, append([]byte{}, f.rawData...))
		}
	}
	return
}

func VerifC07_TarsStream() {
	f0 := zzFrame("f0", verif.Bool("resp0"), 2)
	f1 := zzFrame("f1", verif.Bool("resp1"), 1)
	want := [][]byte{f0, f1}
	s := append(append([]byte{}, f0...), f1...)
	n := len(s)
	cutc := verif.Concrete(verif.IntRange("cut", 0, n))
	buf := buffer.NewIoBufferBytes(verif.WithStaleCap(append([]byte{}, s[:cutc]...), 64))
	ctx := zzCtx()
	lens, raws, fail := zzDecodeAll(ctx, buf, 4)
	verif.Assert(!fail, "prefix of a valid stream failed to decode")
	complete, off := 0, 0
	for _, w := range want {
		if off+len(w) > cutc {
			break
		}
		complete++
		off += len(w)
	}
	verif.Assert(len(lens) == complete, "frames extracted from the prefix differ from the complete frames it holds")
	verif.Assert(buf.Len() == cutc-off, "an incomplete frame must consume nothing")
	buf.Write(s[cutc:])
	lens2, raws2, fail2 := zzDecodeAll(ctx, buf, 4)
	verif.Assert(!fail2, "remainder of a valid stream failed to decode")
	lens = append(lens, lens2...)
	raws = append(raws, raws2...)
	verif.Assert(len(lens) == 2 && buf.Len() == 0, "every frame exactly once, no byte left")
	for i, w := range want {
		if i < len(lens) {
			verif.Assert(lens[i] == len(w) && string(raws[i]) == string(w), "frame bytes attributed wrongly")
		}
	}
	verif.Assert(verif.StaleReads() == 0, "engine: decoder read bytes that were never received")
	verif.Cover("end")
}

// VerifC02_TarsIDWidth: tars carries a 32-bit id; the generated id survives
// SetRequestId/GetRequestId on both packet kinds, and counters less than 2^32
// apart give distinct ids.
func VerifC02_TarsIDWidth() {
	c := verif.U64("c")
	c0 := c
	id := tarsProtocol{}.GenerateRequestID(&c)
	verif.Assert(c == c0+1, "counter must advance by one")
	rq := &Request{cmd: &requestf.RequestPacket{}}
	rq.SetRequestId(id)
	verif.Assert(rq.GetRequestId() == id, "request id does not survive the packet field")
	rs := &Response{cmd: &requestf.ResponsePacket{}}
	rs.SetRequestId(id)
	verif.Assert(rs.GetRequestId() == id, "response id does not survive the packet field")
	d := verif.U64("d")
	verif.Assume(d != 0 && d>>32 == 0)
	c2 := c0 + d
	verif.Assert(tarsProtocol{}.GenerateRequestID(&c2) != id, "two live counters map to the same wire id")
	verif.Cover("end")
}

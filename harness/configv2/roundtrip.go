//verif:pkg mosn.io/mosn/pkg/config/v2
//verif:gen HealthCheck,KeepAlive,Host,CircuitBreakers,RetryPolicy,RouteAction,ClusterWeight,Router,VirtualHost,RouterConfiguration,FilterChain,Listener,Cluster,ClusterManagerConfig,ServerConfig,MOSNConfig,HealthCheckFilter,FaultInject,StreamFaultInject,DelayInject,GRPC,TLSConfig,Proxy,StreamProxy,WebSocketProxy,ExtendConfig
//verif:gen-skip Listener.Addr,Listener.InheritListener,Listener.InheritPacketConn,SecretConfigWrapper.SdsConfig,MetricsConfig.ShmSize,CidrRange.IpNet

package v2

// C19, lemma 1: what MOSN wrote around encoding/json - the custom MarshalJSON /
// UnmarshalJSON pairs, the shadow structs, struct tags and omitempty options of
// pkg/config/v2 - loses nothing: for an arbitrary value x of each configuration type
// (every scalar leaf a solver symbol; shapes: all containers empty, all populated, all
// populated but one), y = Unmarshal(Marshal(x)) equals x field by field up to the
// normalisations written down in the zzExpect_* functions below, and a second round
// trip changes nothing. encoding/json itself is the engine's structural model
// (engine/interp/json.go); natively the replay runs the real one.

import (
	"encoding/json"
	"net"
	"time"

	"mosn.io/mosn/pkg/zzverif/verif"
)

// zzShape runs gen once in counting mode and then picks the shape of the value
// under test: everything empty, everything populated, or everything populated
// except one decision (every decision in turn).
func zzShape(gen func(h *zzHv)) *zzHv {
	c := &zzHv{mode: 2, flip: -1}
	gen(c)
	h := &zzHv{flip: -1}
	h.mode = verif.Choose("shape", 2)
	if h.mode == 1 {
		h.flip = verif.Choose("flip", c.n+1) - 1
	}
	return h
}

// zzByPointer: types whose MarshalJSON has a pointer receiver are dumped through a
// pointer (a value of such a type that is not addressable is printed by encoding/json
// without its MarshalJSON - that is Go, not MOSN; MOSN only holds them by pointer).
var zzByPointer bool

func zzMarshal[T any](v T, p *T) ([]byte, error) {
	if zzByPointer {
		return json.Marshal(p)
	}
	return json.Marshal(v)
}

func zzRoundTrip[T any](name string, hv func(*zzHv) T, eq func(*zzHv, T, T, string), fix func(*T)) bool {
	h := zzShape(func(h *zzHv) { hv(h) })
	x := hv(h)
	if fix != nil {
		fix(&x)
	}
	b, err := zzMarshal(x, &x)
	verif.Assert(err == nil, name+": the dump fails")
	if err != nil {
		return false
	}
	var y T
	err = json.Unmarshal(b, &y)
	verif.Assert(err == nil, name+": the dump does not load")
	if err != nil {
		return false
	}
	eq(h, x, y, name)
	// the reloaded configuration dumps and loads to itself
	b2, err := zzMarshal(y, &y)
	verif.Assert(err == nil, name+": the second dump fails")
	if err != nil {
		return false
	}
	var z T
	err = json.Unmarshal(b2, &z)
	verif.Assert(err == nil, name+": the second dump does not load")
	if err != nil {
		return false
	}
	eq(h, y, z, name+" (second round trip)")
	return true
}

// ---- the normalisations a dump / load cycle is allowed to perform ----

func zzMeta(md map[string]string) *MetadataConfig {
	if len(md) == 0 {
		return nil
	}
	m := map[string]interface{}{}
	for k, v := range md {
		m[k] = v
	}
	return &MetadataConfig{MetaKey: LbMeta{LbMetaKey: m}}
}

func zzMetaNorm(md map[string]string) map[string]string {
	out := map[string]string{}
	for k, v := range md {
		out[k] = v
	}
	return out
}

func zzExpect_HealthCheck(x *HealthCheck) {
	x.TimeoutConfig.Duration = x.Timeout
	x.IntervalConfig.Duration = x.Interval
	x.IntervalJitterConfig.Duration = x.IntervalJitter
}

func zzExpect_KeepAlive(x *KeepAlive) {
	x.TimeoutConfig.Duration = x.Timeout
	x.IntervalConfig.Duration = x.Interval
}

func zzExpect_Host(x *Host) {
	x.MetaDataConfig = zzMeta(x.MetaData)
	x.MetaData = zzMetaNorm(x.MetaData)
}

func zzExpect_Router(x *Router) {
	x.MetadataConfig = zzMeta(x.Metadata)
	x.Metadata = zzMetaNorm(x.Metadata)
}

func zzExpect_RouteAction(x *RouteAction) {
	x.MetadataConfig = zzMeta(x.MetadataMatch)
	x.MetadataMatch = zzMetaNorm(x.MetadataMatch)
	x.TimeoutConfig.Duration = x.Timeout
}

func zzExpect_ClusterWeight(x *ClusterWeight) {
	x.MetadataConfig = zzMeta(x.MetadataMatch)
	x.MetadataMatch = zzMetaNorm(x.MetadataMatch)
}

func zzExpect_RetryPolicy(x *RetryPolicy) {
	x.RetryTimeoutConfig.Duration = x.RetryTimeout
}

func zzExpect_RouterConfiguration(x *RouterConfiguration) {
	if x.RouterConfigPath == "" {
		x.StaticVirtualHosts = x.VirtualHosts
	}
}

func zzExpect_ClusterManagerConfig(x *ClusterManagerConfig) {
	if x.ClusterConfigPath == "" {
		x.ClustersJson = x.Clusters
	}
}

func zzExpect_FilterChain(x *FilterChain) {
	if len(x.TLSContexts) > 0 {
		x.TLSConfig = nil
		x.TLSConfigs = x.TLSContexts
		return
	}
	// no tls_context_set: tls_context (or a default one) becomes the only context
	if len(x.TLSConfigs) > 0 {
		x.TLSContexts = x.TLSConfigs
	} else if x.TLSConfig != nil {
		x.TLSContexts = []TLSConfig{*x.TLSConfig}
	} else {
		x.TLSContexts = []TLSConfig{{}}
	}
}

func zzExpect_Listener(x *Listener) {
	if x.Addr != nil {
		x.AddrConfig = x.Addr.String()
	}
	x.PerConnBufferLimitBytes = 1 << 15
	if x.Network == "" {
		x.Network = "tcp" // the documented default
	}
	// run-time state that is not configuration
	x.ListenerTag, x.ListenerScope, x.Remain = 0, "", false
}

func zzExpect_HealthCheckFilter(x *HealthCheckFilter) { x.CacheTimeConfig.Duration = x.CacheTime }
func zzExpect_FaultInject(x *FaultInject) {
	x.DelayDurationConfig.Duration = time.Duration(x.DelayDuration)
}
func zzExpect_DelayInject(x *DelayInject) { x.DelayDurationConfig.Duration = x.Delay }
func zzExpect_GRPC(x *GRPC)               { x.GracefulStopTimeoutConfig.Duration = x.GracefulStopTimeout }
func zzExpect_SecretConfigWrapper(x *SecretConfigWrapper) {
	x.raw.Name = x.Name
}

func zzFixListener(x *Listener) {
	// the address must resolve: a literal, as in every shipped sample
	x.AddrConfig = "127.0.0.1:8080"
	for i := range x.FilterChains {
		zzFixFilterChain(&x.FilterChains[i])
	}
	x.Network = []string{"", "tcp", "udp"}[verif.Choose("network", 3)]
	x.ListenerTag, x.ListenerScope, x.Remain = 0, "", false
}

func zzStubResolve() {
	verif.Replace("net.ResolveTCPAddr", func(network, address string) (*net.TCPAddr, error) {
		return &net.TCPAddr{IP: net.IPv4(127, 0, 0, 1), Port: 8080}, nil
	})
	verif.Replace("net.ResolveUDPAddr", func(network, address string) (*net.UDPAddr, error) {
		return &net.UDPAddr{IP: net.IPv4(127, 0, 0, 1), Port: 8080}, nil
	})
}

func VerifC19_HealthCheck() {
	if zzRoundTrip("HealthCheck", zzHv_HealthCheck, zzEq_HealthCheck, nil) {
		verif.Cover("HealthCheck round trip")
	}
}
func VerifC19_KeepAlive() {
	if zzRoundTrip("KeepAlive", zzHv_KeepAlive, zzEq_KeepAlive, nil) {
		verif.Cover("KeepAlive round trip")
	}
}
func VerifC19_Host() {
	if zzRoundTrip("Host", zzHv_Host, zzEq_Host, nil) {
		verif.Cover("Host round trip")
	}
}
func VerifC19_CircuitBreakers() {
	if zzRoundTrip("CircuitBreakers", zzHv_CircuitBreakers, zzEq_CircuitBreakers, nil) {
		verif.Cover("CircuitBreakers round trip")
	}
}
func VerifC19_RetryPolicy() {
	if zzRoundTrip("RetryPolicy", zzHv_RetryPolicy, zzEq_RetryPolicy, nil) {
		verif.Cover("RetryPolicy round trip")
	}
}
func VerifC19_RouteAction() {
	if zzRoundTrip("RouteAction", zzHv_RouteAction, zzEq_RouteAction, nil) {
		verif.Cover("RouteAction round trip")
	}
}
func VerifC19_ClusterWeight() {
	if zzRoundTrip("ClusterWeight", zzHv_ClusterWeight, zzEq_ClusterWeight, nil) {
		verif.Cover("ClusterWeight round trip")
	}
}
func VerifC19_Router() {
	if zzRoundTrip("Router", zzHv_Router, zzEq_Router, nil) {
		verif.Cover("Router round trip")
	}
}
func VerifC19_VirtualHost() {
	if zzRoundTrip("VirtualHost", zzHv_VirtualHost, zzEq_VirtualHost, nil) {
		verif.Cover("VirtualHost round trip")
	}
}
// zzFixFilterChain: a filter chain that was loaded, or built by the xDS conversion, has at
// least one entry in TLSContexts; without it only one of the two raw forms may be set
// (both together are refused at load time, by design).
func zzFixFilterChain(x *FilterChain) {
	if len(x.TLSContexts) == 0 && x.TLSConfig != nil {
		x.TLSConfigs = nil
	}
}

func VerifC19_FilterChain() {
	if zzRoundTrip("FilterChain", zzHv_FilterChain, zzEq_FilterChain, zzFixFilterChain) {
		verif.Cover("FilterChain round trip")
	}
}
func VerifC19_ClusterCfg() {
	if zzRoundTrip("Cluster", zzHv_Cluster, zzEq_Cluster, nil) {
		verif.Cover("ClusterCfg round trip")
	}
}
func VerifC19_TLSConfig() {
	if zzRoundTrip("TLSConfig", zzHv_TLSConfig, zzEq_TLSConfig, nil) {
		verif.Cover("TLSConfig round trip")
	}
}
func VerifC19_Proxy() {
	if zzRoundTrip("Proxy", zzHv_Proxy, zzEq_Proxy, nil) {
		verif.Cover("Proxy round trip")
	}
}
func VerifC19_StreamProxy() {
	if zzRoundTrip("StreamProxy", zzHv_StreamProxy, zzEq_StreamProxy, nil) {
		verif.Cover("StreamProxy round trip")
	}
}
func VerifC19_WebSocketProxy() {
	if zzRoundTrip("WebSocketProxy", zzHv_WebSocketProxy, zzEq_WebSocketProxy, nil) {
		verif.Cover("WebSocketProxy round trip")
	}
}
func VerifC19_ExtendConfig() {
	if zzRoundTrip("ExtendConfig", zzHv_ExtendConfig, zzEq_ExtendConfig, nil) {
		verif.Cover("ExtendConfig round trip")
	}
}
func VerifC19_HealthCheckFilter() {
	if zzRoundTrip("HealthCheckFilter", zzHv_HealthCheckFilter, zzEq_HealthCheckFilter, nil) {
		verif.Cover("HealthCheckFilter round trip")
	}
}
func VerifC19_FaultInject() {
	if zzRoundTrip("FaultInject", zzHv_FaultInject, zzEq_FaultInject, nil) {
		verif.Cover("FaultInject round trip")
	}
}
func VerifC19_StreamFaultInject() {
	if zzRoundTrip("StreamFaultInject", zzHv_StreamFaultInject, zzEq_StreamFaultInject, nil) {
		verif.Cover("StreamFaultInject round trip")
	}
}
func VerifC19_GRPC() {
	zzByPointer = true
	if zzRoundTrip("GRPC", zzHv_GRPC, zzEq_GRPC, nil) {
		verif.Cover("GRPC round trip")
	}
}

func VerifC19_RouterConfiguration() {
	if zzRoundTrip("RouterConfiguration", zzHv_RouterConfiguration, zzEq_RouterConfiguration, func(x *RouterConfiguration) {
		x.RouterConfigPath = "" // inline mode; the directory mode is file I/O
	}) {
		verif.Cover("RouterConfiguration round trip")
	}
}

func VerifC19_ClusterManagerConfig() {
	if zzRoundTrip("ClusterManagerConfig", zzHv_ClusterManagerConfig, zzEq_ClusterManagerConfig, func(x *ClusterManagerConfig) {
		x.ClusterConfigPath = ""
	}) {
		verif.Cover("ClusterManagerConfig round trip")
	}
}

func VerifC19_Listener() {
	zzStubResolve()
	if zzRoundTrip("Listener", zzHv_Listener, zzEq_Listener, zzFixListener) {
		verif.Cover("Listener round trip")
	}
}

func zzFixMOSNConfig(x *MOSNConfig) {
	x.ClusterManager.ClusterConfigPath = ""
	for i := range x.Servers {
		for j := range x.Servers[i].Listeners {
			zzFixListener(&x.Servers[i].Listeners[j])
		}
		for _, r := range x.Servers[i].Routers {
			if r != nil {
				r.RouterConfigPath = ""
			}
		}
	}
}

func VerifC19_MOSNConfig_T() {
	zzStubResolve()
	if zzRoundTrip("MOSNConfig", zzHv_MOSNConfig, zzEq_MOSNConfig, zzFixMOSNConfig) {
		verif.Cover("MOSNConfig round trip")
	}
}

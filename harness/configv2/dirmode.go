//verif:pkg mosn.io/mosn/pkg/config/v2

package v2

// C19, the directory modes: a router configuration with router_configs (one JSON file per
// virtual host in a directory, stale files swept at every dump) and a cluster manager with
// clusters_configs. Under the engine the six file-system calls underneath (ReadDir,
// WriteFile, Rename, ReadFile, Remove, MkdirAll) are an in-memory map; natively the same
// harness runs in a fresh temporary directory. Dump, load, dump, load: after each cycle
// the loaded configuration holds exactly the virtual hosts (clusters) of the dumped one,
// field-equal - also the second time, when the directory already holds the files.

import (
	"encoding/json"
	"io/fs"
	"os"
	"sort"
	"strings"
	"time"

	"mosn.io/mosn/pkg/zzverif/verif"
)

type zzFI struct{ name string }

func (f zzFI) Name() string       { return f.name }
func (f zzFI) Size() int64        { return 1 }
func (f zzFI) Mode() fs.FileMode  { return 0644 }
func (f zzFI) ModTime() time.Time { return time.Time{} }
func (f zzFI) IsDir() bool        { return false }
func (f zzFI) Sys() interface{}   { return nil }

var zzFiles map[string][]byte

// zzMemFS replaces the file system under the engine; natively it returns a temporary directory.
func zzMemFS() string {
	if !verif.Symbolic() {
		d, err := os.MkdirTemp("", "zzverif")
		if err != nil {
			panic(err)
		}
		return d
	}
	zzFiles = map[string][]byte{}
	verif.Replace("os.MkdirAll", func(path string, perm os.FileMode) error { return nil })
	verif.Replace("io/ioutil.ReadDir", func(dir string) ([]os.FileInfo, error) {
		var names []string
		for p := range zzFiles {
			if strings.HasPrefix(p, dir+"/") && !strings.Contains(p[len(dir)+1:], "/") {
				names = append(names, p[len(dir)+1:])
			}
		}
		sort.Strings(names)
		var out []os.FileInfo
		for _, n := range names {
			out = append(out, zzFI{n})
		}
		return out, nil
	})
	verif.Replace("io/ioutil.WriteFile", func(name string, data []byte, perm os.FileMode) error {
		zzFiles[name] = data
		return nil
	})
	verif.Replace("os.Rename", func(from, to string) error {
		b, ok := zzFiles[from]
		if !ok {
			return os.ErrNotExist
		}
		delete(zzFiles, from)
		zzFiles[to] = b
		return nil
	})
	verif.Replace("io/ioutil.ReadFile", func(name string) ([]byte, error) {
		b, ok := zzFiles[name]
		if !ok {
			return nil, os.ErrNotExist
		}
		return b, nil
	})
	verif.Replace("os.Remove", func(name string) error {
		if _, ok := zzFiles[name]; !ok {
			return os.ErrNotExist
		}
		delete(zzFiles, name)
		return nil
	})
	return "zzdir"
}

// names around the MaxFilePath (128) truncation of the file name: 126, 128 and 131 bytes
var zzLong = strings.Repeat("svc.cluster.local-", 8)

var zzVhNames = [][]string{{"vh0"}, {"vh0", "vh1"}, {"re/v1"}, {"vh0", "re/v1"},
	{zzLong[:126]}, {"vh0", zzLong[:128]}, {zzLong[:131], "vh1"}}

func VerifC19_RouterDirectoryMode() {
	dir := zzMemFS()
	if !verif.Symbolic() {
		defer os.RemoveAll(dir)
	}
	h := &zzHv{flip: -1, mode: verif.Choose("shape", 2)}
	names := zzVhNames[verif.Choose("virtual_hosts", len(zzVhNames))]
	rc := RouterConfiguration{}
	rc.RouterConfigName = "r"
	rc.RouterConfigPath = dir
	for _, n := range names {
		vh := zzHv_VirtualHost(h)
		vh.Name = n
		rc.VirtualHosts = append(rc.VirtualHosts, vh)
	}
	cur := rc
	for cycle := 1; cycle <= 2; cycle++ {
		b, err := json.Marshal(cur)
		verif.Assert(err == nil, "the dump fails")
		if err != nil {
			return
		}
		var next RouterConfiguration
		err = json.Unmarshal(b, &next)
		verif.Assert(err == nil, "the dump does not load")
		if err != nil {
			return
		}
		verif.Assert(len(next.VirtualHosts) == len(cur.VirtualHosts), "directory mode: the reloaded router does not hold each dumped virtual host exactly once")
		for _, want := range cur.VirtualHosts {
			found := 0
			for _, got := range next.VirtualHosts {
				if got.Name == want.Name {
					found++
					zzEq_VirtualHost(h, want, got, "virtual host (directory mode)")
				}
			}
			verif.Assert(found == 1, "directory mode: a dumped virtual host is missing after the reload (or is there twice)")
		}
		verif.Assert(next.RouterConfigPath == dir && next.RouterConfigName == "r", "directory mode: the router's own fields changed")
		cur = next
	}
	verif.Cover("two cycles")
}

func VerifC19_ClusterDirectoryMode() {
	dir := zzMemFS()
	if !verif.Symbolic() {
		defer os.RemoveAll(dir)
	}
	h := &zzHv{flip: -1, mode: verif.Choose("shape", 2)}
	names := zzVhNames[verif.Choose("clusters", len(zzVhNames))]
	cm := ClusterManagerConfig{}
	cm.ClusterConfigPath = dir
	for _, n := range names {
		c := zzHv_Cluster(h)
		c.Name = n
		cm.Clusters = append(cm.Clusters, c)
	}
	cur := cm
	for cycle := 1; cycle <= 2; cycle++ {
		b, err := json.Marshal(cur)
		verif.Assert(err == nil, "the dump fails")
		if err != nil {
			return
		}
		var next ClusterManagerConfig
		err = json.Unmarshal(b, &next)
		verif.Assert(err == nil, "the dump does not load")
		if err != nil {
			return
		}
		verif.Assert(len(next.Clusters) == len(cur.Clusters), "directory mode: the reloaded cluster manager does not hold each dumped cluster exactly once")
		for _, want := range cur.Clusters {
			found := 0
			for _, got := range next.Clusters {
				if got.Name == want.Name {
					found++
					zzEq_Cluster(h, want, got, "cluster (directory mode)")
				}
			}
			verif.Assert(found == 1, "directory mode: a dumped cluster is missing after the reload (or is there twice)")
		}
		cur = next
	}
	verif.Cover("two cycles")
}

//verif:pkg mosn.io/mosn/pkg/proxy
package proxy

import (
	"context"
	"time"

	"mosn.io/api"
	"mosn.io/mosn/pkg/protocol"
	"mosn.io/mosn/pkg/types"
	"mosn.io/mosn/pkg/zzverif/verif"
	"mosn.io/pkg/variable"
)

type zzTPolicy struct {
	api.Policy
	rp zzRetryPolicy2
}

type zzRetryPolicy2 struct {
	zzRetryPolicy
	try time.Duration
}

func (p zzRetryPolicy2) TryTimeout() time.Duration { return p.try }
func (p zzTPolicy) RetryPolicy() api.RetryPolicy   { return p.rp }

type zzTRule struct {
	api.RouteRule
	global time.Duration
	pol    zzTPolicy
}

func (r *zzTRule) GlobalTimeout() time.Duration { return r.global }
func (r *zzTRule) Policy() api.Policy           { return r.pol }

type zzTRoute struct {
	api.Route
	rule *zzTRule
}

func (r *zzTRoute) RouteRule() api.RouteRule { return r.rule }

// zzMillis: how a timeout source is written: absent, a number (zero included), or garbage.
var zzMillis = []string{"", "5", "10", "x", "0"}

func zzParse(s string) (time.Duration, bool) {
	switch s {
	case "5":
		return 5 * time.Millisecond, true
	case "10":
		return 10 * time.Millisecond, true
	case "0":
		return 0, true
	case "-1":
		return -1 * time.Millisecond, true
	}
	return 0, false
}

// VerifC17_Timeout: the effective timeouts are the protocol-supplied ones
// (variables) if present, else the request's timeout headers, else the
// route's, else the default; a per-try timeout not below the global one is
// dropped.
func VerifC17_Timeout() {
	routeGlobal := []time.Duration{0, 7 * time.Millisecond, 20 * time.Millisecond}[verif.Choose("route_global", 3)]
	routeTry := []time.Duration{0, 7 * time.Millisecond, 20 * time.Millisecond}[verif.Choose("route_try", 3)]
	hdrVals := append(append([]string{}, zzMillis...), "-1") // a client can send anything
	hdrTry, hdrGlobal := hdrVals[verif.Choose("hdr_try", 6)], hdrVals[verif.Choose("hdr_global", 6)]
	varTry, varGlobal := zzMillis[verif.Choose("var_try", 5)], zzMillis[verif.Choose("var_global", 5)]
	hasRoute := verif.Choose("has_route", 2) == 1
	ctx := variable.NewVariableContext(context.Background())
	headers := protocol.CommonHeader{}
	if hdrTry != "" {
		headers[types.HeaderTryTimeout] = hdrTry
	}
	if hdrGlobal != "" {
		headers[types.HeaderGlobalTimeout] = hdrGlobal
	}
	if varTry != "" {
		variable.SetString(ctx, types.VarProxyTryTimeout, varTry)
	}
	if varGlobal != "" {
		variable.SetString(ctx, types.VarProxyGlobalTimeout, varGlobal)
	}
	var route types.Route
	if hasRoute {
		route = &zzTRoute{rule: &zzTRule{global: routeGlobal, pol: zzTPolicy{rp: zzRetryPolicy2{try: routeTry}}}}
	}
	var got Timeout
	parseProxyTimeout(ctx, &got, route, headers)
	// reference
	var g, t time.Duration
	if hasRoute {
		g, t = routeGlobal, routeTry
	}
	if v, ok := zzParse(hdrGlobal); ok {
		g = v
	}
	if v, ok := zzParse(hdrTry); ok {
		t = v
	}
	if v, ok := zzParse(varGlobal); ok {
		g = v
	}
	if v, ok := zzParse(varTry); ok {
		t = v
	}
	if g <= 0 { // zero or negative: not set
		g = types.GlobalTimeout
	}
	if t < 0 || t >= g {
		t = 0
	}
	verif.Assert(got.GlobalTimeout > 0 && got.TryTimeout >= 0, "a request would run without a response timeout")
	verif.Assert(got.GlobalTimeout == g, "effective global timeout differs from the documented precedence")
	verif.Assert(got.TryTimeout == t, "effective per-try timeout differs from the documented precedence")
	verif.Cover("end")
}

// VerifC17_RetryDecision: a request is retried only under the configured
// conditions (reset-reason driven part of the table), never when retries are
// disabled by the protocol, never on overflow, and only while budget remains.
func VerifC17_RetryDecision() {
	max := uint32(verif.Choose("max_retries", 2))
	info := zzNewInfo(max)
	on := verif.Choose("retry_on", 2) == 1
	rs := newRetryState(zzRetryPolicy{on: on, n: uint32(verif.Choose("num", 2)) * 4}, nil, info, "zz")
	budget := rs.retiesRemaining
	ctx := variable.NewVariableContext(context.Background())
	disabled := verif.Choose("disable_retry", 3) // 0 unset, 1 false, 2 true
	if disabled > 0 {
		variable.Set(ctx, types.VarProxyDisableRetry, disabled == 2)
	}
	reason := zzReasons[verif.Choose("reason", len(zzReasons))]
	used := verif.Choose("used", int(budget)+1) // attempts already consumed
	rs.retiesRemaining = budget - uint32(used)
	if verif.Choose("resource_full", 2) == 1 && max > 0 {
		info.rm.Retries().Increase() // another request holds the only retry slot
	}
	full := max > 0 && info.rm.Retries().Cur() >= int64(max)
	st := rs.retry(ctx, nil, reason)
	retriable := false
	switch reason {
	case types.StreamConnectionFailed:
		retriable = true
	case types.UpstreamPerTryTimeout, types.StreamConnectionTermination:
		retriable = on
	}
	switch {
	case used >= int(budget):
		verif.Assert(st == api.NoRetry, "no retry once the budget max(3,num_retries) is used up")
	case disabled == 2 || reason == types.StreamOverflow || !retriable:
		verif.Assert(st == api.NoRetry, "retried although the configured conditions do not hold")
	case full:
		verif.Assert(st == api.RetryOverflow, "retry admitted beyond the cluster's max_retries")
	default:
		verif.Assert(st == api.ShouldRetry, "retry refused although the configured conditions hold")
		verif.Cover("retry")
	}
	verif.Cover("end")
}

//verif:pkg mosn.io/mosn/pkg/proxy
package proxy

import (
	"context"
	"time"

	gometrics "github.com/rcrowley/go-metrics"
	"mosn.io/api"
	v2 "mosn.io/mosn/pkg/config/v2"
	"mosn.io/mosn/pkg/types"
	"mosn.io/mosn/pkg/upstream/cluster"
	"mosn.io/mosn/pkg/zzverif/verif"
	"mosn.io/pkg/variable"
)

type zzCounter struct{ n int64 }

func (c *zzCounter) Clear()                      { c.n = 0 }
func (c *zzCounter) Count() int64                { return c.n }
func (c *zzCounter) Dec(i int64)                 { c.n -= i }
func (c *zzCounter) Inc(i int64)                 { c.n += i }
func (c *zzCounter) Snapshot() gometrics.Counter { return c }

type zzRetryPolicy struct {
	on    bool
	n     uint32
	codes []uint32
}

func (p zzRetryPolicy) RetryOn() bool                  { return p.on }
func (p zzRetryPolicy) TryTimeout() time.Duration      { return 0 }
func (p zzRetryPolicy) NumRetries() uint32             { return p.n }
func (p zzRetryPolicy) RetryableStatusCodes() []uint32 { return p.codes }

type zzInfo struct {
	types.ClusterInfo
	rm types.ResourceManager
	st *types.ClusterStats
}

func (i *zzInfo) Name() string                           { return "c" }
func (i *zzInfo) ResourceManager() types.ResourceManager { return i.rm }
func (i *zzInfo) Stats() *types.ClusterStats             { return i.st }

var zzReasons = []types.StreamResetReason{types.StreamConnectionFailed, types.UpstreamPerTryTimeout, types.StreamConnectionTermination,
	types.StreamOverflow, types.StreamRemoteReset, types.UpstreamGlobalTimeout}

func zzNewInfo(maxRetries uint32) *zzInfo {
	return &zzInfo{
		rm: cluster.NewResourceManager(v2.CircuitBreakers{Thresholds: []v2.Thresholds{{MaxRetries: maxRetries}}}),
		st: &types.ClusterStats{UpstreamRequestRetry: &zzCounter{}, UpstreamRequestRetryOverflow: &zzCounter{}},
	}
}

// VerifC10_RetryBudget: over any sequence of upstream outcomes handled by one
// request's retryState, the cluster's retry resource never goes negative, never
// exceeds its limit through an admitted retry, and is back to zero once the
// request is cleaned up.
func VerifC10_RetryBudget() {
	max := uint32(verif.Choose("max", 3))
	info := zzNewInfo(max)
	rs := newRetryState(zzRetryPolicy{on: verif.Bool("on"), n: uint32(5 * verif.Choose("num", 2))}, nil, info, "zz")
	budget := int(rs.retiesRemaining)
	ctx := variable.NewVariableContext(context.Background())
	res := info.rm.Retries()
	admitted := 0
	steps := verif.Param("steps", 3, 4)
	for i := 0; i < steps; i++ {
		if verif.Bool("isretry") {
			reason := zzReasons[verif.Choose("reason", len(zzReasons))]
			st := rs.retry(ctx, nil, reason)
			if st == api.ShouldRetry {
				admitted++
				if max > 0 {
					verif.Assert(res.Cur() <= int64(max), "admitted retry exceeds max_retries")
					verif.Assert(res.Cur() >= 1, "admitted retry is not counted")
				}
				verif.Cover("admitted")
			}
		} else {
			rs.reset() // what onUpstreamHeaders (no retry) and cleanUp do
		}
		verif.Assert(res.Cur() >= 0, "retry resource went negative")
	}
	rs.reset() // cleanUp
	verif.Assert(res.Cur() == 0, "retry resource not back to zero after the request ended")
	verif.Assert(admitted <= budget, "more retries admitted than the budget max(3,num_retries)")
	verif.Cover("end")
}

//verif:pkg mosn.io/mosn/pkg/proxy
//verif:init mosn.io/mosn/pkg/track mosn.io/mosn/pkg/router mosn.io/mosn/pkg/streamfilter
package proxy

import (
	"errors"
	"container/list"
	"context"
	"net"
	"time"

	gometrics "github.com/rcrowley/go-metrics"
	"mosn.io/api"
	v2 "mosn.io/mosn/pkg/config/v2"
	"mosn.io/mosn/pkg/protocol"
	"mosn.io/mosn/pkg/router"
	"mosn.io/mosn/pkg/stream"
	"mosn.io/mosn/pkg/types"
	"mosn.io/mosn/pkg/zzverif/verif"
	"mosn.io/pkg/buffer"
	"mosn.io/pkg/variable"
)

type zzHist struct{ n int64 }

func (h *zzHist) Clear()                        {}
func (h *zzHist) Count() int64                  { return h.n }
func (h *zzHist) Max() int64                    { return 0 }
func (h *zzHist) Mean() float64                 { return 0 }
func (h *zzHist) Min() int64                    { return 0 }
func (h *zzHist) Percentile(float64) float64    { return 0 }
func (h *zzHist) Percentiles([]float64) []float64 { return nil }
func (h *zzHist) Sample() gometrics.Sample      { return nil }
func (h *zzHist) Snapshot() gometrics.Histogram { return h }
func (h *zzHist) StdDev() float64               { return 0 }
func (h *zzHist) Sum() int64                    { return 0 }
func (h *zzHist) Update(int64)                  { h.n++ }
func (h *zzHist) Variance() float64             { return 0 }

type zzEWMA struct{ n int64 }

func (e *zzEWMA) Rate() float64            { return 0 }
func (e *zzEWMA) Snapshot() gometrics.EWMA { return e }
func (e *zzEWMA) Tick()                    {}
func (e *zzEWMA) Update(int64)             { e.n++ }

func zzStats() *Stats {
	c := func() gometrics.Counter { return &zzCounter{} }
	return &Stats{DownstreamConnectionTotal: c(), DownstreamConnectionDestroy: c(), DownstreamConnectionActive: c(), DownstreamBytesReadTotal: c(),
		DownstreamBytesWriteTotal: c(), DownstreamRequestTotal: c(), DownstreamRequestActive: c(), DownstreamRequestReset: c(),
		DownstreamRequestTime: &zzHist{}, DownstreamRequestTimeTotal: c(), DownstreamProcessTime: &zzHist{}, DownstreamProcessTimeTotal: c(),
		DownstreamRequestFailed: c(), DownstreamRequest200Total: c(), DownstreamRequest206Total: c(), DownstreamRequest302Total: c(),
		DownstreamRequest304Total: c(), DownstreamRequest400Total: c(), DownstreamRequest403Total: c(), DownstreamRequest404Total: c(),
		DownstreamRequest416Total: c(), DownstreamRequest499Total: c(), DownstreamRequest500Total: c(), DownstreamRequest502Total: c(),
		DownstreamRequest503Total: c(), DownstreamRequest504Total: c(), DownstreamRequestOtherTotal: c()}
}

type zzMPolicy struct {
	api.Policy
	rp zzRetryPolicy2
}

func (p zzMPolicy) RetryPolicy() api.RetryPolicy { return p.rp }

type zzMRule struct {
	api.RouteRule
	pol zzMPolicy
}

func (r *zzMRule) ClusterName(context.Context) string { return "c" }
func (r *zzMRule) UpstreamProtocol() string           { return "" }
func (r *zzMRule) GlobalTimeout() time.Duration       { return 300 * time.Second }
func (r *zzMRule) Policy() api.Policy                 { return r.pol }
func (r *zzMRule) FinalizeRequestHeaders(context.Context, api.HeaderMap, api.RequestInfo)  {}
func (r *zzMRule) FinalizeResponseHeaders(context.Context, api.HeaderMap, api.RequestInfo) {}
func (r *zzMRule) MetadataMatchCriteria(string) api.MetadataMatchCriteria                  { return nil }

type zzMRoute struct {
	api.Route
	rule *zzMRule
}

func (r *zzMRoute) RouteRule() api.RouteRule                   { return r.rule }
func (r *zzMRoute) DirectResponseRule() api.DirectResponseRule {
	if zzDirect != nil {
		return zzDirect
	}
	return nil
}

// zzDirect, when set, makes the mock route a direct-response route
var zzDirect *zzMDirect

type zzMDirect struct {
	status int
	body   string
}

func (r *zzMDirect) StatusCode() int { return r.status }
func (r *zzMDirect) Body() string    { return r.body }
func (r *zzMRoute) RedirectRule() api.RedirectRule {
	if zzRedirect != nil {
		return zzRedirect
	}
	return nil
}

// zzRedirect, when set, makes the mock route a redirect route
var zzRedirect *zzMRedirect

type zzMRedirect struct {
	scheme, host, path string
	code               int
}

func (r *zzMRedirect) RedirectCode() int      { return r.code }
func (r *zzMRedirect) RedirectPath() string   { return r.path }
func (r *zzMRedirect) RedirectHost() string   { return r.host }
func (r *zzMRedirect) RedirectScheme() string { return r.scheme }

type zzMSnap struct {
	types.ClusterSnapshot
	info *zzInfo
}

func (s *zzMSnap) ClusterInfo() types.ClusterInfo { return s.info }

type zzMHandler struct {
	snap  *zzMSnap
	route *zzMRoute
}

func (h *zzMHandler) IsAvailable(context.Context, types.ClusterManager) (types.ClusterSnapshot, types.HandlerStatus) {
	return h.snap, types.HandlerAvailable
}
func (h *zzMHandler) Route() api.Route { return h.route }

type zzMHost struct {
	types.Host
	info *zzInfo
	hs   *types.HostStats
}

func (h *zzMHost) AddressString() string          { return "1.1.1.1:1" }
func (h *zzMHost) ClusterInfo() types.ClusterInfo { return h.info }
func (h *zzMHost) HostStats() *types.HostStats    { return h.hs }

type zzMPool struct {
	types.ConnectionPool
	calls    int
	scripted bool // false: every attempt fails to connect
	host     types.Host
	senders  []*zzUpSender
	onUpHeaders func() // handed to every upstream sender the pool creates
	bodyMayFail bool   // the write of a request body may fail on any attempt
}

// zzUpSender records what the proxy sends upstream.
type zzUpSender struct {
	types.StreamSender
	st        *zzMStream
	headers   int
	ended     bool   // the whole request was handed over (end of stream seen)
	onHeaders func() // environment hook: something happens while the request headers are being written upstream
	failBody  bool   // the write of the request body (or trailers) fails: the stream layer resets the stream inside the call
}

func (s *zzUpSender) GetStream() types.Stream { return s.st }
func (s *zzUpSender) AppendHeaders(ctx context.Context, h api.HeaderMap, end bool) error {
	s.headers++
	if end {
		s.ended = true
	}
	if s.onHeaders != nil {
		f := s.onHeaders
		s.onHeaders = nil
		f()
	}
	return nil
}
func (s *zzUpSender) AppendData(ctx context.Context, b buffer.IoBuffer, end bool) error {
	if end {
		s.ended = true
		if s.failBody {
			// what xStream.endStream does when the connection refuses the write
			s.st.ResetStream(types.StreamConnectionFailed)
		}
	}
	return nil
}
func (s *zzUpSender) AppendTrailers(context.Context, api.HeaderMap) error {
	s.ended = true
	if s.failBody {
		s.st.ResetStream(types.StreamConnectionFailed)
	}
	return nil
}

func (p *zzMPool) NewStream(context.Context, types.StreamReceiveListener) (types.Host, types.StreamSender, types.PoolFailureReason) {
	p.calls++
	if !p.scripted {
		return nil, nil, types.ConnectionFailure
	}
	switch verif.Choose("pool_outcome", 3) {
	case 1:
		return p.host, nil, types.ConnectionFailure
	case 2:
		return p.host, nil, types.Overflow
	}
	up := &zzUpSender{st: &zzMStream{}, onHeaders: p.onUpHeaders}
	if p.bodyMayFail {
		up.failBody = verif.Choose("body_write_fails", 2) == 1
	}
	p.senders = append(p.senders, up)
	return p.host, up, ""
}

type zzMCM struct {
	types.ClusterManager
	pool     *zzMPool
	host     *zzMHost
	calls    int
	mayEmpty bool // from the second call on, the cluster may have no host left
}

func (c *zzMCM) ConnPoolForCluster(types.LoadBalancerContext, types.ClusterSnapshot, api.ProtocolName) (types.ConnectionPool, types.Host) {
	c.calls++
	if c.mayEmpty && c.calls > 1 && verif.Choose("no_host_left", 2) == 1 {
		return nil, nil
	}
	return c.pool, c.host
}

type zzMStream struct {
	stream.BaseStream
	resets int
}

func (s *zzMStream) ResetStream(r types.StreamResetReason) {
	s.resets++
	s.BaseStream.ResetStream(r)
}

func (s *zzMStream) ID() uint64 { return 1 }

type zzMSender struct {
	types.StreamSender
	st      *zzMStream
	headers int
	ends    int
	last    api.HeaderMap // the headers of the last response written to the client
	datas   int
	body    string
	onHeaders func()      // environment hook: something happens while response headers are being written
}

func (s *zzMSender) GetStream() types.Stream { return s.st }
func (s *zzMSender) AppendHeaders(ctx context.Context, h api.HeaderMap, end bool) error {
	s.headers++
	s.last = h
	if s.onHeaders != nil && !end {
		f := s.onHeaders
		s.onHeaders = nil
		f()
	}
	if end {
		s.ends++
	}
	return nil
}
func (s *zzMSender) AppendData(ctx context.Context, b buffer.IoBuffer, end bool) error {
	s.datas++
	if b != nil {
		s.body += string(b.Bytes())
	}
	if end {
		s.ends++
	}
	return nil
}
func (s *zzMSender) AppendTrailers(context.Context, api.HeaderMap) error { s.ends++; return nil }

type zzMSSC struct{ types.ServerStreamConnection }

func (zzMSSC) Protocol() types.ProtocolName { return "zzp" }

// zzMapping gives the proxy a status code for the scripted upstream's replies.
type zzMapping struct{}

// zzHTTPFamily: the upstream protocol reports the response status through the
// x-mosn-status variable of the request context, as the HTTP/1 and HTTP/2 client streams do
// (the variable outlives the attempt that set it).
var zzHTTPFamily bool

func (zzMapping) MappingHeaderStatusCode(ctx context.Context, h api.HeaderMap) (int, error) {
	if zzHTTPFamily {
		return protocol.GetStatusCodeMapping{}.MappingHeaderStatusCode(ctx, h)
	}
	if h == nil {
		return 0, protocol.ErrNoMapping
	}
	if v, ok := h.Get("status"); ok && v == "503" {
		return 503, nil
	}
	if _, ok := h.Get("status"); ok {
		return 200, nil
	}
	// no status in the frame: the HTTP family's mapping (protocol.GetStatusCodeMapping) reads the
	// status variable - which a locally generated reply also sets
	return protocol.GetStatusCodeMapping{}.MappingHeaderStatusCode(ctx, h)
}

type zzSF struct{ types.ProtocolStreamFactory }

func zzRegisterProtocol() {
	protocol.RegisterProtocol("zzp", func(context.Context, types.Host) types.ConnectionPool { return nil }, zzSF{}, zzMapping{})
}
func (zzMSSC) EnableWorkerPool() bool       { return false }

type zzMConn struct{ api.Connection }

func (zzMConn) LocalAddr() net.Addr  { return nil }
func (zzMConn) RemoteAddr() net.Addr { return nil }

type zzMCB struct{ api.ReadFilterCallbacks }

func (zzMCB) Connection() api.Connection { return zzMConn{} }

type zzMRW struct{ types.RouterWrapper }
type zzMRouters struct{ types.Routers }

func (zzMRW) GetRouters() types.Routers { return zzMRouters{} }

var zzTryTimeout time.Duration
var zzMaxRetries uint32

func zzMachine(numRetries uint32, retryOn bool) (*downStream, *zzMSender, *zzMPool, *proxy, context.Context) {
	return zzMachine2(numRetries, retryOn, false)
}

// zzMachine2: oneway = the downstream request has no response sender (a one-way request).
func zzMachine2(numRetries uint32, retryOn bool, oneway bool) (*downStream, *zzMSender, *zzMPool, *proxy, context.Context) {
	zzRegisterProtocol()
	ctx := variable.NewVariableContext(context.Background())
	ctx = buffer.NewBufferPoolContext(ctx)
	info := zzNewInfo(zzMaxRetries)
	c := func() gometrics.Counter { return &zzCounter{} }
	rr, ro := info.st.UpstreamRequestRetry, info.st.UpstreamRequestRetryOverflow
	info.st = &types.ClusterStats{UpstreamConnectionTotal: c(), UpstreamConnectionClose: c(), UpstreamConnectionActive: c(), UpstreamConnectionConFail: c(),
		UpstreamConnectionRetry: c(), UpstreamConnectionLocalClose: c(), UpstreamConnectionRemoteClose: c(), UpstreamConnectionLocalCloseWithActiveRequest: c(),
		UpstreamConnectionRemoteCloseWithActiveRequest: c(), UpstreamConnectionCloseNotify: c(), UpstreamBytesReadTotal: c(), UpstreamBytesWriteTotal: c(),
		UpstreamRequestTotal: c(), UpstreamRequestActive: c(), UpstreamRequestLocalReset: c(), UpstreamRequestRemoteReset: c(), UpstreamRequestRetry: rr,
		UpstreamRequestRetryOverflow: ro, UpstreamRequestTimeout: c(), UpstreamRequestFailureEject: c(), UpstreamRequestPendingOverflow: c(),
		UpstreamRequestDuration: &zzHist{}, UpstreamRequestDurationEWMA: &zzEWMA{}, UpstreamRequestDurationTotal: c(), UpstreamResponseSuccess: c(),
		UpstreamResponseFailed: c(), LBSubSetsFallBack: c()}
	host := &zzMHost{info: info, hs: &types.HostStats{UpstreamConnectionTotal: c(), UpstreamConnectionClose: c(), UpstreamConnectionActive: c(),
		UpstreamConnectionConFail: c(), UpstreamConnectionLocalClose: c(), UpstreamConnectionRemoteClose: c(), UpstreamConnectionLocalCloseWithActiveRequest: c(),
		UpstreamConnectionRemoteCloseWithActiveRequest: c(), UpstreamConnectionCloseNotify: c(), UpstreamRequestTotal: c(), UpstreamRequestActive: c(),
		UpstreamRequestLocalReset: c(), UpstreamRequestRemoteReset: c(), UpstreamRequestTimeout: c(), UpstreamRequestFailureEject: c(),
		UpstreamRequestPendingOverflow: c(), UpstreamResponseFailed: c(), UpstreamResponseSuccess: c(),
		UpstreamRequestDuration: &zzHist{}, UpstreamRequestDurationEWMA: &zzEWMA{}, UpstreamRequestDurationTotal: c(),
		UpstreamResponseTotalEWMA: &zzEWMA{}, UpstreamResponseClientErrorEWMA: &zzEWMA{}, UpstreamResponseServerErrorEWMA: &zzEWMA{}}}
	pool := &zzMPool{host: host}
	route := &zzMRoute{rule: &zzMRule{pol: zzMPolicy{rp: zzRetryPolicy2{zzRetryPolicy: zzRetryPolicy{on: retryOn, n: numRetries}, try: zzTryTimeout}}}}
	snap := &zzMSnap{info: info}
	p := &proxy{
		config:           &v2.Proxy{},
		clusterManager:   &zzMCM{pool: pool, host: host},
		readCallbacks:    zzMCB{},
		routersWrapper:   zzMRW{},
		serverStreamConn: zzMSSC{},
		context:          ctx,
		activeStreams:    list.New(),
		stats:            zzStats(),
		listenerStats:    zzStats(),
		routeHandlerFactory: router.MakeHandlerFunc(func(context.Context, api.HeaderMap, types.Routers) types.RouteHandler {
			return &zzMHandler{snap: snap, route: route}
		}),
	}
	sender := &zzMSender{st: &zzMStream{}}
	if oneway {
		return newActiveStream(ctx, p, nil, nil), sender, pool, p, ctx
	}
	ds := newActiveStream(ctx, p, sender, nil)
	return ds, sender, pool, p, ctx
}

// VerifC03_DeepRetry: every upstream attempt fails to connect; whatever the
// retry budget, the client gets exactly one (error) reply and the request is
// cleaned up - no silent end.
func VerifC03_DeepRetry() {
	n := uint32(verif.Choose("num_retries", verif.Param("maxretries", 12, 13)))
	ds, sender, pool, p, ctx := zzMachine(n, true)
	active0 := p.stats.DownstreamRequestActive.Count()
	// the request: headers only, headers + body, headers + body + trailers
	var body buffer.IoBuffer
	var trailers api.HeaderMap
	switch verif.Choose("request_shape", 3) {
	case 1:
		body = buffer.NewIoBufferBytes([]byte("b"))
		verif.Cover("with-body")
	case 2:
		body = buffer.NewIoBufferBytes([]byte("b"))
		trailers = protocol.CommonHeader{"t": "v"}
		verif.Cover("with-trailers")
	}
	ds.OnReceive(ctx, protocol.CommonHeader{}, body, trailers)
	budget := int(n)
	if budget < 3 {
		budget = 3
	}
	verif.Assert(pool.calls <= 1+budget, "more upstream attempts than one plus the retry budget")
	verif.Assert(sender.headers == 1, "the client must get exactly one reply")
	verif.Assert(ds.downstreamCleaned == 1, "the request was not cleaned up (silent end)")
	verif.Assert(p.stats.DownstreamRequestActive.Count() == active0-1, "DownstreamRequestActive not released")
	verif.Cover("end")
}


var zzUpReasons = []types.StreamResetReason{types.StreamConnectionTermination, types.StreamRemoteReset, types.StreamConnectionFailed}

// VerifC03_EventMachine: one two-way request against every order of upstream
// reply, upstream reset, timer expiry and client disconnect (with the pool
// succeeding, failing to connect or overflowing on each attempt): at most one
// reply ever; once the worker has finished, exactly one reply - or none only
// if the client disconnected -, the stream cleaned up, its gauge released and
// no timer left armed; while it is still waiting, a timeout is armed.
func VerifC03_EventMachine() {
	zzEventMachine(false)
}

// VerifC10_ProxyRetrySlot: the same machine with max_retries = 1 and a
// cluster that may run out of hosts when a retry is about to be sent: at the
// end of the request the cluster's retries resource is back to zero and the
// downstream gauge is released exactly once.
func VerifC10_ProxyRetrySlot() {
	zzEventMachine(true)
}

// zzRetryingRoute restricts the event machine to a route that retries (retry_on, budget 2):
// the configuration in which "retried only under the configured conditions" and "the
// global timeout ends the request" interact (VerifC17_RetryEndsAtGlobalTimeout).
var zzRetryingRoute bool

// VerifC17_RetryEndsAtGlobalTimeout: on a retrying route, whatever the order of upstream
// replies (200 / 503, status in the frame or in the request variable), resets, timer
// expiries and a client disconnect: the request ends with one reply and no timer armed -
// in particular the expiry of the global timeout is final, it never starts another attempt
// that would run without a timeout.
func VerifC17_RetryEndsAtGlobalTimeout() {
	zzRetryingRoute = true
	zzEventMachine(false)
}

// zzWithTerminate adds a fifth kind of event: a stream filter that kept its handler
// answers the request itself (TerminateStream) at an arbitrary moment.
var zzWithTerminate bool

// (VerifC03_ThoroughFilterTerminates_T runs the event machine with that event in the thorough tier;
// the quick tier has the scripted VerifC03_RefusedTerminate.)
func VerifC03_FilterTerminates_T() {
	zzRetryingRoute, zzWithTerminate = true, true
	zzEventMachine(false)
}

func zzEventMachine(accounting bool) {
	verif.Switches(0) // the environment acts exactly when the worker is blocked or done
	if accounting {
		zzMaxRetries = 1
	}
	retryOn := zzRetryingRoute || verif.Choose("retry_on", 2) == 1
	zzTryTimeout = time.Duration(verif.Choose("try_timeout", 2)) * time.Second
	zzHTTPFamily = verif.Choose("status_through_variable", 2) == 1
	// retry budget: none or two in the quick tier (two: a retry can be followed by another), 0..2 in the thorough tier
	budget := uint32(2)
	if !zzRetryingRoute {
		budget = uint32(2 * verif.Choose("num_retries", 2))
	}
	if verif.Tier() > 0 && !zzRetryingRoute {
		budget = uint32(verif.Choose("num_retries_t", 3))
	}
	ds, sender, pool, p, ctx := zzMachine(budget, retryOn)
	zzTryTimeout, zzMaxRetries = 0, 0
	pool.scripted = true
	cm := p.clusterManager.(*zzMCM)
	cm.mayEmpty = accounting
	retries := cm.host.info.rm.Retries()
	active0 := p.stats.DownstreamRequestActive.Count()
	kf := &zzKeepFilter{}
	nEvents := 4
	if zzWithTerminate {
		ds.streamFilterChain.AddStreamReceiverFilter(kf, api.AfterChooseHost)
		nEvents = 5
	}
	done := false
	clientGone := false
	raced := false // a timer expired while an upstream outcome (reset or reply) was recorded and unprocessed
	go func() {
		ds.OnReceive(ctx, protocol.CommonHeader{}, nil, nil)
		done = true
	}()
	verif.Settle()
	events := verif.Param("events", 2, 3)
	if accounting {
		events = verif.Param("acc_events", 1, 2)
	}
	for i := 0; i < events && !done; i++ {
		verif.Assert(sender.headers <= 1, "the client got two responses")
		switch verif.Choose("event", nEvents) {
		case 4: // a stream filter answers the request itself
			if kf.handler != nil {
				kf.handler.TerminateStream(504)
			}
		case 0: // the upstream answers
			if ur := ds.upstreamRequest; ur != nil && ur.requestSender != nil {
				status := []string{"200", "503"}[verif.Choose("status", 2)]
				if zzHTTPFamily {
					variable.SetString(ctx, types.VarHeaderStatus, status)
					ur.OnReceive(ctx, protocol.CommonHeader{}, nil, nil)
				} else {
					ur.OnReceive(ctx, protocol.CommonHeader{"status": status}, nil, nil)
				}
				verif.Cover("reply")
			}
		case 1: // the upstream stream is reset
			if ur := ds.upstreamRequest; ur != nil && ur.requestSender != nil {
				ur.OnResetStream(zzUpReasons[verif.Choose("reason", len(zzUpReasons))])
			}
		case 2: // an armed timer (per-try or global) expires
			if n := verif.NumTimers(); n > 0 {
				verif.EngineOnly("timer expiry is driven by the engine's timer table")
				if ds.upstreamReset == 1 || ds.upstreamResponseReceived == 1 {
					raced = true // an upstream outcome is recorded but the worker has not processed it yet
				}
				verif.FireTimer(verif.Choose("timer", n))
				verif.Cover("timeout")
			}
		default: // the client disconnects
			clientGone = true
			sender.st.ResetStream(types.StreamRemoteReset)
			verif.Cover("client-reset")
		}
		// the next event may arrive before the worker has reacted to this one
		if verif.Choose("worker_runs_first", 2) == 1 {
			verif.Settle()
		} else {
			verif.EngineOnly("two events before the worker runs: needs a controlled schedule")
		}
	}
	verif.Settle()
	// the upstream stays silent from here on: every armed timeout expires in turn
	for k := 0; k < 4 && !done && verif.Symbolic() && verif.NumTimers() > 0; k++ {
		verif.FireTimer(0)
		verif.Settle()
	}
	verif.Assert(sender.headers <= 1, "the client got two responses")
	if done {
		if !clientGone {
			verif.Assert(sender.headers == 1, "the request ended without a reply although the client is still there (unexplained silence)")
		}
		// (the downStream object itself may already be recycled: its release is observed through the gauge)
		verif.Assert(p.stats.DownstreamRequestActive.Count() == active0-1, "the request ended but DownstreamRequestActive was not released exactly once (not cleaned up, or cleaned twice)")
		if verif.Symbolic() {
			verif.Assert(verif.NumTimers() == 0, "engine: a timer is still armed after the request ended")
		}
		if accounting {
			verif.Assert(retries.Cur() == 0, "the cluster's retries resource is not back to zero after the request ended")
		}
		verif.Cover("finished")
	} else {
		if verif.Symbolic() {
			// still waiting although every timeout has expired
			if raced {
				verif.Assert(false, "engine: global timeout expired while a retriable upstream outcome was pending: the retry runs with no timeout armed (would hang)")
			} else {
				verif.Assert(false, "engine: the upstream stays silent and every timeout has expired, but the request is still waiting (hangs)")
			}
		}
	}
	verif.Cover("end")
}

// ---- stream filters inside the proxy machine (C14)

type zzFCall struct{ idx int }

type zzPFilter struct {
	idx     int
	log     *[]int
	verdict api.StreamFilterStatus // returned on the first invocation; later invocations continue
	hijack  bool                   // send a local reply before returning stop
	code    int                    // status of that local reply
	handler api.StreamReceiverFilterHandler
	calls   int
}

func (f *zzPFilter) OnDestroy() {}
func (f *zzPFilter) OnReceive(ctx context.Context, h api.HeaderMap, b api.IoBuffer, t api.HeaderMap) api.StreamFilterStatus {
	*f.log = append(*f.log, f.idx)
	f.calls++
	if f.calls > 1 {
		return api.StreamFilterContinue
	}
	if f.hijack {
		f.handler.SendHijackReply(f.code, h)
	}
	return f.verdict
}
func (f *zzPFilter) SetReceiveFilterHandler(h api.StreamReceiverFilterHandler) { f.handler = h }

type zzPSend struct {
	calls int
}

func (f *zzPSend) OnDestroy() {}
func (f *zzPSend) Append(ctx context.Context, h api.HeaderMap, b api.IoBuffer, t api.HeaderMap) api.StreamFilterStatus {
	f.calls++
	return api.StreamFilterContinue
}
func (f *zzPSend) SetSenderFilterHandler(api.StreamSenderFilterHandler) {}

// VerifC14_ProxyFilters: scripted receive filters inside the real request
// machine. One filter may deny (stop + local reply, or termination) or ask
// once for re-match-route / re-choose-host; all others continue.
//   - a denied request is never sent upstream; a local reply reaches the client
//     exactly once and passes the send filter;
//   - re-match / re-choose resume at the requesting filter: every filter before
//     it runs once, the requester twice, nobody else more than once;
//   - within a phase filters run in configured order.
func VerifC14_ProxyFilters() {
	verif.Switches(0)
	nf := 1 + verif.Choose("filters", verif.Param("pfilters", 2, 3))
	special := verif.Choose("special", nf) // which filter gets the non-continue verdict
	kind := verif.Choose("kind", 6)        // 0 continue, 1 stop+hijack, 2 termination, 3 re-match, 4 re-choose, 5 hijack but continue verdict
	// the route may allow retries, and the filter's own reply may carry a status the retry policy
	// would retry if it came from an upstream (503) - it must still be the one and only response
	retryOn := verif.Choose("route_retry_on", 2) == 1
	denyCode := []int{403, 503}[verif.Choose("deny_status", 2)]
	nRetries := uint32(0)
	if retryOn {
		nRetries = 1
	}
	ds, sender, pool, _, ctx := zzMachine(nRetries, retryOn)
	pool.scripted = true
	var log []int
	var phases []api.ReceiverFilterPhase
	var filters []*zzPFilter
	for i := 0; i < nf; i++ {
		ph := api.ReceiverFilterPhase(verif.Choose("phase", 3))
		f := &zzPFilter{idx: i, log: &log, verdict: api.StreamFilterContinue}
		if i == special {
			// the filter API allows re-match only after route matching and re-choose only after host choice
			if kind == 3 {
				ph = api.AfterRoute
			}
			if kind == 4 {
				ph = api.AfterChooseHost
			}
			switch kind {
			case 1:
				f.verdict, f.hijack, f.code = api.StreamFilterStop, true, denyCode
			case 2:
				f.verdict = api.StreamFiltertermination
			case 3:
				f.verdict = api.StreamFilterReMatchRoute
			case 4:
				f.verdict = api.StreamFilterReChooseHost
			case 5:
				// the filter answers the request itself and lets its phase go on
				f.verdict, f.hijack, f.code = api.StreamFilterContinue, true, denyCode
			}
		}
		phases = append(phases, ph)
		filters = append(filters, f)
		ds.streamFilterChain.AddStreamReceiverFilter(f, ph)
	}
	sf := &zzPSend{}
	ds.streamFilterChain.AddStreamSenderFilter(sf, api.BeforeSend)
	done := false
	go func() {
		ds.OnReceive(ctx, protocol.CommonHeader{}, nil, nil)
		done = true
	}()
	verif.Settle()
	if !done {
		if ur := ds.upstreamRequest; ur != nil && ur.requestSender != nil {
			ur.OnReceive(ctx, protocol.CommonHeader{"status": "200"}, nil, nil)
		}
		verif.Settle()
	}
	verif.Assume(done) // pool failures etc. are C03's subject; here the upstream answers if asked
	effective := kind
	switch effective {
	case 5:
		verif.Assert(pool.calls == 0, "a request answered by a filter was still sent upstream")
		verif.Assert(sender.headers == 1, "the filter's local reply must reach the client exactly once")
		verif.Assert(sf.calls == 1, "the local reply must pass the send filters once")
		verif.Cover("hijack-continue")
	case 1:
		verif.Assert(pool.calls == 0, "a request answered by a filter was still sent upstream")
		verif.Assert(sender.headers == 1, "the filter's local reply must reach the client exactly once")
		verif.Assert(sf.calls == 1, "the local reply must pass the send filters once")
		verif.Cover("hijack")
	case 2:
		verif.Assert(pool.calls == 0, "a terminated request was still sent upstream")
		verif.Assert(sender.headers == 0, "a terminated request must not get a reply")
		verif.Cover("terminated")
	default:
		verif.Assert(sender.headers == 1 && sf.calls == 1, "exactly one response through the send filters")
	}
	// invocation counts and order
	count := make([]int, nf)
	for _, i := range log {
		count[i]++
	}
	for i := 0; i < nf; i++ {
		want := 1
		if effective == 1 || effective == 2 {
			// after a deny nothing later runs: later = later phase, or same phase and later index
			if phases[i] > phases[special] || (phases[i] == phases[special] && i > special) {
				want = 0
			}
		}
		if effective == 5 && phases[i] > phases[special] {
			want = 0 // the rest of the filter's own phase still runs, later phases do not
		}
		if (effective == 3 || effective == 4) && i == special {
			want = 2
		}
		verif.Assert(count[i] == want, "a filter ran a wrong number of times (skipped, re-run, or run after a deny)")
	}
	// order: by phase, then index; the requester's second run directly follows its first
	prevPhase, prevIdx := api.ReceiverFilterPhase(0), -1
	for k, i := range log {
		if k > 0 && i == log[k-1] {
			continue // the requester resumed
		}
		ok := phases[i] > prevPhase || (phases[i] == prevPhase && i > prevIdx)
		if k == 0 {
			ok = true
		}
		verif.Assert(ok, "filters did not run in phase order and configured order")
		prevPhase, prevIdx = phases[i], i
	}
	if effective == 3 || effective == 4 {
		verif.Cover("resumed")
	}
	verif.Cover("end")
}

// VerifC03_SilentUpstream: the upstream accepts the request and never
// answers. Whatever timeout values the route, the request headers or the
// protocol variables supply (zero, small, garbage, absent), a timeout is armed
// while the request waits, and when the armed timers have expired the client
// has exactly one reply and the request is cleaned up - it never hangs.
func VerifC03_SilentUpstream() {
	verif.Switches(0)
	zzTryTimeout = time.Duration(verif.Choose("route_try_timeout", 2)) * time.Second
	ds, sender, pool, p, ctx := zzMachine(0, false)
	zzTryTimeout = 0
	pool.scripted = true
	headers := protocol.CommonHeader{}
	vals := []string{"", "0", "5", "x", "-1"}
	if v := vals[verif.Choose("header_global", len(vals))]; v != "" {
		headers[types.HeaderGlobalTimeout] = v
	}
	if v := vals[verif.Choose("header_try", len(vals))]; v != "" {
		headers[types.HeaderTryTimeout] = v
	}
	if v := vals[verif.Choose("var_global", 3)]; v != "" {
		variable.SetString(ctx, types.VarProxyGlobalTimeout, v)
	}
	active0 := p.stats.DownstreamRequestActive.Count()
	done := false
	go func() {
		ds.OnReceive(ctx, headers, nil, nil)
		done = true
	}()
	verif.Settle()
	verif.EngineOnly("timer expiry is driven by the engine's timer table")
	for k := 0; k < 4 && !done; k++ {
		verif.Assert(verif.NumTimers() > 0, "engine: the request waits for a silent upstream with no timeout armed (it hangs)")
		if verif.NumTimers() == 0 {
			return
		}
		verif.FireTimer(0)
		verif.Settle()
	}
	verif.Assert(done, "engine: every armed timeout expired but the request is still waiting")
	verif.Assert(sender.headers == 1, "a request whose upstream never answers must get exactly one (timeout) reply")
	verif.Assert(p.stats.DownstreamRequestActive.Count() == active0-1, "DownstreamRequestActive not released after the timeout")
	verif.Cover("end")
}

// zzKeepFilter continues and keeps its handler, as a filter does that may
// answer the request later (from a timer, another goroutine, a callback).
type zzKeepFilter struct {
	handler api.StreamReceiverFilterHandler
}

func (f *zzKeepFilter) OnDestroy() {}
func (f *zzKeepFilter) OnReceive(ctx context.Context, h api.HeaderMap, b api.IoBuffer, t api.HeaderMap) api.StreamFilterStatus {
	return api.StreamFilterContinue
}
func (f *zzKeepFilter) SetReceiveFilterHandler(h api.StreamReceiverFilterHandler) { f.handler = h }

// VerifC14_TerminateRace: a receive filter that kept its handler answers the
// request itself (TerminateStream) while the request is already waiting for
// its upstream; the upstream's response may arrive right after, before the
// worker has reacted. If the filter's answer was accepted, the client gets
// exactly that single response - never the upstream's, never two - and it
// passes the send filter once; if the upstream's response came first, the
// filter's late answer is refused and the client gets the upstream's.
func VerifC14_TerminateRace() {
	verif.Switches(0)
	ds, sender, pool, _, ctx := zzMachine(0, false)
	pool.scripted = true
	kf := &zzKeepFilter{}
	ds.streamFilterChain.AddStreamReceiverFilter(kf, api.AfterChooseHost)
	sf := &zzPSend{}
	ds.streamFilterChain.AddStreamSenderFilter(sf, api.BeforeSend)
	done := false
	go func() {
		ds.OnReceive(ctx, protocol.CommonHeader{}, nil, nil)
		done = true
	}()
	verif.Settle()
	ur := ds.upstreamRequest
	verif.Assume(!done && ur != nil && ur.requestSender != nil && kf.handler != nil) // the request is waiting for its upstream
	upstreamFirst := verif.Choose("upstream_reply_first", 2) == 1
	accepted := false
	if upstreamFirst {
		ur.OnReceive(ctx, protocol.CommonHeader{"status": "200"}, nil, nil)
		if verif.Choose("worker_runs_between", 2) == 1 {
			verif.Settle()
		} else {
			verif.EngineOnly("two events before the worker runs: needs a controlled schedule")
		}
		if !done {
			accepted = kf.handler.TerminateStream(504)
		}
		verif.Assert(!accepted, "a filter's answer was accepted although the upstream's response had already been received")
	} else {
		accepted = kf.handler.TerminateStream(504)
		verif.Assert(accepted, "a waiting request must accept the filter's answer")
		if verif.Choose("late_upstream_reply", 2) == 1 {
			verif.EngineOnly("two events before the worker runs: needs a controlled schedule")
			ur.OnReceive(ctx, protocol.CommonHeader{"status": "200"}, nil, nil) // the upstream answers right after
			verif.Cover("late-reply")
		}
	}
	verif.Settle()
	verif.Assert(done, "the request did not end")
	verif.Assert(sender.headers == 1 && sf.calls == 1, "the client must get exactly one response, through the send filter once")
	if sender.headers == 1 && sender.last != nil {
		_, fromUpstream := sender.last.Get("status")
		if accepted {
			verif.Assert(!fromUpstream, "the filter answered the request, but the client was sent the upstream's response")
		} else {
			verif.Assert(fromUpstream, "the upstream's response was received first, but the client was sent something else")
		}
	}
	verif.Cover("end")
}

// VerifC03_ResetAfterResponseStarted: the upstream answers with headers and a
// body; while the response headers are being written to the client the
// upstream stream is reset (any reason), on a route that would retry that
// reason. A response that has started is never retried: the client never
// gets a second set of response headers, the upstream never gets the request
// again, and the request still ends.
func VerifC03_ResetAfterResponseStarted() {
	verif.Switches(0)
	retryOn := verif.Choose("retry_on", 2) == 1
	ds, sender, pool, _, ctx := zzMachine(1, retryOn)
	pool.scripted = true
	done := false
	go func() {
		ds.OnReceive(ctx, protocol.CommonHeader{}, nil, nil)
		done = true
	}()
	verif.Settle()
	ur := ds.upstreamRequest
	verif.Assume(!done && ur != nil && ur.requestSender != nil)
	callsBefore := pool.calls
	reason := zzUpReasons[verif.Choose("reason", len(zzUpReasons))]
	sender.onHeaders = func() {
		// what another goroutine (the upstream connection's read loop) does at that moment
		ur.OnResetStream(reason)
	}
	ur.OnReceive(ctx, protocol.CommonHeader{"status": "200"}, buffer.NewIoBufferBytes([]byte("body")), nil)
	verif.Settle()
	for k := 0; k < 3 && !done; k++ {
		// a retried attempt (there must be none) would be answered, so that a second response could show
		if u2 := ds.upstreamRequest; u2 != nil && u2.requestSender != nil && pool.calls > callsBefore {
			u2.OnReceive(ctx, protocol.CommonHeader{"status": "200"}, nil, nil)
		}
		verif.Settle()
	}
	verif.Assert(sender.headers <= 1, "the client got two sets of response headers for one request")
	verif.Assert(pool.calls == callsBefore, "the request was sent upstream again after its response had started")
	verif.Assert(sender.headers == 1, "the response that had started did not reach the client")
	verif.Cover("end")
}

// VerifC03_TimeoutDuringBackoff: an attempt fails (connect failure or pool
// overflow), a retry is set up, and while the worker sits in the retry
// back-off any armed timeout may expire. Afterwards the upstream accepts the
// retry and never answers. Whatever expired during the back-off, a timeout is
// armed or the request is already answered; when every armed timeout has
// expired the client has exactly one reply and the request is cleaned up.
func VerifC03_TimeoutDuringBackoff() {
	verif.Switches(0)
	verif.ParkSleepers(1)
	zzTryTimeout = time.Duration(verif.Choose("route_try_timeout", 2)) * time.Second
	ds, sender, pool, p, ctx := zzMachine(2, true)
	zzTryTimeout = 0
	pool.scripted = true
	active0 := p.stats.DownstreamRequestActive.Count()
	done := false
	go func() {
		ds.OnReceive(ctx, protocol.CommonHeader{}, nil, nil)
		done = true
	}()
	verif.Settle()
	verif.EngineOnly("timer expiry during the retry back-off is driven by the engine's timer table and parked sleepers")
	for round := 0; round < 3 && !done; round++ {
		if verif.Sleepers() > 0 {
			// inside the back-off: any armed timer may expire now
			if n := verif.NumTimers(); n > 0 && verif.Choose("expire_during_backoff", 2) == 1 {
				verif.FireTimer(verif.Choose("which_timer", n))
				verif.Cover("expired-in-backoff")
			}
			verif.WakeSleepers()
			verif.Settle()
			continue
		}
		break
	}
	for k := 0; k < 6 && !done; k++ {
		if verif.Sleepers() > 0 {
			verif.WakeSleepers()
			verif.Settle()
			continue
		}
		verif.Assert(verif.NumTimers() > 0, "engine: the request waits for a silent upstream with no timeout armed (it hangs)")
		if verif.NumTimers() == 0 {
			return
		}
		verif.FireTimer(0)
		verif.Settle()
	}
	verif.Assert(done, "engine: every armed timeout expired but the request is still waiting")
	verif.Assert(sender.headers == 1, "a request whose upstream never answers must get exactly one (timeout) reply")
	verif.Assert(p.stats.DownstreamRequestActive.Count() == active0-1, "DownstreamRequestActive not released after the timeout")
	verif.Cover("end")
}

// VerifC03_RefusedTerminate: the first attempt is answered with a retriable 503 on a
// retrying route; while the retry is in flight a stream filter tries to terminate the
// stream. The abandoned answer is still recorded, so the termination is refused - and a
// refused termination must have no effect: the retry's answer (or, if the upstream stays
// silent, a timeout) still reaches the client, exactly once, and the request is cleaned up.
func VerifC03_RefusedTerminate() {
	verif.Switches(0)
	zzHTTPFamily = verif.Choose("status_through_variable", 2) == 1
	ds, sender, pool, p, ctx := zzMachine(2, true)
	pool.scripted = true
	active0 := p.stats.DownstreamRequestActive.Count()
	kf := &zzKeepFilter{}
	ds.streamFilterChain.AddStreamReceiverFilter(kf, api.AfterChooseHost)
	done := false
	go func() {
		ds.OnReceive(ctx, protocol.CommonHeader{}, nil, nil)
		done = true
	}()
	verif.Settle()
	ur := ds.upstreamRequest
	verif.Assume(!done && ur != nil && ur.requestSender != nil && kf.handler != nil)
	if zzHTTPFamily {
		variable.SetString(ctx, types.VarHeaderStatus, "503")
		ur.OnReceive(ctx, protocol.CommonHeader{}, nil, nil)
	} else {
		ur.OnReceive(ctx, protocol.CommonHeader{"status": "503"}, nil, nil)
	}
	verif.Settle()
	ur2 := ds.upstreamRequest
	verif.Assume(!done && ur2 != nil && ur2 != ur && ur2.requestSender != nil) // the retry is waiting for its upstream
	verif.Cover("retry in flight")
	accepted := kf.handler.TerminateStream(504)
	verif.Settle()
	if accepted {
		verif.Assert(done && sender.headers == 1, "an accepted termination must be the request's one reply")
	} else {
		verif.Cover("refused")
		if verif.Choose("retry_answered", 2) == 1 {
			if zzHTTPFamily {
				variable.SetString(ctx, types.VarHeaderStatus, "200")
				ur2.OnReceive(ctx, protocol.CommonHeader{}, nil, nil)
			} else {
				ur2.OnReceive(ctx, protocol.CommonHeader{"status": "200"}, nil, nil)
			}
			verif.Settle()
			verif.Assert(done && sender.headers == 1, "after a refused termination the retry's answer did not reach the client")
		} else {
			verif.EngineOnly("timer expiry is driven by the engine's timer table")
			for k := 0; k < 4 && !done && verif.NumTimers() > 0; k++ {
				verif.FireTimer(0)
				verif.Settle()
			}
			verif.Assert(done && sender.headers == 1, "engine: after a refused termination and a silent upstream no timeout ends the request (hangs)")
		}
	}
	if done {
		verif.Assert(p.stats.DownstreamRequestActive.Count() == active0-1, "the request ended but DownstreamRequestActive was not released exactly once")
	}
	verif.Cover("end")
}

// VerifC10_UpstreamStreamReleased: a pool counts a request from NewStream until the
// stream it handed out is destroyed (response end or reset). A request with headers,
// optionally a body and trailers, whose client disconnects at any of these moments -
// while the request headers are being written upstream (between the header and the body
// phase), after the whole request was sent, or not at all - must leave no upstream stream
// behind that was neither answered nor reset: otherwise the pool's request slot and the
// upstream request_active gauges stay taken for ever.
func VerifC10_UpstreamStreamReleased() {
	verif.Switches(0)
	ds, sender, pool, p, ctx := zzMachine(0, false)
	pool.scripted = true
	active0 := p.stats.DownstreamRequestActive.Count()
	var body buffer.IoBuffer
	var trailers api.HeaderMap
	shape := verif.Choose("request_shape", 3)
	if shape >= 1 {
		body = buffer.NewIoBufferBytes([]byte("b"))
	}
	if shape == 2 {
		trailers = protocol.CommonHeader{"t": "v"}
	}
	when := verif.Choose("client_disconnects", 3) // 0 never, 1 while the upstream headers are written, 2 after the request was sent
	if when == 1 {
		pool.onUpHeaders = func() {
			sender.st.ResetStream(types.StreamRemoteReset)
			verif.Cover("disconnect between header and body phase")
		}
	}
	done := false
	go func() {
		ds.OnReceive(ctx, protocol.CommonHeader{}, body, trailers)
		done = true
	}()
	verif.Settle()
	answered := map[*zzUpSender]bool{}
	if !done {
		if when == 2 {
			sender.st.ResetStream(types.StreamRemoteReset)
		} else if ur := ds.upstreamRequest; ur != nil && ur.requestSender != nil {
			if up, ok := ur.requestSender.(*zzUpSender); ok {
				answered[up] = true
			}
			ur.OnReceive(ctx, protocol.CommonHeader{"status": "200"}, nil, nil)
		}
		verif.Settle()
	}
	for k := 0; k < 4 && !done && verif.Symbolic() && verif.NumTimers() > 0; k++ {
		verif.FireTimer(0)
		verif.Settle()
	}
	verif.Assert(done, "the request did not end")
	if done {
		verif.Assert(p.stats.DownstreamRequestActive.Count() == active0-1, "DownstreamRequestActive not released exactly once")
		for _, up := range pool.senders {
			verif.Assert(answered[up] || up.st.resets > 0, "an upstream stream the pool handed out was neither answered nor reset when the request ended: the pool's request slot and gauges leak")
		}
	}
	if len(pool.senders) > 0 {
		verif.Cover("upstream stream created")
	}
	verif.Cover("end")
}


// zzOWFilter answers a request through one of the three reply calls of the
// receive filter handler, then returns its verdict.
type zzOWFilter struct {
	api     int // 0 none, 1 SendHijackReply, 2 SendHijackReplyWithBody, 3 SendDirectResponse
	verdict api.StreamFilterStatus
	handler api.StreamReceiverFilterHandler
	calls   int
}

func (f *zzOWFilter) OnDestroy() {}
func (f *zzOWFilter) OnReceive(ctx context.Context, h api.HeaderMap, b api.IoBuffer, t api.HeaderMap) api.StreamFilterStatus {
	f.calls++
	switch f.api {
	case 1:
		f.handler.SendHijackReply(403, h)
	case 2:
		f.handler.SendHijackReplyWithBody(403, h, "denied")
	case 3:
		f.handler.SendDirectResponse(h, buffer.NewIoBufferString("denied"), nil)
	}
	return f.verdict
}
func (f *zzOWFilter) SetReceiveFilterHandler(h api.StreamReceiverFilterHandler) { f.handler = h }

// VerifC14_OnewayDeny: a one-way request (no response sender) or an ordinary
// one, one receive filter in any phase which lets it pass, terminates it, or
// denies it through any of the three reply calls of the filter handler (stop
// verdict). A denied or terminated request is never sent upstream - also when
// there is nobody to send the reply to; an allowed one is sent exactly once;
// a later filter does not run after a deny; the request is cleaned up.
func VerifC14_OnewayDeny() {
	verif.Switches(0)
	oneway := verif.Choose("oneway", 2) == 1
	kind := verif.Choose("kind", 5) // 0 allow, 1..3 deny through the three reply calls, 4 termination
	ph := api.ReceiverFilterPhase(verif.Choose("phase", 3))
	ds, sender, pool, _, ctx := zzMachine2(0, false, oneway)
	pool.scripted = true
	f := &zzOWFilter{verdict: api.StreamFilterContinue}
	switch kind {
	case 1, 2, 3:
		f.api, f.verdict = kind, api.StreamFilterStop
	case 4:
		f.verdict = api.StreamFiltertermination
	}
	ds.streamFilterChain.AddStreamReceiverFilter(f, ph)
	later := &zzOWFilter{verdict: api.StreamFilterContinue}
	ds.streamFilterChain.AddStreamReceiverFilter(later, api.AfterChooseHost)
	done := false
	go func() {
		ds.OnReceive(ctx, protocol.CommonHeader{}, nil, nil)
		done = true
	}()
	verif.Settle()
	if !done {
		if ur := ds.upstreamRequest; ur != nil && ur.requestSender != nil {
			ur.OnReceive(ctx, protocol.CommonHeader{"status": "200"}, nil, nil)
		}
		verif.Settle()
	}
	verif.Assume(done)
	if kind == 0 {
		// (a pool failure may be retried: more than one call of the pool, at most one accepted)
		verif.Assert(pool.calls >= 1 && len(pool.senders) <= 1, "an allowed request must be offered to the upstream pool, and be sent at most once")
		verif.Assert(later.calls == 1, "a filter of a later phase must run once for an allowed request")
		verif.Cover("allowed")
	} else {
		verif.Assert(pool.calls == 0, "a request denied (or terminated) by a receive filter was still sent upstream")
		if ph < api.AfterChooseHost {
			verif.Assert(later.calls == 0, "a filter of a later phase ran after the request was denied")
		}
		if oneway {
			verif.Cover("oneway-denied")
		}
	}
	if oneway {
		verif.Assert(sender.headers == 0, "a one-way request has nobody to reply to")
	} else if kind >= 1 && kind <= 3 {
		verif.Assert(sender.headers == 1, "the filter's local reply must reach the client exactly once")
	}
	verif.Cover("end")
}

// VerifC03_Oneway: a one-way request (no response sender): headers only, with
// a body, with body and trailers; the pool accepts it, fails to connect or
// overflows on every attempt; an event (upstream reset, the client's
// connection going away) may arrive afterwards. The worker always comes back,
// nothing is ever written to the (absent) client, the request is cleaned up
// and its gauge released exactly once, an accepted request is written upstream
// exactly once, and no timer stays armed.
func VerifC03_Oneway() {
	verif.Switches(0)
	ds, sender, pool, p, ctx := zzMachine2(uint32(verif.Choose("num_retries", 2)), verif.Choose("retry_on", 2) == 1, true)
	pool.scripted = true
	active0 := p.stats.DownstreamRequestActive.Count()
	var body buffer.IoBuffer
	var trailers api.HeaderMap
	switch verif.Choose("request_shape", 3) {
	case 1:
		body = buffer.NewIoBufferBytes([]byte("b"))
	case 2:
		body = buffer.NewIoBufferBytes([]byte("b"))
		trailers = protocol.CommonHeader{"t": "v"}
	}
	done := false
	verif.MustFinish(400000, "the worker handling a one-way request never comes back")
	go func() {
		ds.OnReceive(ctx, protocol.CommonHeader{}, body, trailers)
		done = true
	}()
	verif.Settle()
	verif.Finished()
	verif.Assert(done, "the worker handling a one-way request is still waiting although nothing can answer it")
	// late events must find a finished request
	switch verif.Choose("late_event", 3) {
	case 1:
		if len(pool.senders) > 0 {
			if ur := ds.upstreamRequest; ur != nil {
				ur.OnResetStream(types.StreamConnectionTermination)
			}
		}
	case 2:
		ds.OnResetStream(types.StreamConnectionTermination)
	}
	verif.Settle()
	verif.Assert(sender.headers == 0 && sender.ends == 0, "something was written to the client of a one-way request")
	verif.Assert(p.stats.DownstreamRequestActive.Count() == active0-1, "the one-way request's DownstreamRequestActive was not released exactly once")
	verif.Assert(len(pool.senders) <= 1, "a one-way request was sent upstream more than once")
	for _, up := range pool.senders {
		// (the proxy leaves the upstream stream of a one-way request alone: the pools do not count it)
		verif.Assert(up.st.resets <= 1, "the upstream stream of a one-way request was reset twice")
		verif.Assert(up.headers == 1, "the one-way request was not written upstream exactly once")
		verif.Cover("sent")
	}
	verif.Assert(verif.NumTimers() == 0, "engine: a timer is still armed after a one-way request ended")
	verif.Cover("end")
}


// VerifC03_BodyWriteFails: a two-way request with a body (optionally trailers)
// on a route with retry budget 0..2; every attempt is accepted by the pool,
// fails to connect, or is accepted and then the write of the body fails (the
// stream layer resets the upstream stream inside the call, as xprotocol's
// endStream does on a closed connection); an attempt whose write succeeds is
// answered 200. A failed write is an upstream connection failure like any
// other: it is retried while budget is left, otherwise the client gets an
// error reply. In every case the client gets exactly one reply, the request
// is cleaned up, and its gauge is released once.
func VerifC03_BodyWriteFails() {
	verif.Switches(0)
	budget := uint32(verif.Choose("num_retries", 3))
	ds, sender, pool, p, ctx := zzMachine(budget, verif.Choose("retry_on", 2) == 1)
	zzTryTimeout, zzMaxRetries = 0, 0
	pool.scripted = true
	pool.bodyMayFail = true
	active0 := p.stats.DownstreamRequestActive.Count()
	body := buffer.NewIoBufferBytes([]byte("b"))
	var trailers api.HeaderMap
	if verif.Choose("with_trailers", 2) == 1 {
		trailers = protocol.CommonHeader{"t": "v"}
	}
	done := false
	go func() {
		ds.OnReceive(ctx, protocol.CommonHeader{}, body, trailers)
		done = true
	}()
	verif.Settle()
	failedWrites := 0
	for _, up := range pool.senders {
		if up.failBody && up.ended {
			failedWrites++
		}
	}
	for k := 0; k < 4 && !done; k++ {
		// the worker waits: the last attempt was written; the upstream answers it
		if ur := ds.upstreamRequest; ur != nil && ur.requestSender != nil {
			ur.OnReceive(ctx, protocol.CommonHeader{"status": "200"}, nil, nil)
		}
		verif.Settle()
	}
	verif.Assert(done, "the worker is still waiting although every attempt failed or was answered")
	if !done {
		return
	}
	verif.Assert(sender.headers == 1, "the client must get exactly one reply (an attempt whose body write failed is an upstream failure: retried or answered with an error, never dropped)")
	verif.Assert(p.stats.DownstreamRequestActive.Count() == active0-1, "DownstreamRequestActive not released exactly once")
	b := int(budget)
	if b < 3 {
		b = 3 // connection failures are retried at least three times
	}
	verif.Assert(pool.calls <= 1+b, "more upstream attempts than one plus the retry budget")
	if failedWrites > 0 {
		verif.Cover("a body write failed")
	}
	verif.Cover("end")
}

// VerifC02_ReplyCarriesItsOwnBody: a request on a retrying route whose first
// attempt is answered with a retriable status and a body. The retry then finds
// no host, fails in the pool, or is accepted and answered (with another body
// or none). Whatever ends the request, the one reply the client gets consists
// of a header and a body from the same exchange: a reply the proxy generates
// itself carries no byte of the abandoned attempt's response, and the second
// attempt's response carries its own body only.
func VerifC02_ReplyCarriesItsOwnBody() {
	verif.Switches(0)
	ds, sender, pool, p, ctx := zzMachine(1, true)
	zzTryTimeout, zzMaxRetries = 0, 0
	pool.scripted = true
	p.clusterManager.(*zzMCM).mayEmpty = true
	done := false
	go func() {
		ds.OnReceive(ctx, protocol.CommonHeader{}, nil, nil)
		done = true
	}()
	verif.Settle()
	if done || len(pool.senders) != 1 {
		return // the first attempt was not accepted: C03's subject
	}
	first := ds.upstreamRequest
	withBody := verif.Choose("first_response_has_body", 2) == 1
	var b1 buffer.IoBuffer
	if withBody {
		b1 = buffer.NewIoBufferBytes([]byte("FIRST"))
	}
	first.OnReceive(ctx, protocol.CommonHeader{"status": "503", "x-from": "first"}, b1, nil)
	verif.Settle()
	second := ""
	if !done {
		// the retry was accepted: its upstream answers
		if ur := ds.upstreamRequest; ur != nil && ur.requestSender != nil && len(pool.senders) == 2 {
			var b2 buffer.IoBuffer
			if verif.Choose("second_response_has_body", 2) == 1 {
				b2 = buffer.NewIoBufferBytes([]byte("second"))
				second = "second"
			}
			ur.OnReceive(ctx, protocol.CommonHeader{"status": "200", "x-from": "second"}, b2, nil)
			verif.Settle()
			verif.Cover("retry answered")
		}
	}
	verif.Assume(done && sender.headers >= 1)
	// which exchange does the reply's header come from: the first response (forwarded because no
	// retry was possible), the second one, or the proxy itself
	want := ""
	switch from, _ := sender.last.Get("x-from"); from {
	case "first":
		if withBody {
			want = "FIRST"
		}
	case "second":
		want = second
	default:
		verif.Cover("local reply after a retried response")
	}
	verif.Assert(sender.headers == 1, "the client must get exactly one reply")
	verif.Assert(sender.body == want, "the reply's body is not the body of the exchange its header comes from (bytes of an abandoned attempt's response, or a body lost)")
	verif.Cover("end")
}

// VerifC03_DecodeError: the stream layer hands the proxy a request that its
// codec could only half decode (a request frame together with a decode error:
// xprotocol's handleError creates the stream and calls OnDecodeError instead
// of OnReceive). That request, too, ends exactly once: the client gets one
// error reply, the stream is cleaned up and its gauge released - it is not
// left in the proxy for ever without an answer.
func VerifC03_DecodeError() {
	verif.Switches(0)
	ds, sender, pool, p, ctx := zzMachine(0, false)
	pool.scripted = true
	active0 := p.stats.DownstreamRequestActive.Count()
	kind := []string{types.CodecException, types.DeserializeException, "other"}[verif.Choose("error", 3)]
	done := false
	verif.MustFinish(400000, "OnDecodeError never returns")
	go func() {
		ds.OnDecodeError(ctx, errors.New(kind), protocol.CommonHeader{})
		done = true
	}()
	verif.Settle()
	verif.Finished()
	verif.Assert(done, "OnDecodeError did not return")
	verif.Assert(pool.calls == 0, "a request that could not be decoded was sent upstream")
	verif.Assert(sender.headers == 1, "a request that could not be decoded gets no error reply (it stays in the proxy, unanswered)")
	verif.Assert(p.stats.DownstreamRequestActive.Count() == active0-1, "a request that could not be decoded is never cleaned up (DownstreamRequestActive not released)")
	verif.Cover("end")
}

// VerifC10_TerminateDuringRetry: max_retries = 1 on the cluster, a retrying
// route. The first attempt fails in a retriable way (503, or an upstream
// reset), the retry is admitted - it holds the cluster's one retry slot - and
// is sent; while it waits for its upstream a stream filter that kept its
// handler answers the request itself (TerminateStream), or the client goes
// away. When the request has ended the retries resource is back to zero: the
// slot an admitted retry holds is released however the request ends.
func VerifC10_TerminateDuringRetry() {
	verif.Switches(0)
	zzMaxRetries = 1
	ds, sender, pool, p, ctx := zzMachine(2, true)
	zzTryTimeout, zzMaxRetries = 0, 0
	pool.scripted = true
	retries := p.clusterManager.(*zzMCM).host.info.rm.Retries()
	kf := &zzKeepFilter{}
	ds.streamFilterChain.AddStreamReceiverFilter(kf, api.AfterChooseHost)
	done := false
	go func() {
		ds.OnReceive(ctx, protocol.CommonHeader{}, nil, nil)
		done = true
	}()
	verif.Settle()
	ur := ds.upstreamRequest
	verif.Assume(!done && ur != nil && ur.requestSender != nil && len(pool.senders) == 1)
	if verif.Choose("first_attempt_fails_by", 2) == 0 {
		ur.OnReceive(ctx, protocol.CommonHeader{"status": "503"}, nil, nil)
	} else {
		ur.OnResetStream(types.StreamConnectionTermination)
	}
	verif.Settle()
	verif.Assume(!done && len(pool.senders) == 2) // the retry was admitted and accepted: it waits for its upstream
	verif.Assert(retries.Cur() == 1, "an admitted retry in flight does not hold the cluster's retry slot")
	switch verif.Choose("ended_by", 3) {
	case 0:
		// (refused when a response of the failed attempt is on record - then the upstream answers)
		if kf.handler != nil && kf.handler.TerminateStream(504) {
			verif.Cover("terminated")
		} else {
			ds.upstreamRequest.OnReceive(ctx, protocol.CommonHeader{"status": "200"}, nil, nil)
		}
	case 1:
		ds.OnResetStream(types.StreamConnectionTermination)
		verif.Cover("client gone")
	default:
		ds.upstreamRequest.OnReceive(ctx, protocol.CommonHeader{"status": "200"}, nil, nil)
	}
	verif.Settle()
	verif.Assert(done, "the request did not end")
	verif.Assert(retries.Cur() == 0, "the retry slot held by an admitted retry was not released when the request ended")
	_ = sender
	verif.Cover("end")
}

//verif:pkg mosn.io/mosn/pkg/proxy
package proxy

import (
	"strconv"

	"mosn.io/api"
	"mosn.io/mosn/pkg/protocol"
	"mosn.io/mosn/pkg/types"
	"mosn.io/mosn/pkg/zzverif/verif"
	"mosn.io/pkg/buffer"
	"mosn.io/pkg/variable"
)

var zzSchemeRegistered bool

// VerifC17_Redirect: a redirect route answers the request itself with the
// configured status and a Location built from the rule's scheme, host and
// path, each defaulting to the request's own; the request's query string is
// kept; when the scheme changes, the default port of the *old* scheme is
// dropped from the host that ends up in the Location (":80" on a redirect to
// https, ":443" on a redirect to http), and nothing else is altered. Nothing
// is sent upstream.
func VerifC17_Redirect() {
	verif.Switches(0)
	if !zzSchemeRegistered {
		zzSchemeRegistered = true
		variable.Register(variable.NewStringVariable("zzp_scheme", nil, nil, variable.DefaultStringSetter, 0))
		variable.RegisterProtocolResource("zzp", api.SCHEME, "scheme")
	}
	reqHosts := []string{"old", "old:80", "old:443", "old:8080"}
	ruleHosts := []string{"", "new", "new:80", "new:443"}
	schemes := []string{"http", "https"}
	reqScheme := schemes[verif.Choose("request_scheme", 2)]
	reqHost := reqHosts[verif.Choose("request_host", len(reqHosts))]
	ruleScheme := []string{"", "http", "https"}[verif.Choose("rule_scheme", 3)]
	ruleHost := ruleHosts[verif.Choose("rule_host", len(ruleHosts))]
	rulePath := []string{"", "/np"}[verif.Choose("rule_path", 2)]
	query := []string{"", "a=b"}[verif.Choose("query", 2)]
	code := []int{301, 302, 308}[verif.Choose("code", 3)]
	zzRedirect = &zzMRedirect{scheme: ruleScheme, host: ruleHost, path: rulePath, code: code}
	ds, sender, pool, _, ctx := zzMachine(0, false)
	pool.scripted = true
	variable.SetString(ctx, "zzp_scheme", reqScheme)
	variable.SetString(ctx, types.VarHost, reqHost)
	variable.SetString(ctx, types.VarPath, "/op")
	if query != "" {
		variable.SetString(ctx, types.VarQueryString, query)
	}
	done := false
	go func() {
		ds.OnReceive(ctx, protocol.CommonHeader{}, nil, nil)
		done = true
	}()
	verif.Settle()
	zzRedirect = nil
	verif.Assert(done, "a redirected request did not complete on its own")
	if !done {
		return
	}
	// reference
	scheme, host, path := reqScheme, reqHost, "/op"
	if ruleScheme != "" {
		scheme = ruleScheme
	}
	if ruleHost != "" {
		host = ruleHost
	}
	if rulePath != "" {
		path = rulePath
	}
	if scheme != reqScheme {
		if scheme == "https" && len(host) > 3 && host[len(host)-3:] == ":80" {
			host = host[:len(host)-3]
		}
		if scheme == "http" && len(host) > 4 && host[len(host)-4:] == ":443" {
			host = host[:len(host)-4]
		}
	}
	want := scheme + "://" + host + path
	if query != "" {
		want += "?" + query
	}
	verif.Assert(pool.calls == 0, "a redirected request was still sent upstream")
	verif.Assert(sender.headers == 1, "a redirect route must answer the client exactly once")
	if sender.headers != 1 || sender.last == nil {
		return
	}
	loc, _ := sender.last.Get("location")
	verif.Assert(loc == want, "the redirect Location is not built from the rule's scheme/host/path over the request's own")
	st, _ := variable.GetString(ctx, types.VarHeaderStatus)
	verif.Assert(st == strconv.Itoa(code), "the redirect reply does not carry the configured status code")
	verif.Cover("end")
}

// VerifC17_DirectResponse: a direct-response route answers the request itself
// with the configured status and body, exactly once, and nothing is sent
// upstream - whether or not the request itself carried a body.
func VerifC17_DirectResponse() {
	verif.Switches(0)
	status := []int{200, 404, 503}[verif.Choose("status", 3)]
	body := []string{"", "x", "hello"}[verif.Choose("body", 3)]
	zzDirect = &zzMDirect{status: status, body: body}
	ds, sender, pool, _, ctx := zzMachine(uint32(verif.Choose("route_retries", 2)), verif.Choose("route_retry_on", 2) == 1)
	pool.scripted = true
	var reqBody buffer.IoBuffer
	if verif.Choose("request_body", 2) == 1 {
		reqBody = buffer.NewIoBufferString("req")
	}
	done := false
	go func() {
		ds.OnReceive(ctx, protocol.CommonHeader{}, reqBody, nil)
		done = true
	}()
	verif.Settle()
	zzDirect = nil
	verif.Assert(done, "a directly answered request did not complete on its own")
	if !done {
		return
	}
	verif.Assert(pool.calls == 0, "a directly answered request was still sent upstream")
	verif.Assert(sender.headers == 1, "a direct-response route must answer the client exactly once")
	st, _ := variable.GetString(ctx, types.VarHeaderStatus)
	verif.Assert(st == strconv.Itoa(status), "the direct response does not carry the configured status code")
	verif.Assert(sender.body == body, "the direct response does not carry the configured body")
	verif.Assert(sender.ends == 1, "the direct response must end the client stream exactly once")
	verif.Cover("end")
}

//verif:pkg mosn.io/mosn/pkg/protocol
package protocol

import (
	"context"

	"mosn.io/api"
	"mosn.io/mosn/pkg/protocol/internal/registry"
	"mosn.io/mosn/pkg/types"
	"mosn.io/mosn/pkg/zzverif/verif"
)

// zzFactory is a stream factory whose matcher gives a scripted verdict.
type zzFactory struct {
	types.ProtocolStreamFactory
	verdict int // 0 success, 1 need more data, 2 failed
}

func (f *zzFactory) ProtocolMatch(ctx context.Context, prot string, magic []byte) error {
	switch f.verdict {
	case 0:
		return nil
	case 1:
		return EAGAIN
	}
	return FAILED
}

// VerifC07_SelectProtocol: how the per-protocol matcher verdicts are combined
// (with a configured protocol list, and with automatic detection over all
// registered protocols): a protocol that accepts the bytes is chosen (the
// first one in list order); otherwise "need more data" as soon as any
// consulted matcher needs more data - whatever the other matchers answer and
// in whatever order they are consulted; "failed" only if every matcher
// failed. Together with the matchers' own prefix monotonicity
// (VerifC07_MatcherMonotone) the detected protocol then depends only on the
// bytes, not on where the reads fall.
func VerifC07_SelectProtocol() {
	names := []api.ProtocolName{"pa", "pb", "pc"}
	n := 2 + verif.Choose("protocols", 2)
	saved := registry.StreamFactories
	registry.StreamFactories = map[api.ProtocolName]types.ProtocolStreamFactory{}
	defer func() { registry.StreamFactories = saved }()
	verdicts := make([]int, n)
	for i := 0; i < n; i++ {
		verdicts[i] = verif.Choose("verdict", 3)
		registry.StreamFactories[names[i]] = &zzFactory{verdict: verdicts[i]}
	}
	var scopes []api.ProtocolName
	var order []int
	if verif.Choose("with_list", 2) == 1 {
		// any order of the n protocols (a rotation or the reverse), possibly with an unregistered name
		switch verif.Choose("order", 3) {
		case 0:
			for i := 0; i < n; i++ {
				order = append(order, i)
			}
		case 1:
			for i := n - 1; i >= 0; i-- {
				order = append(order, i)
			}
		default:
			for i := 0; i < n; i++ {
				order = append(order, (i+1)%n)
			}
		}
		for _, i := range order {
			scopes = append(scopes, names[i])
		}
		if verif.Choose("unknown_name", 2) == 1 {
			scopes = append([]api.ProtocolName{"unregistered"}, scopes...)
		}
		verif.Cover("list")
	} else {
		for i := 0; i < n; i++ {
			order = append(order, i)
		}
		verif.MapOrderNondet(true)
	}
	got, err := SelectStreamFactoryProtocol(context.Background(), "", []byte("x"), scopes)
	verif.MapOrderNondet(false)
	anySuccess, anyAgain := false, false
	first := api.ProtocolName("")
	for _, i := range order {
		if verdicts[i] == 0 && !anySuccess {
			anySuccess = true
			first = names[i]
		}
		if verdicts[i] == 1 {
			anyAgain = true
		}
	}
	switch {
	case anySuccess:
		verif.Assert(err == nil, "a protocol accepts the bytes but none was selected")
		if len(scopes) > 0 {
			verif.Assert(got == first, "the selected protocol is not the first one in list order that accepts the bytes")
		} else if err == nil {
			ok := false
			for i := 0; i < n; i++ {
				ok = ok || (got == names[i] && verdicts[i] == 0)
			}
			verif.Assert(ok, "automatic detection selected a protocol whose matcher did not accept the bytes")
		}
	case anyAgain:
		verif.Assert(err == EAGAIN, "a matcher needs more data but the connection was not told to wait (a short first read decides the protocol)")
		verif.Cover("again")
	default:
		verif.Assert(err == FAILED, "every matcher failed: the result must be failed")
	}
	verif.Cover("end")
}

//verif:pkg mosn.io/mosn/istio/istio1106/xds/conv
package conv

import (
	envoy_config_cluster_v3 "github.com/envoyproxy/go-control-plane/envoy/config/cluster/v3"
	envoy_config_endpoint_v3 "github.com/envoyproxy/go-control-plane/envoy/config/endpoint/v3"
	gometrics "github.com/rcrowley/go-metrics"
	v2 "mosn.io/mosn/pkg/config/v2"
	"mosn.io/mosn/pkg/types"
	clusterAdapter "mosn.io/mosn/pkg/upstream/cluster"
	"mosn.io/mosn/pkg/zzverif/verif"
)

type zzXCounter struct{ n int64 }

func (c *zzXCounter) Clear()                      { c.n = 0 }
func (c *zzXCounter) Count() int64                { return c.n }
func (c *zzXCounter) Dec(i int64)                 { c.n -= i }
func (c *zzXCounter) Inc(i int64)                 { c.n += i }
func (c *zzXCounter) Snapshot() gometrics.Counter { return c }

// zzCM2 is the cluster manager contract (decided on the real manager by
// VerifC12_ClusterHosts): a cluster update keeps the cluster's hosts, a
// cluster-and-hosts update replaces them.
type zzCM2 struct {
	types.ClusterManager
	exists map[string]bool
	hosts  map[string][]string
}

func (m *zzCM2) AddOrUpdatePrimaryCluster(c v2.Cluster) error {
	if !m.exists[c.Name] {
		m.hosts[c.Name] = nil
	}
	m.exists[c.Name] = true
	return nil
}
func (m *zzCM2) AddOrUpdateClusterAndHost(c v2.Cluster, hosts []v2.Host) error {
	m.exists[c.Name] = true
	var addrs []string
	for _, h := range hosts {
		addrs = append(addrs, h.Address)
	}
	m.hosts[c.Name] = addrs
	return nil
}

// VerifC12_XdsClusterUpdates: over a short sequence of CDS updates for one
// STATIC cluster, each carrying any subset (also the empty one) of two inline
// endpoints, the cluster serves exactly the endpoints of the last update: the
// last update wins and removed endpoints are gone.
func VerifC12_XdsClusterUpdates() {
	cm := &zzCM2{exists: map[string]bool{}, hosts: map[string][]string{}}
	ad := clusterAdapter.GetClusterMngAdapterInstance()
	saved := ad.ClusterManager
	ad.ClusterManager = cm
	defer func() { ad.ClusterManager = saved }()
	cvt := &xdsConverter{rdsrecords: map[string]struct{}{}, stats: XdsStats{CdsUpdateSuccess: &zzXCounter{}, CdsUpdateReject: &zzXCounter{}, LdsUpdateSuccess: &zzXCounter{}, LdsUpdateReject: &zzXCounter{}}}
	steps := 2 + verif.Choose("updates", verif.Param("cds_updates", 1, 2))
	for s := 0; s < steps; s++ {
		mask := verif.Choose("endpoints", 4)
		var want []string
		loc := &envoy_config_endpoint_v3.LocalityLbEndpoints{}
		for i, a := range []string{"10.0.0.1", "10.0.0.2"} {
			if mask&(1<<i) != 0 {
				loc.LbEndpoints = append(loc.LbEndpoints, zzEndpoint(a))
				want = append(want, a+":80")
			}
		}
		c := &envoy_config_cluster_v3.Cluster{
			Name:                 "c",
			ClusterDiscoveryType: &envoy_config_cluster_v3.Cluster_Type{Type: envoy_config_cluster_v3.Cluster_STATIC},
			LoadAssignment:       &envoy_config_endpoint_v3.ClusterLoadAssignment{ClusterName: "c", Endpoints: []*envoy_config_endpoint_v3.LocalityLbEndpoints{loc}},
		}
		cvt.ConvertUpdateClusters([]*envoy_config_cluster_v3.Cluster{c})
		verif.Assert(cm.exists["c"], "the cluster update did not reach the cluster manager")
		got := cm.hosts["c"]
		same := len(got) == len(want)
		for i := 0; same && i < len(want); i++ {
			same = got[i] == want[i]
		}
		verif.Assert(same, "after a CDS update of a static cluster the cluster does not serve exactly the update's endpoints (last update must win, removed endpoints must be gone)")
		if len(want) == 0 && s > 0 {
			verif.Cover("emptied")
		}
	}
	verif.Cover("end")
}

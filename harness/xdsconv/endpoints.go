//verif:pkg mosn.io/mosn/istio/istio1106/xds/conv
package conv

import (
	envoy_config_core_v3 "github.com/envoyproxy/go-control-plane/envoy/config/core/v3"
	envoy_config_endpoint_v3 "github.com/envoyproxy/go-control-plane/envoy/config/endpoint/v3"
	v2 "mosn.io/mosn/pkg/config/v2"
	"mosn.io/mosn/pkg/types"
	clusterAdapter "mosn.io/mosn/pkg/upstream/cluster"
	"mosn.io/mosn/pkg/zzverif/verif"
)

// zzCM records host updates with the cluster manager's semantics:
// UpdateClusterHosts replaces the cluster's host list.
type zzCM struct {
	types.ClusterManager
	hosts map[string][]string
	calls int
}

func (m *zzCM) UpdateClusterHosts(cluster string, hosts []v2.Host) error {
	var addrs []string
	for _, h := range hosts {
		addrs = append(addrs, h.Address)
	}
	m.hosts[cluster] = addrs
	m.calls++
	return nil
}

func zzEndpoint(addr string) *envoy_config_endpoint_v3.LbEndpoint {
	return &envoy_config_endpoint_v3.LbEndpoint{
		HostIdentifier: &envoy_config_endpoint_v3.LbEndpoint_Endpoint{
			Endpoint: &envoy_config_endpoint_v3.Endpoint{
				Address: &envoy_config_core_v3.Address{
					Address: &envoy_config_core_v3.Address_SocketAddress{
						SocketAddress: &envoy_config_core_v3.SocketAddress{
							Address:       addr,
							PortSpecifier: &envoy_config_core_v3.SocketAddress_PortValue{PortValue: 80},
						},
					},
				},
			},
		},
	}
}

// VerifC12_EndpointUnion: an endpoint push with one or two assignments, each
// with several localities, leaves every named cluster with the union of its own
// localities' endpoints - nothing of another assignment of the same push.
func VerifC12_EndpointUnion() {
	cm := &zzCM{hosts: map[string][]string{}}
	ad := clusterAdapter.GetClusterMngAdapterInstance()
	saved := ad.ClusterManager
	ad.ClusterManager = cm
	defer func() { ad.ClusterManager = saved }()
	na := 1 + verif.Choose("assignments", 2)
	want := map[string][]string{}
	var push []*envoy_config_endpoint_v3.ClusterLoadAssignment
	next := 0
	multi := false
	for a := 0; a < na; a++ {
		name := "c" + string(rune('0'+a))
		nl := 1 + verif.Choose("localities", verif.Param("maxloc", 2, 3))
		la := &envoy_config_endpoint_v3.ClusterLoadAssignment{ClusterName: name}
		for l := 0; l < nl; l++ {
			loc := &envoy_config_endpoint_v3.LocalityLbEndpoints{}
			ne := verif.Choose("endpoints", 3)
			for e := 0; e < ne; e++ {
				addr := "10.0.0." + string(rune('1'+next))
				next++
				want[name] = append(want[name], addr+":80")
				loc.LbEndpoints = append(loc.LbEndpoints, zzEndpoint(addr))
			}
			la.Endpoints = append(la.Endpoints, loc)
		}
		if nl > 1 {
			multi = true
		}
		push = append(push, la)
	}
	err := (&xdsConverter{rdsrecords: map[string]struct{}{}}).ConvertUpdateEndpoints(push)
	verif.Assert(err == nil, "endpoint update failed")
	for _, la := range push {
		got, w := cm.hosts[la.ClusterName], want[la.ClusterName]
		verif.Assert(len(got) == len(w), "cluster host set is not the union of the localities' endpoints of its own assignment")
		if len(got) == len(w) {
			for i := range w {
				verif.Assert(got[i] == w[i], "cluster host set is not the union of the localities' endpoints of its own assignment")
			}
		}
	}
	if multi {
		verif.Cover("multi-locality")
	}
	if na > 1 {
		verif.Cover("two assignments in one push")
	}
	verif.Cover("end")
}

//verif:pkg mosn.io/mosn/istio/istio1106/xds/conv
package conv

import (
	envoy_config_core_v3 "github.com/envoyproxy/go-control-plane/envoy/config/core/v3"
	envoy_config_endpoint_v3 "github.com/envoyproxy/go-control-plane/envoy/config/endpoint/v3"
	v2 "mosn.io/mosn/pkg/config/v2"
	"mosn.io/mosn/pkg/types"
	clusterAdapter "mosn.io/mosn/pkg/upstream/cluster"
	"mosn.io/mosn/pkg/zzverif/verif"
)

// zzCM records host updates with the cluster manager's semantics:
// UpdateClusterHosts replaces the cluster's host list.
type zzCM struct {
	types.ClusterManager
	hosts map[string][]string
	calls int
}

func (m *zzCM) UpdateClusterHosts(cluster string, hosts []v2.Host) error {
	var addrs []string
	for _, h := range hosts {
		addrs = append(addrs, h.Address)
	}
	m.hosts[cluster] = addrs
	m.calls++
	return nil
}

func zzEndpoint(addr string) *envoy_config_endpoint_v3.LbEndpoint {
	return &envoy_config_endpoint_v3.LbEndpoint{
		HostIdentifier: &envoy_config_endpoint_v3.LbEndpoint_Endpoint{
			Endpoint: &envoy_config_endpoint_v3.Endpoint{
				Address: &envoy_config_core_v3.Address{
					Address: &envoy_config_core_v3.Address_SocketAddress{
						SocketAddress: &envoy_config_core_v3.SocketAddress{
							Address:       addr,
							PortSpecifier: &envoy_config_core_v3.SocketAddress_PortValue{PortValue: 80},
						},
					},
				},
			},
		},
	}
}

// VerifC12_EndpointUnion: an endpoint assignment with several localities
// leaves the cluster with the union of all localities' endpoints.
func VerifC12_EndpointUnion() {
	cm := &zzCM{hosts: map[string][]string{}}
	ad := clusterAdapter.GetClusterMngAdapterInstance()
	saved := ad.ClusterManager
	ad.ClusterManager = cm
	defer func() { ad.ClusterManager = saved }()
	nl := 1 + verif.Choose("localities", verif.Param("maxloc", 2, 3))
	var want []string
	la := &envoy_config_endpoint_v3.ClusterLoadAssignment{ClusterName: "c"}
	next := 0
	for l := 0; l < nl; l++ {
		loc := &envoy_config_endpoint_v3.LocalityLbEndpoints{}
		ne := verif.Choose("endpoints", 3)
		for e := 0; e < ne; e++ {
			addr := "10.0.0." + string(rune('1'+next))
			next++
			want = append(want, addr+":80")
			loc.LbEndpoints = append(loc.LbEndpoints, zzEndpoint(addr))
		}
		la.Endpoints = append(la.Endpoints, loc)
	}
	err := (&xdsConverter{rdsrecords: map[string]struct{}{}}).ConvertUpdateEndpoints([]*envoy_config_endpoint_v3.ClusterLoadAssignment{la})
	verif.Assert(err == nil, "endpoint update failed")
	got := cm.hosts["c"]
	verif.Assert(len(got) == len(want), "cluster host set is not the union of the localities' endpoints")
	if len(got) == len(want) {
		for i := range want {
			verif.Assert(got[i] == want[i], "cluster host set is not the union of the localities' endpoints")
		}
	}
	if nl > 1 {
		verif.Cover("multi-locality")
	}
	verif.Cover("end")
}

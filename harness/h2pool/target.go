//verif:pkg mosn.io/mosn/pkg/stream/http2
package http2

import (
	"bytes"
	"context"

	"mosn.io/api"
	mh2 "mosn.io/mosn/pkg/module/http2"
	"mosn.io/mosn/pkg/module/http2/hpack"
	"mosn.io/mosn/pkg/types"
	"mosn.io/mosn/pkg/zzverif/verif"
	"mosn.io/pkg/buffer"
	"mosn.io/pkg/variable"
)

type zzTKeep struct {
	ctx context.Context
	h   api.HeaderMap
	n   int
}

type zzTRecv struct{ k *zzTKeep }

func (r *zzTRecv) OnReceive(ctx context.Context, h api.HeaderMap, data buffer.IoBuffer, t api.HeaderMap) {
	r.k.ctx, r.k.h = ctx, h
	r.k.n++
}
func (r *zzTRecv) OnDecodeError(ctx context.Context, err error, h api.HeaderMap) {}

type zzTCallbacks struct{ k *zzTKeep }

func (c *zzTCallbacks) OnGoAway() {}
func (c *zzTCallbacks) NewStreamDetect(ctx context.Context, s types.StreamSender, span api.Span) types.StreamReceiveListener {
	return &zzTRecv{k: c.k}
}

var zzTargets = []string{"/", "/a", "/a?", "/?", "/a?x=1", "/a?x=1&y=", "/a%2Fb", "/a//b", "/a/../b", "/a/./b?q=%20", "/*", "/a;p=1?k=v%3D"}

// VerifC01_H2RequestTarget: an HTTP/2 request received by the real downstream stream
// layer (serverStreamConnection.Dispatch, codec, MServerConn) and handed - context and
// header object as the proxy hands them on when no rewrite is configured - to the real
// upstream stream layer (clientStream.AppendHeaders): the :path the upstream receives,
// read back with the reference framer and HPACK decoder, is the :path the client sent,
// byte for byte, for every target of a catalogue of the interesting shapes (empty query,
// escaped bytes, '//', '..', '*', parameters).
func VerifC01_H2RequestTarget() {
	target := zzTargets[verif.Choose("target", len(zzTargets))]
	var wire bytes.Buffer
	wire.WriteString(mh2.ClientPreface)
	fw := mh2.NewFramer(&wire, nil)
	fw.WriteSettings()
	var hbuf bytes.Buffer
	enc := hpack.NewEncoder(&hbuf)
	enc.WriteField(hpack.HeaderField{Name: ":method", Value: "GET"})
	enc.WriteField(hpack.HeaderField{Name: ":scheme", Value: "http"})
	enc.WriteField(hpack.HeaderField{Name: ":authority", Value: "a.b"})
	enc.WriteField(hpack.HeaderField{Name: ":path", Value: target})
	fw.WriteHeaders(mh2.HeadersFrameParam{StreamID: 1, BlockFragment: hbuf.Bytes(), EndStream: true, EndHeaders: true})
	keep := &zzTKeep{}
	sc := newServerStreamConnection(variable.NewVariableContext(context.Background()), &zzDConn{}, &zzTCallbacks{k: keep})
	rb := buffer.NewIoBuffer(256)
	rb.Write(wire.Bytes())
	sc.Dispatch(rb)
	verif.Assert(keep.n == 1, "the request did not reach the proxy")
	if keep.n != 1 {
		return
	}
	// the upstream hop
	conn := &zzRConn{}
	cc := newClientStreamConnection(variable.NewVariableContext(context.Background()), conn, &zzDCallbacks{}).(*clientStreamConnection)
	s := cc.NewStream(keep.ctx, &zzDClientRecv{})
	verif.Assert(s.AppendHeaders(keep.ctx, keep.h, true) == nil, "request headers not accepted by the upstream stream layer")
	out := conn.out.Bytes()
	if len(out) >= len(mh2.ClientPreface) && string(out[:len(mh2.ClientPreface)]) == mh2.ClientPreface {
		out = out[len(mh2.ClientPreface):]
	}
	fr := mh2.NewFramer(nil, bytes.NewReader(out))
	dec := hpack.NewDecoder(4096, nil)
	path, method, seen := "", "", 0
	for {
		f, err := fr.ReadFrame()
		if err != nil {
			break
		}
		if hf, ok := f.(*mh2.HeadersFrame); ok && hf.Header().StreamID != 0 {
			fields, derr := dec.DecodeFull(hf.HeaderBlockFragment())
			verif.Assert(derr == nil, "the reference decoder refuses a header block MOSN wrote")
			for _, x := range fields {
				if x.Name == ":path" {
					path = x.Value
					seen++
				}
				if x.Name == ":method" {
					method = x.Value
				}
			}
		}
	}
	verif.Assert(seen == 1 && method == "GET", "the upstream request does not carry exactly one :path and the method")
	verif.Assert(path == target, "HTTP/2 to HTTP/2: the :path the upstream receives is not the :path the client sent")
	verif.Cover("end")
}

//verif:pkg mosn.io/mosn/pkg/stream/http2
package http2

import (
	"bytes"
	"context"

	"golang.org/x/net/http2/hpack"
	mh2 "mosn.io/mosn/pkg/module/http2"
	"mosn.io/mosn/pkg/zzverif/verif"
	"mosn.io/pkg/buffer"
	"mosn.io/pkg/variable"
)

// VerifC08_H2AnnouncedBodyLength: a request announces a body length
// (content-length absent, honest, 256 MiB, or near 2^63) and sends 10 body
// bytes in one DATA frame, with or without END_STREAM. What the downstream
// HTTP/2 stream layer allocates for that body is bounded by what has
// arrived, not by what was announced; nothing panics; the connection stays.
func VerifC08_H2AnnouncedBodyLength() {
	verif.NoPanic()
	verif.AllocCeiling(1 << 20)
	announced := []string{"", "10", "268435456", "9223372036854775000"}[verif.Choose("content_length", 4)]
	end := verif.Choose("end_stream", 2) == 1
	var wire bytes.Buffer
	wire.WriteString(mh2.ClientPreface)
	fw := mh2.NewFramer(&wire, nil)
	fw.WriteSettings()
	var hbuf bytes.Buffer
	enc := hpack.NewEncoder(&hbuf)
	enc.WriteField(hpack.HeaderField{Name: ":method", Value: "POST"})
	enc.WriteField(hpack.HeaderField{Name: ":scheme", Value: "http"})
	enc.WriteField(hpack.HeaderField{Name: ":authority", Value: "a.b"})
	enc.WriteField(hpack.HeaderField{Name: ":path", Value: "/up"})
	if announced != "" {
		enc.WriteField(hpack.HeaderField{Name: "content-length", Value: announced})
	}
	fw.WriteHeaders(mh2.HeadersFrameParam{StreamID: 1, BlockFragment: hbuf.Bytes(), EndStream: false, EndHeaders: true})
	fw.WriteData(1, end, []byte("0123456789"))
	cb := &zzDCallbacks{}
	conn := &zzDConn{}
	ctx := variable.NewVariableContext(context.Background())
	sc := newServerStreamConnection(ctx, conn, cb).(*serverStreamConnection)
	rb := buffer.NewIoBuffer(256)
	rb.Write(wire.Bytes())
	received := rb.Len()
	sc.Dispatch(rb)
	verif.Assert(!conn.closed, "the connection was closed for a request whose announced length differs from what has arrived so far")
	if s := sc.streams[1]; s != nil && s.recData != nil {
		verif.Assert(s.recData.Cap() <= received+4096, "memory for the request body was allocated for the announced length, not for the bytes that arrived")
		verif.Cover("body buffer seen")
	}
	if end {
		verif.Assert(len(cb.got) == 1, "a complete request was not handed to the proxy")
	}
	verif.Cover("end")
}

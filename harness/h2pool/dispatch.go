//verif:pkg mosn.io/mosn/pkg/stream/http2
package http2

import (
	"bytes"
	"context"
	"net"
	"strconv"

	"mosn.io/api"
	mh2 "mosn.io/mosn/pkg/module/http2"
	"mosn.io/mosn/pkg/module/http2/hpack"
	"mosn.io/mosn/pkg/protocol"
	mproto "mosn.io/mosn/pkg/protocol/http2"
	"mosn.io/mosn/pkg/types"
	"mosn.io/mosn/pkg/zzverif/verif"
	"mosn.io/pkg/buffer"
	"mosn.io/pkg/variable"
)

type zzDConn struct {
	api.Connection
	closed bool
}

func (c *zzDConn) SetTransferEventListener(func() bool)                       {}
func (c *zzDConn) AddConnectionEventListener(api.ConnectionEventListener)     {}
func (c *zzDConn) RawConn() net.Conn                                          { return nil }
func (c *zzDConn) Write(...buffer.IoBuffer) error                             { return nil }
func (c *zzDConn) Close(api.ConnectionCloseType, api.ConnectionEvent) error   { c.closed = true; return nil }
func (c *zzDConn) ID() uint64                                                 { return 1 }
func (c *zzDConn) State() api.ConnState {
	if c.closed {
		return api.ConnClosed
	}
	return api.ConnActive
}

type zzDRecv struct {
	cb *zzDCallbacks
}

func (r *zzDRecv) OnReceive(ctx context.Context, h api.HeaderMap, data buffer.IoBuffer, t api.HeaderMap) {
	p, _ := variable.GetString(ctx, types.VarPath)
	if data != nil {
		p += " body=" + string(data.Bytes())
	}
	if t != nil {
		if v, ok := t.Get("X-Tr"); ok {
			p += " trailer=" + v
		}
	}
	r.cb.got = append(r.cb.got, p)
}
func (r *zzDRecv) OnDecodeError(ctx context.Context, err error, h api.HeaderMap) {}

type zzDCallbacks struct {
	got []string
}

func (c *zzDCallbacks) OnGoAway() {}

func (c *zzDCallbacks) NewStreamDetect(ctx context.Context, s types.StreamSender, span api.Span) types.StreamReceiveListener {
	return &zzDRecv{cb: c}
}

// zzDWire: what a client writes: preface, SETTINGS, request /one on stream 1,
// a frame the server refuses with a stream error (WINDOW_UPDATE with a zero
// increment on stream 1, or a request on stream 3 with an upper-case header
// name) or nothing, and request /two on stream 5.
func zzDWire(bad, shape int) []byte {
	var wire bytes.Buffer
	wire.WriteString(mh2.ClientPreface)
	fw := mh2.NewFramer(&wire, nil)
	fw.AllowIllegalWrites = true
	fw.WriteSettings()
	var hbuf bytes.Buffer
	enc := hpack.NewEncoder(&hbuf)
	block := func(path string, badName bool) []byte {
		hbuf.Reset()
		enc.WriteField(hpack.HeaderField{Name: ":method", Value: "GET"})
		enc.WriteField(hpack.HeaderField{Name: ":scheme", Value: "http"})
		enc.WriteField(hpack.HeaderField{Name: ":authority", Value: "a.b"})
		enc.WriteField(hpack.HeaderField{Name: ":path", Value: path})
		if badName {
			enc.WriteField(hpack.HeaderField{Name: "X-Upper", Value: "v"})
		}
		if path == "/one" && shape == 2 {
			enc.WriteField(hpack.HeaderField{Name: "trailer", Value: "x-tr"}) // trailers are announced
		}
		return append([]byte(nil), hbuf.Bytes()...)
	}
	// request /one: headers only, headers + body, headers + body + trailers
	fw.WriteHeaders(mh2.HeadersFrameParam{StreamID: 1, BlockFragment: block("/one", false), EndStream: shape == 0, EndHeaders: true})
	if shape >= 1 {
		fw.WriteData(1, shape == 1, []byte("abc"))
	}
	if shape == 2 {
		hbuf.Reset()
		enc.WriteField(hpack.HeaderField{Name: "x-tr", Value: "v"})
		fw.WriteHeaders(mh2.HeadersFrameParam{StreamID: 1, BlockFragment: append([]byte(nil), hbuf.Bytes()...), EndStream: true, EndHeaders: true})
	}
	switch bad {
	case 1:
		fw.WriteWindowUpdate(1, 0)
	case 2:
		fw.WriteHeaders(mh2.HeadersFrameParam{StreamID: 3, BlockFragment: block("/bad", true), EndStream: true, EndHeaders: true})
	}
	fw.WriteHeaders(mh2.HeadersFrameParam{StreamID: 5, BlockFragment: block("/two", false), EndStream: true, EndHeaders: true})
	return wire.Bytes()
}

// VerifC07_H2DispatchSegmentation: the downstream HTTP/2 stream layer (the
// real serverStreamConnection.Dispatch over the real codec and MServerConn)
// is fed a client's bytes in one piece or cut in two at any place, the way
// the read loop does (append to the read buffer, dispatch). Wherever the cut
// falls, the proxy receives the same requests in the same order: /one and
// /two - also when a frame between them is refused with a stream error, which
// by definition concerns only the stream it names.
func VerifC07_H2DispatchSegmentation() {
	bad := verif.Choose("refused_frame_between", 3)
	shape := verif.Choose("request_one_shape", 3)
	wire := zzDWire(bad, shape)
	cut := verif.Choose("cut", len(wire)+1) // len(wire) = one piece
	cb := &zzDCallbacks{}
	conn := &zzDConn{}
	ctx := variable.NewVariableContext(context.Background())
	sc := newServerStreamConnection(ctx, conn, cb)
	rb := buffer.NewIoBuffer(256)
	rb.Write(wire[:cut])
	sc.Dispatch(rb)
	if cut < len(wire) {
		rb.Write(wire[cut:])
		sc.Dispatch(rb)
	}
	verif.Assert(!conn.closed, "the connection was closed although at most one stream was at fault")
	one := []string{"/one", "/one body=abc", "/one body=abc trailer=v"}[shape]
	ok := len(cb.got) == 2 && cb.got[0] == one && cb.got[1] == "/two"
	verif.Assert(ok, "the requests handed to the proxy depend on how the client's bytes were cut into reads (or a stream error made the frames behind it wait for bytes that never come)")
	verif.Assert(rb.Len() == 0, "complete frames are left in the read buffer after the last read")
	verif.Cover("end")
}

type zzDClientRecv struct {
	got    int
	status string
}

func (r *zzDClientRecv) OnReceive(ctx context.Context, h api.HeaderMap, data buffer.IoBuffer, t api.HeaderMap) {
	r.got++
	if rh, ok := h.(*mproto.RspHeader); ok && rh.Rsp != nil {
		r.status = strconv.Itoa(rh.Rsp.StatusCode)
	}
}
func (r *zzDClientRecv) OnDecodeError(ctx context.Context, err error, h api.HeaderMap) {}

// zzDServerWire: what an upstream server writes: SETTINGS, the response to
// stream 1, optionally a frame on stream 3 that the client refuses with a
// stream error, and the response to stream 5.
func zzDServerWire(bad int) []byte {
	var wire bytes.Buffer
	fw := mh2.NewFramer(&wire, nil)
	fw.AllowIllegalWrites = true
	fw.WriteSettings()
	var hbuf bytes.Buffer
	enc := hpack.NewEncoder(&hbuf)
	block := func(status string, badName bool) []byte {
		hbuf.Reset()
		enc.WriteField(hpack.HeaderField{Name: ":status", Value: status})
		if badName {
			enc.WriteField(hpack.HeaderField{Name: "X-Upper", Value: "v"})
		}
		return append([]byte(nil), hbuf.Bytes()...)
	}
	fw.WriteHeaders(mh2.HeadersFrameParam{StreamID: 1, BlockFragment: block("200", false), EndStream: true, EndHeaders: true})
	switch bad {
	case 1:
		fw.WriteWindowUpdate(3, 0)
	case 2:
		fw.WriteHeaders(mh2.HeadersFrameParam{StreamID: 3, BlockFragment: block("200", true), EndStream: true, EndHeaders: true})
	}
	fw.WriteHeaders(mh2.HeadersFrameParam{StreamID: 5, BlockFragment: block("204", false), EndStream: true, EndHeaders: true})
	return wire.Bytes()
}

// VerifC07_H2ClientDispatchSegmentation: the upstream HTTP/2 stream layer
// (the real clientStreamConnection with three requests in flight) is fed the
// server's bytes in one piece or cut in two at any place. Wherever the cut
// falls, the requests on streams 1 and 5 get their responses (200 and 204),
// each exactly once - also when a frame for stream 3 between them is refused
// with a stream error.
func VerifC07_H2ClientDispatchSegmentation() {
	bad := verif.Choose("refused_frame_between", 3)
	wire := zzDServerWire(bad)
	cut := verif.Choose("cut", len(wire)+1)
	conn := &zzDConn{}
	ctx := variable.NewVariableContext(context.Background())
	sc := newClientStreamConnection(ctx, conn, &zzDCallbacks{}).(*clientStreamConnection)
	var recvs []*zzDClientRecv
	for i := 0; i < 3; i++ {
		rctx := variable.NewVariableContext(context.Background())
		variable.SetString(rctx, types.VarHost, "a.b")
		variable.SetString(rctx, types.VarPath, "/p")
		variable.SetString(rctx, types.VarMethod, "GET")
		r := &zzDClientRecv{}
		recvs = append(recvs, r)
		s := sc.NewStream(rctx, r)
		verif.Assert(s.AppendHeaders(rctx, protocol.CommonHeader{}, true) == nil, "a request could not be sent")
	}
	rb := buffer.NewIoBuffer(256)
	rb.Write(wire[:cut])
	sc.Dispatch(rb)
	if cut < len(wire) {
		rb.Write(wire[cut:])
		sc.Dispatch(rb)
	}
	verif.Assert(!conn.closed, "the connection was closed although at most one stream was at fault")
	verif.Assert(recvs[0].got == 1 && recvs[0].status == "200", "the response on stream 1 did not reach its request exactly once")
	verif.Assert(recvs[2].got == 1 && recvs[2].status == "204", "the response on stream 5 depends on how the server's bytes were cut into reads (or a stream error made the frames behind it wait)")
	if bad == 0 {
		verif.Assert(recvs[1].got == 0, "a request got a response that was never sent")
	}
	verif.Assert(rb.Len() == 0, "complete frames are left in the read buffer after the last read")
	verif.Cover("end")
}

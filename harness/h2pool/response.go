//verif:pkg mosn.io/mosn/pkg/stream/http2
package http2

import (
	"bytes"
	"context"

	"mosn.io/api"
	mh2 "mosn.io/mosn/pkg/module/http2"
	"mosn.io/mosn/pkg/module/http2/hpack"
	"mosn.io/mosn/pkg/protocol"
	"mosn.io/mosn/pkg/types"
	"mosn.io/mosn/pkg/zzverif/verif"
	"mosn.io/pkg/buffer"
	"mosn.io/pkg/variable"
)

// zzRConn records every byte the stream layer writes to the client.
type zzRConn struct {
	zzDConn
	out bytes.Buffer
}

func (c *zzRConn) Write(bufs ...buffer.IoBuffer) error {
	for _, b := range bufs {
		c.out.Write(b.Bytes())
	}
	return nil
}

type zzRRecv struct{ sender types.StreamSender }

func (r *zzRRecv) OnReceive(ctx context.Context, h api.HeaderMap, d buffer.IoBuffer, t api.HeaderMap) {}
func (r *zzRRecv) OnDecodeError(ctx context.Context, err error, h api.HeaderMap)                     {}

type zzRCallbacks struct{ recv *zzRRecv }

func (c *zzRCallbacks) OnGoAway() {}
func (c *zzRCallbacks) NewStreamDetect(ctx context.Context, s types.StreamSender, span api.Span) types.StreamReceiveListener {
	c.recv = &zzRRecv{sender: s}
	return c.recv
}

// VerifC18_H2ServerResponse: the proxy answers a downstream HTTP/2 request
// through the real stream layer - headers only, headers and a body of
// symbolic bytes, or headers, body and trailers; status 200, 404 or 503. What
// MOSN writes is read back by the reference framer and HPACK decoder
// (the x/net code in the same package): a HEADERS frame with the status and
// the response header, the body bytes in DATA frames in order, the trailer
// field, END_STREAM exactly once and on the last frame, nothing for another
// stream.
func VerifC18_H2ServerResponse() {
	shape := verif.Choose("response_shape", 3)
	status := []string{"200", "404", "503"}[verif.Choose("status", 3)]
	body := verif.Bytes("body", 3)
	cb := &zzRCallbacks{}
	conn := &zzRConn{}
	ctx := variable.NewVariableContext(context.Background())
	sc := newServerStreamConnection(ctx, conn, cb)
	rb := buffer.NewIoBuffer(256)
	rb.Write(zzDWire(0, 0)[:]) // preface, SETTINGS, request /one, request /two
	sc.Dispatch(rb)
	verif.Assert(cb.recv != nil, "no request reached the proxy")
	if cb.recv == nil {
		return
	}
	conn.out.Reset() // drop the server's own SETTINGS / acks
	s := cb.recv.sender // the sender of the last request (stream 5)
	// the status variable is registered by pkg/proxy, which a stream-layer harness does not load under the engine
	_ = variable.Register(variable.NewStringVariable(types.VarHeaderStatus, nil, nil, variable.DefaultStringSetter, 0))
	sctx := variable.NewVariableContext(context.Background())
	variable.SetString(sctx, types.VarHeaderStatus, status)
	// a content type is given: sniffing one from the body (net/http tables) is not the subject
	verif.Assert(s.AppendHeaders(sctx, protocol.CommonHeader{"x-k": "v", "content-type": "text/plain"}, shape == 0) == nil, "response headers not accepted")
	if shape >= 1 {
		verif.Assert(s.AppendData(sctx, buffer.NewIoBufferBytes(append([]byte{}, body...)), shape == 1) == nil, "response body not accepted")
	}
	if shape == 2 {
		verif.Assert(s.AppendTrailers(sctx, protocol.CommonHeader{"x-tr": "t"}) == nil, "response trailers not accepted")
	}
	// read back with the reference implementation
	fr := mh2.NewFramer(nil, bytes.NewReader(conn.out.Bytes()))
	dec := hpack.NewDecoder(4096, nil)
	var got []byte
	gotStatus, gotHdr, gotTr := "", "", ""
	ended, frames, afterEnd, otherStream := 0, 0, false, false
	headerFrames := 0
	for {
		f, err := fr.ReadFrame()
		if err != nil {
			break
		}
		if f.Header().StreamID == 0 {
			continue // connection-level frames (window updates, settings acks)
		}
		if f.Header().StreamID != 5 {
			otherStream = true
			continue
		}
		frames++
		if ended > 0 {
			afterEnd = true
		}
		switch t := f.(type) {
		case *mh2.HeadersFrame:
			headerFrames++
			fields, derr := dec.DecodeFull(t.HeaderBlockFragment())
			verif.Assert(derr == nil && t.HeadersEnded(), "the reference decoder refuses a header block MOSN wrote")
			for _, hf := range fields {
				switch hf.Name {
				case ":status":
					gotStatus = hf.Value
				case "x-k":
					gotHdr = hf.Value
				case "x-tr":
					gotTr = hf.Value
				}
			}
			if t.StreamEnded() {
				ended++
			}
		case *mh2.DataFrame:
			got = append(got, t.Data()...)
			if t.StreamEnded() {
				ended++
			}
		}
	}
	verif.Assert(!otherStream, "frames were written for a stream that was not answered")
	verif.Assert(gotStatus == status && gotHdr == "v", "the response HEADERS frame does not carry the status and the response header")
	verif.Assert(ended == 1 && !afterEnd, "END_STREAM must be set exactly once, on the last frame of the response")
	if shape >= 1 {
		verif.Assert(string(got) == string(body), "the response body read back by the reference framer differs from what the proxy sent")
	} else {
		verif.Assert(len(got) == 0, "a body was written for a header-only response")
	}
	if shape == 2 {
		verif.Assert(gotTr == "t" && headerFrames == 2, "the trailers did not arrive as a second HEADERS frame")
	} else {
		verif.Assert(headerFrames == 1, "a header-only or header+body response has exactly one HEADERS frame")
	}
	verif.Cover("end")
}

// VerifC18_H2ClientRequest: the proxy sends an upstream HTTP/2 request through
// the real stream layer - headers only (GET), headers and a body of symbolic
// bytes (POST), or headers, body and trailers. What MOSN writes is read back
// by the reference framer and HPACK decoder: a HEADERS frame with method,
// path, authority and the request header, the body bytes in DATA frames in
// order, the trailer field, END_STREAM exactly once and on the last frame.
func VerifC18_H2ClientRequest() {
	shape := verif.Choose("request_shape", 3)
	body := verif.Bytes("body", 3)
	conn := &zzRConn{}
	ctx := variable.NewVariableContext(context.Background())
	sc := newClientStreamConnection(ctx, conn, &zzDCallbacks{}).(*clientStreamConnection)
	rctx := variable.NewVariableContext(context.Background())
	variable.SetString(rctx, types.VarHost, "a.b")
	variable.SetString(rctx, types.VarPath, "/p")
	s := sc.NewStream(rctx, &zzDClientRecv{})
	verif.Assert(s.AppendHeaders(rctx, protocol.CommonHeader{"x-k": "v"}, shape == 0) == nil, "request headers not accepted")
	if shape >= 1 {
		verif.Assert(s.AppendData(rctx, buffer.NewIoBufferBytes(append([]byte{}, body...)), shape == 1) == nil, "request body not accepted")
	}
	if shape == 2 {
		verif.Assert(s.AppendTrailers(rctx, protocol.CommonHeader{"x-tr": "t"}) == nil, "request trailers not accepted")
	}
	out := conn.out.Bytes()
	if len(out) >= len(mh2.ClientPreface) && string(out[:len(mh2.ClientPreface)]) == mh2.ClientPreface {
		out = out[len(mh2.ClientPreface):]
	}
	fr := mh2.NewFramer(nil, bytes.NewReader(out))
	dec := hpack.NewDecoder(4096, nil)
	var got []byte
	method, path, auth, hdr, tr := "", "", "", "", ""
	ended, afterEnd, headerFrames := 0, false, 0
	for {
		f, err := fr.ReadFrame()
		if err != nil {
			break
		}
		if f.Header().StreamID == 0 {
			continue
		}
		if ended > 0 {
			afterEnd = true
		}
		switch t := f.(type) {
		case *mh2.HeadersFrame:
			headerFrames++
			fields, derr := dec.DecodeFull(t.HeaderBlockFragment())
			verif.Assert(derr == nil && t.HeadersEnded(), "the reference decoder refuses a header block MOSN wrote")
			for _, hf := range fields {
				switch hf.Name {
				case ":method":
					method = hf.Value
				case ":path":
					path = hf.Value
				case ":authority":
					auth = hf.Value
				case "x-k":
					hdr = hf.Value
				case "x-tr":
					tr = hf.Value
				}
			}
			if t.StreamEnded() {
				ended++
			}
		case *mh2.DataFrame:
			got = append(got, t.Data()...)
			if t.StreamEnded() {
				ended++
			}
		}
	}
	wantMethod := "POST"
	if shape == 0 {
		wantMethod = "GET"
	}
	verif.Assert(method == wantMethod && path == "/p" && auth == "a.b" && hdr == "v", "the request HEADERS frame does not carry method, path, authority and the request header")
	verif.Assert(ended == 1 && !afterEnd, "END_STREAM must be set exactly once, on the last frame of the request")
	if shape >= 1 {
		verif.Assert(string(got) == string(body), "the request body read back by the reference framer differs from what the proxy sent")
	} else {
		verif.Assert(len(got) == 0, "a body was written for a header-only request")
	}
	if shape == 2 {
		verif.Assert(tr == "t" && headerFrames == 2, "the trailers did not arrive as a second HEADERS frame")
	} else {
		verif.Assert(headerFrames == 1, "a request without trailers has exactly one HEADERS frame")
	}
	verif.Cover("end")
}

//verif:pkg mosn.io/mosn/pkg/stream/http2
package http2

import (
	"context"
	"errors"

	gometrics "github.com/rcrowley/go-metrics"
	"mosn.io/api"
	v2 "mosn.io/mosn/pkg/config/v2"
	str "mosn.io/mosn/pkg/stream"
	"mosn.io/mosn/pkg/types"
	"mosn.io/mosn/pkg/upstream/cluster"
	"mosn.io/mosn/pkg/zzverif/verif"
	"mosn.io/pkg/variable"
)

type zzHCtr struct{ n int64 }

func (c *zzHCtr) Clear()                      { c.n = 0 }
func (c *zzHCtr) Count() int64                { return c.n }
func (c *zzHCtr) Dec(i int64)                 { c.n -= i }
func (c *zzHCtr) Inc(i int64)                 { c.n += i }
func (c *zzHCtr) Snapshot() gometrics.Counter { return c }

func zzHHostStats() *types.HostStats {
	return &types.HostStats{UpstreamConnectionTotal: &zzHCtr{}, UpstreamConnectionClose: &zzHCtr{}, UpstreamConnectionActive: &zzHCtr{},
		UpstreamConnectionConFail: &zzHCtr{}, UpstreamConnectionLocalClose: &zzHCtr{}, UpstreamConnectionRemoteClose: &zzHCtr{},
		UpstreamConnectionLocalCloseWithActiveRequest: &zzHCtr{}, UpstreamConnectionRemoteCloseWithActiveRequest: &zzHCtr{},
		UpstreamRequestTotal: &zzHCtr{}, UpstreamRequestActive: &zzHCtr{}, UpstreamRequestLocalReset: &zzHCtr{}, UpstreamRequestRemoteReset: &zzHCtr{},
		UpstreamRequestTimeout: &zzHCtr{}, UpstreamRequestFailureEject: &zzHCtr{}, UpstreamRequestPendingOverflow: &zzHCtr{}}
}

func zzHClusterStats() *types.ClusterStats {
	return &types.ClusterStats{UpstreamConnectionTotal: &zzHCtr{}, UpstreamConnectionClose: &zzHCtr{}, UpstreamConnectionActive: &zzHCtr{},
		UpstreamConnectionConFail: &zzHCtr{}, UpstreamConnectionLocalClose: &zzHCtr{}, UpstreamConnectionRemoteClose: &zzHCtr{},
		UpstreamConnectionLocalCloseWithActiveRequest: &zzHCtr{}, UpstreamConnectionRemoteCloseWithActiveRequest: &zzHCtr{},
		UpstreamRequestTotal: &zzHCtr{}, UpstreamRequestActive: &zzHCtr{}, UpstreamRequestLocalReset: &zzHCtr{}, UpstreamRequestRemoteReset: &zzHCtr{},
		UpstreamRequestTimeout: &zzHCtr{}, UpstreamRequestFailureEject: &zzHCtr{}, UpstreamRequestPendingOverflow: &zzHCtr{},
		UpstreamBytesReadTotal: &zzHCtr{}, UpstreamBytesWriteTotal: &zzHCtr{}}
}

type zzHInfo struct {
	types.ClusterInfo
	rm types.ResourceManager
	st *types.ClusterStats
}

func (i *zzHInfo) Name() string                           { return "c" }
func (i *zzHInfo) ResourceManager() types.ResourceManager { return i.rm }
func (i *zzHInfo) Stats() *types.ClusterStats             { return i.st }

type zzHConn struct {
	types.ClientConnection
	dial      int
	connected bool
	closed    bool
	listeners []api.ConnectionEventListener
}

func (c *zzHConn) ID() uint64                                               { return 1 }
func (c *zzHConn) AddConnectionEventListener(l api.ConnectionEventListener) { c.listeners = append(c.listeners, l) }
func (c *zzHConn) Connect() error {
	ev, err := api.Connected, error(nil)
	switch c.dial {
	case 1:
		ev, err = api.ConnectFailed, errors.New("refused")
	case 2:
		ev, err = api.ConnectTimeout, errors.New("timeout")
	default:
		c.connected = true
	}
	for _, l := range c.listeners {
		l.OnEvent(ev)
	}
	return err
}
func (c *zzHConn) Close(t api.ConnectionCloseType, ev api.ConnectionEvent) error {
	if !c.closed {
		c.closed = true
		if c.connected {
			for _, l := range c.listeners {
				l.OnEvent(ev)
			}
		}
	}
	return nil
}

type zzHStream struct {
	str.BaseStream
	live bool
}

func (s *zzHStream) ID() uint64 { return 1 }

type zzHSender struct {
	types.StreamSender
	st *zzHStream
}

func (s *zzHSender) GetStream() types.Stream { return s.st }

type zzHClient struct {
	str.Client
	conn    *zzHConn
	streams []*zzHStream
}

func (c *zzHClient) ConnID() uint64                                                        { return 1 }
func (c *zzHClient) SetStreamConnectionEventListener(types.StreamConnectionEventListener) {}
func (c *zzHClient) SetConnectionCollector(read, write gometrics.Counter)                 {}
func (c *zzHClient) Close()                                                                { c.conn.Close(api.NoFlush, api.LocalClose) }
func (c *zzHClient) NewStream(ctx context.Context, r types.StreamReceiveListener) types.StreamSender {
	st := &zzHStream{live: true}
	c.streams = append(c.streams, st)
	return &zzHSender{st: st}
}

type zzHHost struct {
	types.Host
	info  *zzHInfo
	hs    *types.HostStats
	conns []*zzHConn
	next  int
}

func (h *zzHHost) AddressString() string          { return "1.1.1.1:1" }
func (h *zzHHost) ClusterInfo() types.ClusterInfo { return h.info }
func (h *zzHHost) HostStats() *types.HostStats    { return h.hs }
func (h *zzHHost) TLSHashValue() *types.HashValue { return nil }
func (h *zzHHost) CreateConnection(ctx context.Context) types.CreateConnectionData {
	c := &zzHConn{dial: h.next}
	h.conns = append(h.conns, c)
	return types.CreateConnectionData{Connection: c, Host: h}
}

type zzHRecv struct{ types.StreamReceiveListener }

// VerifC10_HTTP2Pool: the HTTP/2 connection pool (one multiplexed connection
// per host) over short sequences of requests, completions, resets and a peer
// close, with dials that are established, refused or time out: the active
// request gauges and the requests resource equal the number of requests in
// flight after every step, a refused request (overflow, failed dial) changes
// nothing, and the limit trips exactly at max_requests.
func VerifC10_HTTP2Pool() {
	maxReq := uint32(verif.Choose("max_requests", 3))
	info := &zzHInfo{rm: cluster.NewResourceManager(v2.CircuitBreakers{Thresholds: []v2.Thresholds{{MaxRequests: maxReq}}}), st: zzHClusterStats()}
	host := &zzHHost{info: info, hs: zzHHostStats()}
	pool := NewConnPool(context.Background(), host).(*connPool)
	var clients []*zzHClient
	verif.Replace("(*mosn.io/mosn/pkg/stream/http2.connPool).createStreamClient", func(p *connPool, ctx context.Context, d types.CreateConnectionData) str.Client {
		c := &zzHClient{conn: d.Connection.(*zzHConn)}
		clients = append(clients, c)
		return c
	})
	var live []*zzHStream
	inFlight := func() int64 {
		n := int64(0)
		for _, s := range live {
			if s.live {
				n++
			}
		}
		return n
	}
	steps := verif.Param("h2pool_steps", 3, 4)
	for i := 0; i < steps; i++ {
		switch verif.Choose("op", 4) {
		case 0: // a new request
			if pool.activeClient == nil {
				verif.EngineOnly("NewStream would dial: scripted connection under the engine")
				host.next = verif.Choose("dial_outcome", 3)
			}
			before := inFlight()
			ctx := variable.NewVariableContext(context.Background())
			_, sender, reason := pool.NewStream(ctx, zzHRecv{})
			if sender != nil {
				verif.Assert(maxReq == 0 || before < int64(maxReq), "more than max_requests requests admitted")
				live = append(live, sender.GetStream().(*zzHStream))
				verif.Cover("admitted")
			} else if reason == types.Overflow {
				verif.Assert(maxReq > 0 && before >= int64(maxReq), "a request was refused although fewer than max_requests are in flight")
				verif.Cover("overflow")
			}
		case 1: // the oldest request in flight completes
			for _, s := range live {
				if s.live {
					s.live = false
					s.DestroyStream()
					break
				}
			}
		case 2: // the oldest request in flight is reset
			for _, s := range live {
				if s.live {
					s.live = false
					s.ResetStream([]types.StreamResetReason{types.StreamLocalReset, types.StreamRemoteReset}[verif.Choose("reset_reason", 2)])
					break
				}
			}
		default: // the peer closes the connection: the stream layer resets what is in flight
			if len(host.conns) > 0 {
				c := host.conns[len(host.conns)-1]
				if c.connected && !c.closed {
					for _, s := range live {
						if s.live {
							s.live = false
							s.ResetStream(types.StreamConnectionTermination)
						}
					}
					c.Close(api.NoFlush, api.RemoteClose)
					verif.Cover("peer-closed")
				}
			}
		}
		n := inFlight()
		verif.Assert(host.hs.UpstreamRequestActive.Count() == n && info.st.UpstreamRequestActive.Count() == n, "UpstreamRequestActive differs from the number of requests in flight")
		if maxReq > 0 {
			verif.Assert(info.rm.Requests().Cur() == n, "requests resource differs from the number of requests in flight")
		}
		open := int64(0)
		for _, c := range host.conns {
			if c.connected && !c.closed {
				open++
			}
		}
		verif.Assert(host.hs.UpstreamConnectionActive.Count() == open, "UpstreamConnectionActive differs from the number of open connections")
	}
	verif.Cover("end")
}

//verif:pkg mosn.io/mosn/pkg/mtls
package mtls

import (
	"strings"

	v2 "mosn.io/mosn/pkg/config/v2"
	"mosn.io/mosn/pkg/mtls/crypto/tls"
	"mosn.io/mosn/pkg/types"
	"mosn.io/mosn/pkg/zzverif/verif"
)

type zzProvider struct {
	ctx   *tlsContext
	ready bool
	cfg   *types.TLSConfigContext
}

func (p *zzProvider) GetTLSConfigContext(client bool) *types.TLSConfigContext { return p.cfg }
func (p *zzProvider) MatchedServerName(sn string) bool                        { return p.ctx.MatchedServerName(sn) }
func (p *zzProvider) MatchedALPN(protos []string) bool                        { return p.ctx.MatchedALPN(protos) }
func (p *zzProvider) Ready() bool                                             { return p.ready }
func (p *zzProvider) Empty() bool                                             { return false }

var zzNameCatalogue = []string{"", "a.b", "*.b", "*.a.b", "b"}
var zzAlpnCatalogue = [][]string{nil, {"h2"}, {"http/1.1"}}
var zzSNICatalogue = []string{"", "a.b", "A.b.", "x.a.b", "b", "c", "h2", "x.A.B", "c.B"}
var zzHelloAlpn = [][]string{nil, {"h2"}, {"H2", "http/1.1"}}

// zzNameMatches: exact, or with the first k labels replaced by one "*".
func zzNameMatches(names []string, sni string) bool {
	n := strings.ToLower(sni)
	for len(n) > 0 && n[len(n)-1] == '.' {
		n = n[:len(n)-1]
	}
	if n == "" {
		return false
	}
	for _, c := range names {
		if c == n {
			return true
		}
	}
	labels := strings.Split(n, ".")
	for i := 0; i < len(labels)-1; i++ {
		cand := "*." + strings.Join(labels[i+1:], ".")
		for _, c := range names {
			if c == cand {
				return true
			}
		}
	}
	return false
}

// VerifC13_ContextSelection: the certificate context chosen for a ClientHello
// is the first ready one whose certificate names or server_name match the SNI
// (exactly or by wildcard label), else the first ready one whose ALPN list
// intersects the client's, else the first ready one.
func VerifC13_ContextSelection() {
	// tls.Config.Clone draws session-ticket keys from crypto/rand (environment): identity here
	verif.Replace("(*mosn.io/mosn/pkg/mtls/crypto/tls.Config).Clone", func(c *tls.Config) *tls.Config { return c })
	np := verif.Param("contexts", 2, 3)
	var provs []types.TLSProvider
	type ref struct {
		ready bool
		names []string
		alpn  []string
	}
	var refs []ref
	for i := 0; i < np; i++ {
		certName := zzNameCatalogue[verif.Choose("cert_name", len(zzNameCatalogue))]
		serverName := ""
		if verif.Tier() == 1 {
			serverName = zzNameCatalogue[verif.Choose("server_name", 3)]
		}
		alpn := zzAlpnCatalogue[verif.Choose("alpn", len(zzAlpnCatalogue))]
		ready := verif.Choose("ready", 2) == 1
		ctx := &tlsContext{serverName: serverName}
		ctx.buildMatch(&tls.Config{NextProtos: alpn})
		if certName != "" {
			// what buildMatch adds for a certificate whose CN/SAN is certName (x509 parsing is not encoded)
			ctx.matches[certName] = struct{}{}
		}
		id := "p" + string(rune('0'+i))
		provs = append(provs, &zzProvider{ctx: ctx, ready: ready, cfg: types.NewTLSConfigContext(&tls.Config{ServerName: id}, func(*tls.Config) *types.HashValue { return nil })})
		r := ref{ready: ready, alpn: alpn}
		if certName != "" {
			r.names = append(r.names, certName)
		}
		if serverName != "" {
			r.names = append(r.names, serverName)
		}
		refs = append(refs, r)
	}
	sni := zzSNICatalogue[verif.Choose("sni", len(zzSNICatalogue))]
	protos := zzHelloAlpn[verif.Choose("hello_alpn", len(zzHelloAlpn))]
	mng := &serverContextManager{providers: provs}
	anyReady := false
	for _, r := range refs {
		anyReady = anyReady || r.ready
	}
	// TLS is on for the listener as soon as one context is ready (a context still waiting for its
	// secret must not switch the listener to plaintext); with none ready it is off
	verif.Assert(mng.Enabled() == anyReady, "the listener's TLS is not enabled exactly when at least one of its contexts is ready")
	cfg, err := mng.GetConfigForClient(&tls.ClientHelloInfo{ServerName: sni, SupportedProtos: protos})
	got := ""
	if err == nil && cfg != nil {
		got = cfg.ServerName
	}
	// reference
	want := ""
	for i, r := range refs {
		if r.ready && zzNameMatches(r.names, sni) {
			want = "p" + string(rune('0'+i))
			break
		}
	}
	if want == "" {
		for i, r := range refs {
			if !r.ready {
				continue
			}
			hit := false
			for _, a := range r.alpn {
				for _, b := range protos {
					if a == strings.ToLower(b) {
						hit = true
					}
				}
			}
			if hit {
				want = "p" + string(rune('0'+i))
				verif.Cover("by-alpn")
				break
			}
		}
	} else {
		verif.Cover("by-name")
	}
	if want == "" {
		for i, r := range refs {
			if r.ready {
				want = "p" + string(rune('0'+i))
				break
			}
		}
	}
	if sni == "h2" {
		verif.Assert(got == want, "SNI equal to an ALPN token: must not count as a server-name match")
	} else if sni == "" {
		verif.Assert(got == want, "ClientHello without SNI: selection must fall through to ALPN, then to the first ready context")
	} else {
		verif.Assert(got == want, "selected certificate context differs from the configured matching rules (name, then ALPN, then first ready)")
	}
	verif.Cover("end")
}

// VerifC13_ClientAuth: what the statement pins about the client-auth mode.
func VerifC13_ClientAuth() {
	vc, rc := verif.Bool("verify_client"), verif.Bool("require_client_cert")
	mode := (&defaultConfigHooks{}).GetClientAuth(&v2.TLSConfig{VerifyClient: vc, RequireClientCert: rc})
	verif.Assert((mode == tls.RequireAndVerifyClientCert) == (vc && rc), "both flags <=> require-and-verify")
	if mode == tls.VerifyClientCertIfGiven || mode == tls.RequireAndVerifyClientCert {
		verif.Assert(vc, "a verifying mode only when verify_client is set")
	}
	if !vc && !rc {
		verif.Assert(mode == tls.NoClientCert, "no flags: no client certificate requested")
	}
	// the settings that concern the other direction or other features never change what is
	// demanded of a client: insecure_skip (upstream verification), server_name, ALPN, ticket
	is := verif.Bool("insecure_skip")
	sn := []string{"", "a.b"}[verif.Choose("server_name", 2)]
	alpn := []string{"", "h2"}[verif.Choose("alpn", 2)]
	mode2 := (&defaultConfigHooks{}).GetClientAuth(&v2.TLSConfig{Status: true, VerifyClient: vc, RequireClientCert: rc, InsecureSkip: is, ServerName: sn, ALPN: alpn})
	verif.Assert(mode2 == mode, "the client-auth mode depends on a setting other than verify_client / require_client_cert (insecure_skip, server_name, ALPN)")
	verif.Cover("end")
}

// VerifC13_ALPNList: the configured ALPN list of a context - up to four entries, each one of
// the protocols MOSN knows (h2, http/1.1, sofa) or an entry it does not know (a mesh protocol
// name, an entry with a stray blank), in every order. The context offers exactly the known
// entries, in their configured order: an unknown entry is skipped and takes nothing that
// follows it with it (the ALPN intersection rule selects a context by what it offers).
func VerifC13_ALPNList() {
	cat := []string{"h2", "http/1.1", "sofa", "istio-peer-exchange", " http/1.1"}
	known := []bool{true, true, true, false, false}
	n := 1 + verif.Choose("entries", 4)
	var parts []string
	var want []string
	for i := 0; i < n; i++ {
		k := verif.Choose("entry", len(cat))
		parts = append(parts, cat[k])
		if known[k] {
			want = append(want, cat[k])
		}
	}
	s := parts[0]
	for _, p := range parts[1:] {
		s += "," + p
	}
	c, err := tlsConfigTemplate(&v2.TLSConfig{Status: true, ALPN: s})
	verif.Assert(err == nil && c != nil, "a context with an ALPN list was refused")
	if c == nil {
		return
	}
	same := len(c.NextProtos) == len(want)
	for i := 0; same && i < len(want); i++ {
		same = c.NextProtos[i] == want[i]
	}
	verif.Assert(same, "the context does not offer exactly the known protocols of its ALPN list, in order (an unknown entry took later entries with it)")
	verif.Cover("end")
}

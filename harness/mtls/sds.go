//verif:pkg mosn.io/mosn/pkg/mtls
package mtls

import (
	"context"
	"crypto/x509"

	v2 "mosn.io/mosn/pkg/config/v2"
	"mosn.io/mosn/pkg/mtls/crypto/tls"
	"mosn.io/mosn/pkg/types"
	"mosn.io/mosn/pkg/zzverif/verif"
)

// zzSdsClient records the update callbacks; the harness plays the secret server.
type zzSdsClient struct {
	cbs map[string]types.SdsUpdateCallbackFunc
}

func (c *zzSdsClient) AddUpdateCallback(name string, cb types.SdsUpdateCallbackFunc) error {
	c.cbs[name] = cb
	return nil
}
func (c *zzSdsClient) DeleteUpdateCallback(name string) error { return nil }
func (c *zzSdsClient) RequireSecret(name string)              {}
func (c *zzSdsClient) FetchSecret(ctx context.Context, name string) (*types.SdsSecret, error) {
	return nil, nil
}
func (c *zzSdsClient) SetSecret(name string, secret *types.SdsSecret) {}
func (c *zzSdsClient) AckResponse(resp interface{})                  {}

// zzSdsHooks: the default hooks with certificate / CA parsing replaced (crypto is not the
// subject): any non-empty PEM is "a certificate".
type zzSdsHooks struct{ defaultConfigHooks }

func (h *zzSdsHooks) GetCertificate(cert, key string) (tls.Certificate, error) {
	if cert == "" || key == "" {
		return tls.Certificate{}, ErrorNoCertConfigure
	}
	return tls.Certificate{Certificate: [][]byte{[]byte(cert)}}, nil
}
func (h *zzSdsHooks) GetX509Pool(ca string) (*x509.CertPool, error) { return nil, nil }

type zzSdsFactory struct{}

func (zzSdsFactory) CreateConfigHooks(map[string]interface{}) ConfigHooks { return &zzSdsHooks{} }

var zzSdsRegistered bool

// VerifC13_SdsContextsKeepTheirPolicy: a listener with two certificate contexts that both
// get their certificate from a secret service (SDS), with independent client-certificate
// policies and server names. The contexts are built when the secrets arrive - after the
// listener was set up, in either order. Each context then demands of clients exactly what
// its own configuration says (client certificate required / verified or not) and answers to
// its own server name - not to the settings of another context of the same listener.
func VerifC13_SdsContextsKeepTheirPolicy() {
	verif.Replace("(*mosn.io/mosn/pkg/mtls/crypto/tls.Config).serverInit", func(c *tls.Config, o *tls.Config) {})
	if !zzSdsRegistered {
		_ = Register("zzsds", zzSdsFactory{})
		zzSdsRegistered = true
	}
	ClearSecretManager()
	client := &zzSdsClient{cbs: map[string]types.SdsUpdateCallbackFunc{}}
	old := getSdsClientFunc
	getSdsClientFunc = func(interface{}) types.SdsClient { return client }
	defer func() { getSdsClientFunc = old }()
	names := []string{"a.example.com", "b.example.com"}
	certs := []string{"cert-a", "cert-b"}
	var vc, rc [2]bool
	lc := &v2.Listener{}
	lc.Name = "l"
	chain := v2.FilterChain{}
	for i := 0; i < 2; i++ {
		vc[i], rc[i] = verif.Choose("verify_client", 2) == 1, verif.Choose("require_client_cert", 2) == 1
		chain.TLSContexts = append(chain.TLSContexts, v2.TLSConfig{Status: true, Type: "zzsds", ServerName: names[i],
			VerifyClient: vc[i], RequireClientCert: rc[i],
			SdsConfig: &v2.SdsConfig{CertificateConfig: &v2.SecretConfigWrapper{Name: certs[i]}}})
	}
	if verif.Choose("one_chain_per_context", 2) == 1 {
		lc.FilterChains = []v2.FilterChain{{TLSContexts: chain.TLSContexts[:1]}, {TLSContexts: chain.TLSContexts[1:]}}
	} else {
		lc.FilterChains = []v2.FilterChain{chain}
	}
	m, err := NewTLSServerContextManager(lc)
	verif.Assert(err == nil && m != nil, "a listener with two SDS contexts was refused")
	if m == nil {
		return
	}
	mng := m.(*serverContextManager)
	verif.Assert(len(mng.providers) == 2, "the listener does not hold one provider per context")
	if len(mng.providers) != 2 {
		return
	}
	verif.Assert(!mng.providers[0].Ready() && !mng.providers[1].Ready(), "a context is ready before its secret arrived")
	// the secrets arrive, in either order
	order := []int{0, 1}
	if verif.Choose("second_secret_first", 2) == 1 {
		order = []int{1, 0}
	}
	for _, i := range order {
		cb := client.cbs[certs[i]]
		verif.Assert(cb != nil, "no update callback registered for a context's certificate")
		if cb == nil {
			return
		}
		cb(certs[i], &types.SdsSecret{Name: certs[i], CertificatePEM: "pem-" + certs[i], PrivateKeyPEM: "key-" + certs[i]})
	}
	for i := 0; i < 2; i++ {
		p := mng.providers[i]
		verif.Assert(p.Ready(), "a context is not ready although its secret arrived")
		if !p.Ready() {
			return
		}
		c := p.GetTLSConfigContext(false).Config()
		want := (&defaultConfigHooks{}).GetClientAuth(&v2.TLSConfig{VerifyClient: vc[i], RequireClientCert: rc[i]})
		verif.Assert(c.ClientAuth == want, "an SDS context demands of clients what another context of the listener configures (its own verify_client / require_client_cert are lost)")
		verif.Assert(p.MatchedServerName(names[i]) && !p.MatchedServerName(names[1-i]), "an SDS context answers to another context's server name")
		verif.Assert(len(c.Certificates) == 1 && string(c.Certificates[0].Certificate[0]) == "pem-"+certs[i], "an SDS context presents another context's certificate")
	}
	verif.Cover("end")
}

//verif:pkg mosn.io/mosn/pkg/mtls
package mtls

import (
	"io"
	"net"
	"time"

	"mosn.io/mosn/pkg/zzverif/verif"
)

type zzTimeout struct{}

func (zzTimeout) Error() string   { return "i/o timeout" }
func (zzTimeout) Timeout() bool   { return true }
func (zzTimeout) Temporary() bool { return true }

// zzScriptConn hands out a byte stream in scripted pieces; a piece may come
// together with an error (deadline expired, EOF), as a kernel read can.
type zzScriptConn struct {
	net.Conn
	stream []byte
	off    int
	reads  int
}

func (c *zzScriptConn) SetReadDeadline(time.Time) error { return nil }
func (c *zzScriptConn) Read(b []byte) (int, error) {
	c.reads++
	left := len(c.stream) - c.off
	max := len(b)
	if left < max {
		max = left
	}
	n := verif.Choose("piece", max+1)
	copy(b, c.stream[c.off:c.off+n])
	c.off += n
	// a net.Conn never returns (0, nil): no byte means a deadline error, or EOF at the end
	if n == 0 {
		if c.off == len(c.stream) && verif.Choose("eof", 2) == 1 {
			return 0, io.EOF
		}
		return 0, zzTimeout{}
	}
	if verif.Choose("error_with_bytes", 2) == 1 {
		return n, zzTimeout{}
	}
	return n, nil
}

// VerifC07_InspectorPeek: the connection wrapper of a listener with TLS inspection
// (mtls.Conn: one byte is peeked to tell TLS from plain text and replayed by the first
// Read). For every stream of 3 symbolic bytes, every way the kernel cuts it into reads,
// with or without a deadline error or EOF accompanying a piece, and reader buffers of 1
// or 4 bytes: what Read reports in up to three calls (its byte counts and the bytes at those positions) is
// exactly the stream prefix the kernel delivered, in order - the peeked byte included,
// whatever error the read behind it returned.
func VerifC07_InspectorPeek() {
	stream := verif.Bytes("stream", 3)
	sc := &zzScriptConn{stream: stream}
	c := &Conn{Conn: sc}
	p, err := c.Peek()
	if err != nil || len(p) != 1 {
		// nothing was delivered with the first read; the listener closes the connection
		verif.Cover("peek failed")
		verif.Cover("end")
		return
	}
	verif.Assert(p[0] == stream[0], "Peek does not return the first byte of the stream")
	var got []byte
	size := []int{1, 4}[verif.Choose("buffer", 2)]
	for i := 0; i < 3; i++ {
		buf := make([]byte, size)
		n, rerr := c.Read(buf)
		verif.Assert(n >= 0 && n <= len(buf), "Read reports an impossible count")
		got = append(got, buf[:n]...)
		if rerr == io.EOF {
			break
		}
	}
	verif.Assert(len(got) == sc.off, "the bytes handed to the reader are not the bytes the kernel delivered (a byte read together with an error, or the peeked byte, is lost or duplicated)")
	for i := range got {
		if i < len(stream) {
			verif.Assert(got[i] == stream[i], "the reader sees the stream's bytes out of place")
		}
	}
	if sc.off == len(stream) {
		verif.Cover("whole stream")
	}
	verif.Cover("end")
}

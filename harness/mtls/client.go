//verif:pkg mosn.io/mosn/pkg/mtls
package mtls

import (
	"mosn.io/mosn/pkg/mtls/crypto/tls"
	"crypto/x509"

	v2 "mosn.io/mosn/pkg/config/v2"
	"mosn.io/mosn/pkg/types"
	"mosn.io/mosn/pkg/zzverif/verif"
)

// zzHooks: configuration hooks whose client verification extension is present or not.
type zzHooks struct {
	ConfigHooks
	selfVerify bool
}

func zzVerifyFn(rawCerts [][]byte, verifiedChains [][]*x509.Certificate) error { return nil }

func (h zzHooks) ClientHandshakeVerify(cfg *tls.Config) func(rawCerts [][]byte, verifiedChains [][]*x509.Certificate) error {
	if h.selfVerify {
		return zzVerifyFn
	}
	return nil
}
func (h zzHooks) GenerateHashValue(cfg *tls.Config) *types.HashValue { return nil }

// VerifC13_ClientVerifyPolicy: the tls.Config MOSN uses towards an upstream
// skips the standard certificate verification only when the cluster's TLS
// configuration says insecure_skip, or when a verification extension takes
// over (then that extension's callback is installed); otherwise the standard
// verification stays on - for every server_name (also the empty one).
func VerifC13_ClientVerifyPolicy() {
	// cloning a tls.Config derives session-ticket keys (entropy + SHA-512): not the subject
	verif.Replace("(*mosn.io/mosn/pkg/mtls/crypto/tls.Config).serverInit", func(c *tls.Config, o *tls.Config) {})
	cfg := &v2.TLSConfig{Status: true}
	cfg.ServerName = []string{"", "up"}[verif.Choose("server_name", 2)]
	cfg.InsecureSkip = verif.Choose("insecure_skip", 2) == 1
	hooks := zzHooks{selfVerify: verif.Choose("verify_extension", 2) == 1}
	ctx := &tlsContext{}
	ctx.SetClientConfig(&tls.Config{Rand: zzZeroRand{}}, cfg, hooks)
	c := ctx.GetClientTLSConfigContext().Config()
	verif.Assert(c != nil, "no client configuration")
	if c == nil {
		return
	}
	verif.Assert(c.ServerName == cfg.ServerName, "server name of the upstream handshake is not the configured one")
	switch {
	case cfg.InsecureSkip:
		verif.Assert(c.InsecureSkipVerify && c.VerifyPeerCertificate == nil, "insecure_skip: no verification at all")
		verif.Cover("insecure-skip")
	case hooks.selfVerify:
		verif.Assert(c.InsecureSkipVerify && c.VerifyPeerCertificate != nil, "a verification extension must be installed when it replaces the standard verification")
		verif.Cover("extension")
	default:
		verif.Assert(!c.InsecureSkipVerify, "the upstream certificate is not verified although insecure_skip is off and no extension verifies it")
		verif.Cover("standard")
	}
	verif.Cover("end")
}

// zzZeroRand: the entropy source (session ticket keys are drawn when a tls.Config is cloned).
type zzZeroRand struct{}

func (zzZeroRand) Read(p []byte) (int, error) {
	for i := range p {
		p[i] = 0
	}
	return len(p), nil
}

//verif:pkg mosn.io/mosn/pkg/filter/stream/ipaccess
package ipaccess

import (
	"context"

	"mosn.io/api"
	"mosn.io/mosn/pkg/protocol"
	"mosn.io/mosn/pkg/zzverif/verif"
	"mosn.io/pkg/log"
)

type zzHandler struct {
	api.StreamReceiverFilterHandler
	replies int
	code    int
}

func (h *zzHandler) SendHijackReply(code int, headers api.HeaderMap) {
	h.replies++
	h.code = code
}

var zzRanges = []string{"10.1.1.0/24", "10.1.1.7", "192.168.0.0/16"}
var zzAddrs = []string{"10.1.1.7", "10.1.1.9:4000", "10.1.2.7", "192.168.3.4", "8.8.8.8", "not-an-address"}

// which address lies in which range (rows: zzAddrs, columns: zzRanges)
var zzIn = [][]bool{
	{true, true, false},
	{true, false, false},
	{false, false, false},
	{false, false, true},
	{false, false, false},
	{false, false, false},
}

// VerifC14_IPAccessDeny: the ip_access stream filter, the one filter shipped with MOSN
// whose job is to deny: for every list configuration (up to two entries, allow or deny,
// over three ranges; default allow or deny) and every request address of a catalogue, a
// request the configuration denies is stopped AND answered with 403 exactly once, a
// request it allows continues with no reply - whatever the process log level (log
// packages are stubs under the engine: every level guard is false there; the native
// replay runs at the default level).
func VerifC14_IPAccessDeny() {
	n := verif.Choose("entries", 3)
	var access []IPAccess
	var ents []zzEnt
	for i := 0; i < n; i++ {
		e := zzEnt{deny: verif.Choose("deny", 2) == 1, rng: verif.Choose("range", len(zzRanges))}
		l, err := NewIpList([]string{zzRanges[e.rng]})
		verif.Assert(err == nil, "list construction failed")
		if e.deny {
			access = append(access, &IPBlocklist{l})
		} else {
			access = append(access, &IPAllowlist{l})
		}
		ents = append(ents, e)
	}
	allowAll := verif.Choose("default_allow", 2) == 1
	a := verif.Choose("address", len(zzAddrs))
	// natively the same request is decided at every log level in turn
	levels := []log.Level{log.INFO}
	if !verif.Symbolic() {
		levels = []log.Level{log.ERROR, log.WARN, log.INFO, log.DEBUG}
		defer log.DefaultLogger.SetLogLevel(log.DefaultLogger.GetLogLevel())
	}
	for _, lv := range levels {
		log.DefaultLogger.SetLogLevel(lv)
		zzDecide(access, ents, allowAll, a)
	}
	verif.Cover("end")
}

type zzEnt struct {
	deny bool
	rng  int
}

func zzDecide(access []IPAccess, ents []zzEnt, allowAll bool, a int) {
	f := NewIPAccessFilter(access, "x-real-ip", allowAll)
	h := &zzHandler{}
	f.SetReceiveFilterHandler(h)
	st := f.OnReceive(context.Background(), protocol.CommonHeader{"x-real-ip": zzAddrs[a]}, nil, nil)
	// reference decision
	deny := !allowAll
	if zzAddrs[a] != "not-an-address" {
		for _, e := range ents {
			if zzIn[a][e.rng] {
				deny = e.deny
				break
			}
		}
	}
	if deny {
		verif.Assert(st == api.StreamFilterStop, "a denied request was not stopped")
		verif.Assert(h.replies == 1 && h.code == 403, "a denied request was stopped without the 403 answer (it would be routed and forwarded)")
		verif.Cover("denied")
	} else {
		verif.Assert(st == api.StreamFilterContinue && h.replies == 0, "an allowed request was stopped or answered")
		verif.Cover("allowed")
	}
}

type zzChainCB struct {
	api.StreamFilterChainFactoryCallbacks
	receivers []api.StreamReceiverFilter
	phases    []api.ReceiverFilterPhase
}

func (c *zzChainCB) AddStreamReceiverFilter(f api.StreamReceiverFilter, p api.ReceiverFilterPhase) {
	c.receivers = append(c.receivers, f)
	c.phases = append(c.phases, p)
}

// VerifC14_IPAccessConfigured: from the filter's configuration (the map a listener's
// stream_filters entry carries) through the real factory and CreateFilterChain to the
// decision: default action allow / deny / absent, zero to two ip lists. Whatever the
// configuration, the factory registers the filter in every stream's chain (a configured
// filter is never silently left out), and the registered filter decides as configured - a
// filter that denies by default and lists nobody refuses everybody with 403.
func VerifC14_IPAccessConfigured() {
	conf := map[string]interface{}{"header": "x-real-ip"}
	da := verif.Choose("default_action", 3) // absent, allow, deny
	if da == 1 {
		conf["default_action"] = "allow"
	}
	if da == 2 {
		conf["default_action"] = "deny"
	}
	n := verif.Choose("lists", 3)
	var ents []zzEnt
	var ips []interface{}
	for i := 0; i < n; i++ {
		e := zzEnt{deny: verif.Choose("deny", 2) == 1, rng: verif.Choose("range", len(zzRanges))}
		action := "allow"
		if e.deny {
			action = "deny"
		}
		ips = append(ips, map[string]interface{}{"action": action, "addrs": []interface{}{zzRanges[e.rng]}})
		ents = append(ents, e)
	}
	if n > 0 {
		conf["ips"] = ips
	}
	fac, err := CreateIPAccessFactory(conf)
	verif.Assert(err == nil && fac != nil, "a valid ip_access configuration was refused")
	if fac == nil {
		return
	}
	cb := &zzChainCB{}
	fac.CreateFilterChain(context.Background(), cb)
	verif.Assert(len(cb.receivers) == 1, "a configured ip_access filter was not put into the stream's filter chain (it never runs: nobody is refused)")
	if len(cb.receivers) != 1 {
		return
	}
	a := verif.Choose("address", len(zzAddrs))
	h := &zzHandler{}
	cb.receivers[0].SetReceiveFilterHandler(h)
	st := cb.receivers[0].OnReceive(context.Background(), protocol.CommonHeader{"x-real-ip": zzAddrs[a]}, nil, nil)
	deny := da == 2
	if zzAddrs[a] != "not-an-address" {
		for _, e := range ents {
			if zzIn[a][e.rng] {
				deny = e.deny
				break
			}
		}
	}
	if deny {
		verif.Assert(st == api.StreamFilterStop && h.replies == 1 && h.code == 403, "a request the configuration denies was not stopped and answered with 403")
		verif.Cover("denied")
	} else {
		verif.Assert(st == api.StreamFilterContinue && h.replies == 0, "a request the configuration allows was stopped or answered")
	}
	verif.Cover("end")
}

//verif:pkg mosn.io/mosn/pkg/upstream/healthcheck
package healthcheck

import (
	gometrics "github.com/rcrowley/go-metrics"
	"mosn.io/api"
	v2 "mosn.io/mosn/pkg/config/v2"
	"mosn.io/mosn/pkg/types"
	"mosn.io/mosn/pkg/zzverif/verif"
)

type zzCounter struct{ n int64 }

func (c *zzCounter) Clear()                      { c.n = 0 }
func (c *zzCounter) Count() int64                { return c.n }
func (c *zzCounter) Dec(i int64)                 { c.n -= i }
func (c *zzCounter) Inc(i int64)                 { c.n += i }
func (c *zzCounter) Snapshot() gometrics.Counter { return c }

type zzGauge struct{ n int64 }

func (g *zzGauge) Snapshot() gometrics.Gauge { return g }
func (g *zzGauge) Update(v int64)            { g.n = v }
func (g *zzGauge) Value() int64              { return g.n }

// zzHost keeps a real flag word; only the flag methods are used by the checker.
type zzHost struct {
	types.Host
	word uint64
}

func (h *zzHost) ContainHealthFlag(f api.HealthFlag) bool { return h.word&uint64(f) > 0 }
func (h *zzHost) SetHealthFlag(f api.HealthFlag)          { h.word |= uint64(f) }
func (h *zzHost) ClearHealthFlag(f api.HealthFlag)        { h.word &^= uint64(f) }
func (h *zzHost) AddressString() string                   { return "h" }

type zzCb struct {
	calls     int
	changed   bool
	isHealthy bool
}

func zzChecker(hT, uT uint32, cb *zzCb) (*healthChecker, *zzHost) {
	hc := &healthChecker{
		healthyThreshold:   hT,
		unhealthyThreshold: uT,
		stats: &healthCheckStats{attempt: &zzCounter{}, success: &zzCounter{}, failure: &zzCounter{}, passiveFailure: &zzCounter{},
			activeFailure: &zzCounter{}, networkFailure: &zzCounter{}, verifyCluster: &zzCounter{}, healthy: &zzGauge{}},
	}
	hc.hostCheckCallbacks = []types.HealthCheckCb{func(h types.Host, changed bool, isHealthy bool) {
		cb.calls++
		cb.changed = changed
		cb.isHealthy = isHealthy
	}}
	return hc, &zzHost{}
}

// VerifC16_ThresholdStep: one probe result from an arbitrary reachable state:
// the flag flips exactly when the configured number of consecutive opposite
// results is reached, and the callback reports exactly that.
func VerifC16_ThresholdStep() {
	hT, uT := verif.U32("healthy_threshold"), verif.U32("unhealthy_threshold")
	verif.Assume(hT >= 1 && uT >= 1)
	cb := &zzCb{}
	hc, host := zzChecker(hT, uT, cb)
	c := &sessionChecker{Host: host, HealthChecker: hc}
	unhealthy := verif.Bool("unhealthy")
	c.healthCount, c.unHealthCount = verif.U32("hc"), verif.U32("uc")
	if unhealthy {
		host.word = uint64(api.FAILED_ACTIVE_HC)
		verif.Assume(c.healthCount < hT && c.unHealthCount == 0) // invariant: consecutive successes so far, below the threshold
	} else {
		verif.Assume(c.unHealthCount < uT && c.healthCount == 0)
	}
	otherBits := verif.U64("other") &^ uint64(api.FAILED_ACTIVE_HC)
	host.word |= otherBits
	hc0, uc0 := c.healthCount, c.unHealthCount
	if verif.Bool("success") {
		c.HandleSuccess()
		flip := unhealthy && hc0+1 == hT
		verif.Assert(host.ContainHealthFlag(api.FAILED_ACTIVE_HC) == (unhealthy && !flip), "healthy threshold not applied exactly")
		verif.Assert(cb.calls == 1 && cb.changed == flip && cb.isHealthy, "callback (changed,isHealthy) wrong after a success")
		verif.Assert(c.unHealthCount == 0, "a success must reset the failure streak")
		if unhealthy && !flip {
			verif.Assert(c.healthCount == hc0+1, "success streak must advance by one")
		}
		verif.Cover("success")
	} else {
		reason := types.FailureActive
		if verif.Bool("timeout") {
			reason = types.FailureNetwork
		}
		c.HandleFailure(reason)
		flip := !unhealthy && uc0+1 == uT
		verif.Assert(host.ContainHealthFlag(api.FAILED_ACTIVE_HC) == (unhealthy || flip), "unhealthy threshold not applied exactly")
		verif.Assert(cb.calls == 1 && cb.changed == flip && !cb.isHealthy, "callback (changed,isHealthy) wrong after a failure")
		verif.Assert(c.healthCount == 0, "a failure must reset the success streak")
		if !unhealthy && !flip {
			verif.Assert(c.unHealthCount == uc0+1, "failure streak must advance by one")
		}
		verif.Cover("failure")
	}
	verif.Assert(host.word&^uint64(api.FAILED_ACTIVE_HC) == otherBits, "other health conditions must be untouched")
	verif.Cover("end")
}

// VerifC16_ThresholdSeq: sequences of probe results from the initial state
// against a reference that counts trailing consecutive results; thresholds go
// through newHealthChecker's defaulting.
func VerifC16_ThresholdSeq() {
	hT, uT := uint32(verif.Choose("ht", 4)), uint32(verif.Choose("ut", 4))
	// metrics registration is reflection-based (environment): give the checker plain counters
	verif.Replace("mosn.io/mosn/pkg/upstream/healthcheck.newHealthCheckStats", func(string) *healthCheckStats {
		return &healthCheckStats{attempt: &zzCounter{}, success: &zzCounter{}, failure: &zzCounter{}, passiveFailure: &zzCounter{},
			activeFailure: &zzCounter{}, networkFailure: &zzCounter{}, verifyCluster: &zzCounter{}, healthy: &zzGauge{}}
	})
	real := newHealthChecker(v2.HealthCheck{HealthCheckConfig: v2.HealthCheckConfig{HealthyThreshold: hT, UnhealthyThreshold: uT}}, nil).(*healthChecker)
	wantH, wantU := hT, uT
	if wantH == 0 {
		wantH = DefaultHealthyThreshold
	}
	if wantU == 0 {
		wantU = DefaultUnhealthyThreshold
	}
	verif.Assert(real.healthyThreshold == wantH && real.unhealthyThreshold == wantU, "threshold defaulting")
	cb := &zzCb{}
	hc, host := zzChecker(real.healthyThreshold, real.unhealthyThreshold, cb)
	c := &sessionChecker{Host: host, HealthChecker: hc}
	refUnhealthy := false
	var streakOK, streakBad uint32
	n := verif.Param("seq", 6, 8)
	for i := 0; i < n; i++ {
		if verif.Bool("ok") {
			streakOK++
			streakBad = 0
			c.HandleSuccess()
			if refUnhealthy && streakOK >= wantH {
				refUnhealthy = false
			}
		} else {
			streakBad++
			streakOK = 0
			c.HandleFailure(types.FailureActive)
			if !refUnhealthy && streakBad >= wantU {
				refUnhealthy = true
			}
		}
		verif.Assert(host.ContainHealthFlag(api.FAILED_ACTIVE_HC) == refUnhealthy, "health flag differs from the reference threshold automaton")
	}
	verif.Cover("end")
}

//verif:pkg mosn.io/mosn/pkg/upstream/healthcheck
package healthcheck

import (
	"mosn.io/api"
	"mosn.io/mosn/pkg/zzverif/verif"
)

type zzSession struct {
	results  []bool
	checks   int
	timeouts int
}

func (s *zzSession) CheckHealth() bool {
	r := s.results[s.checks%len(s.results)]
	s.checks++
	return r
}
func (s *zzSession) OnTimeout() { s.timeouts++ }

// VerifC16_SessionTimers: the health checker's run loop (the real
// sessionChecker.Start with its check and timeout timers and channels) against
// a session that answers every check at once. The environment lets any armed
// timer expire next, in any order (interval shorter or longer than the
// timeout). Every answered check produces exactly its own result: no timeout
// is ever reported for a check that answered, the failure / success counts
// equal the answers given, and the host's flag follows the threshold
// automaton over those answers only.
func VerifC16_SessionTimers() {
	verif.Switches(0)
	hT, uT := uint32(1+verif.Choose("healthy_threshold", 2)), uint32(1+verif.Choose("unhealthy_threshold", 2))
	cb := &zzCb{}
	hc, host := zzChecker(hT, uT, cb)
	hc.timeout, hc.intervalBase, hc.initialDelay = 1, 1, 1
	n := verif.Param("hc_checks", 3, 4)
	sess := &zzSession{}
	for i := 0; i < n; i++ {
		sess.results = append(sess.results, verif.Choose("answer_ok", 2) == 1)
	}
	c := newChecker(sess, host, hc)
	go c.Start()
	verif.Settle()
	verif.EngineOnly("timer expiry order is driven by the engine's timer table")
	refUnhealthy := false
	var streakOK, streakBad uint32
	for round := 0; round < 2*n && sess.checks < n; round++ {
		k := verif.NumTimers()
		verif.Assert(k > 0, "engine: the health checker has no timer armed: it will never check again")
		if k == 0 {
			return
		}
		before := sess.checks
		verif.FireTimer(verif.Choose("which_timer", k))
		verif.Settle()
		verif.Assert(sess.timeouts == 0, "engine: a timeout was reported for a check that had answered in time (an invented failure)")
		if sess.checks > before {
			if sess.results[before] {
				streakOK++
				streakBad = 0
				if refUnhealthy && streakOK >= hT {
					refUnhealthy = false
				}
			} else {
				streakBad++
				streakOK = 0
				if !refUnhealthy && streakBad >= uT {
					refUnhealthy = true
				}
			}
		}
		verif.Assert(host.ContainHealthFlag(api.FAILED_ACTIVE_HC) == refUnhealthy, "engine: the host's health flag differs from the threshold automaton over the answers given")
		verif.Assert(hc.stats.success.Count()+hc.stats.failure.Count() == int64(sess.checks), "engine: results counted differ from the checks answered")
	}
	verif.Assert(sess.checks == n, "engine: the checker stopped checking")
	c.Stop()
	verif.Cover("end")
}

//verif:pkg mosn.io/mosn/pkg/module/http2/hpack
package hpack

import "mosn.io/mosn/pkg/zzverif/verif"

// VerifC18_HpackVarInt: the HPACK integer representation (RFC 7541, 5.1) for
// every prefix size 1..8 and every value below 2^32: what the encoder appends
// is decoded back to the same value with nothing left over, the last octet
// has no continuation bit and every octet before it has one.
func VerifC18_HpackVarInt() {
	verif.NoPanic()
	n := byte(1 + verif.Choose("prefix_bits", 8))
	i := uint64(verif.U32("value"))
	enc := appendVarInt(nil, n, i)
	verif.Assert(len(enc) >= 1 && len(enc) <= 6, "an integer below 2^32 takes 1..6 octets")
	if len(enc) > 1 {
		verif.Assert(enc[len(enc)-1]&0x80 == 0, "the last octet of a multi-octet integer carries a continuation bit (the peer keeps reading into the string)")
		for k := 1; k < len(enc)-1; k++ {
			verif.Assert(enc[k]&0x80 != 0, "a middle octet lacks its continuation bit")
		}
	}
	got, rest, err := readVarInt(n, enc)
	verif.Assert(err == nil && len(rest) == 0, "the encoded integer does not decode completely")
	verif.Assert(got == i, "the encoded integer decodes to another value")
	verif.Cover("end")
}

//verif:pkg mosn.io/mosn/pkg/server
package server

import (
	"net"
	"reflect"

	"mosn.io/api"
	v2 "mosn.io/mosn/pkg/config/v2"
	"mosn.io/mosn/pkg/configmanager"
	"mosn.io/mosn/pkg/types"
	"mosn.io/mosn/pkg/zzverif/verif"
)

// zzTLSMng stands for the context manager built from one listener
// configuration: it remembers the fields of that configuration that decide
// how a new connection is treated (TLS on/off, inspector mode).
type zzTLSMng struct {
	types.TLSContextManager
	serial    int
	inspector bool
	status    bool
	serverNm  string
}

func (m *zzTLSMng) Enabled() bool                       { return m.status }
func (m *zzTLSMng) Conn(c net.Conn) (net.Conn, error)   { return c, nil }
func (m *zzTLSMng) HashValue() *types.HashValue         { return nil }

var zzMngSerial int

// zzInspector: the inspector mode a context manager was built with. Under the
// engine the manager is the recorder; in a native replay it is the real
// manager, whose unexported field is read through reflection.
func zzInspector(m types.TLSContextManager) (inspector, ok bool) {
	if r, isRec := m.(*zzTLSMng); isRec {
		return r.inspector, true
	}
	v := reflect.ValueOf(m)
	if v.Kind() == reflect.Ptr && !v.IsNil() {
		if f := v.Elem().FieldByName("inspector"); f.IsValid() && f.Kind() == reflect.Bool {
			return f.Bool(), true
		}
	}
	return false, false
}

// VerifC13_ListenerUpdateTLS: after every add-or-update of a listener, the TLS
// context manager that new connections go through was built from exactly the
// configuration of the last update (TLS status, inspector mode, context
// contents), and the listener's recorded configuration and the configuration
// store say the same. The manager constructor itself (certificates, crypto)
// is replaced by a recorder of the configuration it is given.
func VerifC13_ListenerUpdateTLS() {
	verif.Replace("mosn.io/mosn/pkg/configmanager.tryDump", func() {})
	verif.Replace("mosn.io/mosn/pkg/server.newListenerStats", func(string) *listenerStats { return &listenerStats{} })
	verif.Replace("mosn.io/mosn/pkg/mtls.NewTLSServerContextManager", func(cfg *v2.Listener) (types.TLSContextManager, error) {
		zzMngSerial++
		m := &zzTLSMng{serial: zzMngSerial, inspector: cfg.Inspector}
		if len(cfg.FilterChains) == 1 && len(cfg.FilterChains[0].TLSContexts) == 1 {
			m.status = cfg.FilterChains[0].TLSContexts[0].Status
			m.serverNm = cfg.FilterChains[0].TLSContexts[0].ServerName
		}
		return m, nil
	})
	configmanager.Reset()
	zzMngSerial = 0
	ch := &connHandler{}
	addr := &net.TCPAddr{IP: net.IPv4(127, 0, 0, 1), Port: 8080}
	steps := 2 + verif.Choose("updates", verif.Param("lupdates", 2, 3))
	for i := 0; i < steps; i++ {
		lc := &v2.Listener{}
		lc.Name = "l"
		lc.Addr = addr
		lc.AddrConfig = "127.0.0.1:8080"
		lc.Inspector = verif.Choose("inspector", 2) == 1
		lc.PerConnBufferLimitBytes = uint32(i + 1)
		// fields a runtime update does not apply to the running listener
		lc.BindToPort = verif.Choose("bind_port", 2) == 1
		lc.DefaultReadBufferSize = 100 + i
		// a native replay has no certificates: TLS status is only switched on under the engine
		tlsc := v2.TLSConfig{Status: verif.Choose("tls_status", 2) == 1 && verif.Symbolic(), ServerName: string(rune('a' + i))}
		lc.FilterChains = []v2.FilterChain{{TLSContexts: []v2.TLSConfig{tlsc}}}
		_, err := ch.AddOrUpdateListener(lc)
		verif.Assert(err == nil, "listener add/update refused")
		al := ch.findActiveListenerByName("l")
		verif.Assert(al != nil, "listener missing after add/update")
		if al == nil {
			return
		}
		if m, isRec := al.tlsMng.(*zzTLSMng); isRec {
			verif.Assert(m.serial == zzMngSerial, "the listener does not use the context manager built by the last update")
			verif.Assert(m.status == tlsc.Status && m.serverNm == tlsc.ServerName, "context manager built from stale TLS contexts")
		} else {
			verif.Assert(!verif.Symbolic(), "the listener's context manager does not come from the manager constructor")
		}
		insp, ok := zzInspector(al.tlsMng)
		verif.Assert(ok && insp == lc.Inspector, "context manager built with a stale inspector mode: plaintext is accepted (or refused) against the updated configuration")
		rc := al.listener.Config()
		verif.Assert(rc.Inspector == lc.Inspector && rc.FilterChains[0].TLSContexts[0].ServerName == tlsc.ServerName && rc.PerConnBufferLimitBytes == lc.PerConnBufferLimitBytes,
			"the listener's recorded configuration is not the last update's")
		var stored v2.Listener
		found := false
		configmanager.HandleMOSNConfig(configmanager.CfgTypeListener, func(v interface{}) {
			if mm, ok := v.(map[string]v2.Listener); ok {
				stored, found = mm["l"]
			}
		})
		verif.Assert(found && stored.Inspector == lc.Inspector && stored.FilterChains[0].TLSContexts[0].Status == tlsc.Status, "the configuration store does not describe the updated listener")
		// what is stored (and dumped) is the configuration the listener is running with, also for
		// the fields an update leaves as they were
		verif.Assert(found && stored.BindToPort == rc.BindToPort && stored.DefaultReadBufferSize == rc.DefaultReadBufferSize && stored.PerConnBufferLimitBytes == rc.PerConnBufferLimitBytes,
			"the configuration store describes the update request, not the listener as it runs (a restart from the dump would differ)")
	}
	verif.Cover("end")
}

var _ api.AccessLog = nil

// VerifC12_ListenerUpdateStored: the same exploration counted for C12 (the
// stored listener configuration describes the live listener after updates).
func VerifC12_ListenerUpdateStored() {
	VerifC13_ListenerUpdateTLS()
	verif.Cover("stored")
}

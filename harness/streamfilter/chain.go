//verif:pkg mosn.io/mosn/pkg/streamfilter
package streamfilter

import (
	"context"

	"mosn.io/api"
	"mosn.io/mosn/pkg/zzverif/verif"
)

var zzVerdicts = []api.StreamFilterStatus{api.StreamFilterContinue, api.StreamFilterStop, api.StreamFiltertermination,
	api.StreamFilterReMatchRoute, api.StreamFilterReChooseHost}

type zzCall struct {
	idx     int
	verdict api.StreamFilterStatus
}

type zzLog struct{ calls []zzCall }

type zzRecvFilter struct {
	idx int
	log *zzLog
}

func (f *zzRecvFilter) OnDestroy() {}
func (f *zzRecvFilter) OnReceive(ctx context.Context, h api.HeaderMap, b api.IoBuffer, t api.HeaderMap) api.StreamFilterStatus {
	v := zzVerdicts[verif.Choose("verdict", len(zzVerdicts))]
	f.log.calls = append(f.log.calls, zzCall{f.idx, v})
	return v
}
func (f *zzRecvFilter) SetReceiveFilterHandler(api.StreamReceiverFilterHandler) {}

type zzSendFilter struct {
	idx int
	log *zzLog
}

func (f *zzSendFilter) OnDestroy() {}
func (f *zzSendFilter) Append(ctx context.Context, h api.HeaderMap, b api.IoBuffer, t api.HeaderMap) api.StreamFilterStatus {
	v := zzVerdicts[verif.Choose("sverdict", 3)]
	f.log.calls = append(f.log.calls, zzCall{f.idx, v})
	return v
}
func (f *zzSendFilter) SetSenderFilterHandler(api.StreamSenderFilterHandler) {}

// zzCheckPass checks one RunReceiverFilter pass against the statement: filters
// of the phase run in configured order starting at the resume point, none
// twice, nothing after a non-continue verdict, none skipped.
func zzCheckPass(calls []zzCall, phases []api.ReceiverFilterPhase, p api.ReceiverFilterPhase, start int, ret api.StreamFilterStatus, idxAfter int) (stop bool, resume int) {
	var want []int
	for i := start; i < len(phases); i++ {
		if phases[i] == p {
			want = append(want, i)
		}
	}
	verif.Assert(len(calls) <= len(want), "a filter ran twice, out of phase, or before the resume point")
	last := api.StreamFilterContinue
	for k, c := range calls {
		if k < len(want) {
			verif.Assert(c.idx == want[k], "filters of a phase must run in configured order without skipping")
		}
		if k < len(calls)-1 {
			verif.Assert(c.verdict == api.StreamFilterContinue, "a filter ran after an earlier one did not continue")
		}
		last = c.verdict
	}
	if len(calls) < len(want) {
		verif.Assert(last != api.StreamFilterContinue, "pass ended early although every verdict was continue")
	}
	verif.Assert(ret == last, "pass result is not the last verdict")
	switch last {
	case api.StreamFilterReMatchRoute, api.StreamFilterReChooseHost:
		resume = calls[len(calls)-1].idx
		verif.Assert(idxAfter == resume, "re-match/re-choose must resume at the requesting filter")
	default:
		verif.Assert(idxAfter == 0, "index must be reset after a completed, stopped or terminated pass")
	}
	return last == api.StreamFilterStop || last == api.StreamFiltertermination, resume
}

func VerifC14_ReceiverChain() {
	L := verif.Param("filters", 2, 3)
	n := verif.Choose("n", L+1)
	chain := &DefaultStreamFilterChainImpl{}
	log := &zzLog{}
	var phases []api.ReceiverFilterPhase
	for i := 0; i < n; i++ {
		p := api.ReceiverFilterPhase(verif.Choose("phase", 3))
		phases = append(phases, p)
		chain.AddStreamReceiverFilter(&zzRecvFilter{idx: i, log: log}, p)
	}
	ctx := context.Background()
	handlerCalls := 0
	for _, p := range []api.ReceiverFilterPhase{api.BeforeRoute, api.AfterRoute, api.AfterChooseHost} {
		start := 0
		for rep := 0; rep < 2; rep++ { // a phase is re-entered after re-match / re-choose
			log.calls = nil
			ret := chain.RunReceiverFilter(ctx, p, nil, nil, nil, func(api.ReceiverFilterPhase, api.StreamFilterStatus) { handlerCalls++ })
			stop, resume := zzCheckPass(log.calls, phases, p, start, ret, chain.receiverFiltersIndex)
			if stop {
				verif.Cover("stopped")
				verif.Cover("end")
				return
			}
			if ret != api.StreamFilterReMatchRoute && ret != api.StreamFilterReChooseHost {
				break
			}
			start = resume
			verif.Cover("resumed")
		}
		if chain.receiverFiltersIndex != 0 {
			// still pending a re-match after the bounded repeats: outside this harness's bound
			return
		}
	}
	verif.Cover("end")
}

func VerifC14_SenderChain() {
	L := verif.Param("filters", 2, 3)
	n := verif.Choose("n", L+1)
	chain := &DefaultStreamFilterChainImpl{}
	log := &zzLog{}
	for i := 0; i < n; i++ {
		chain.AddStreamSenderFilter(&zzSendFilter{idx: i, log: log}, api.BeforeSend)
	}
	ret := chain.RunSenderFilter(context.Background(), api.BeforeSend, nil, nil, nil, nil)
	last := api.StreamFilterContinue
	for k, c := range log.calls {
		verif.Assert(c.idx == k, "send filters run once each, in configured order")
		if k < len(log.calls)-1 {
			verif.Assert(c.verdict == api.StreamFilterContinue, "a send filter ran after an earlier one stopped")
		}
		last = c.verdict
	}
	if len(log.calls) < n {
		verif.Assert(last != api.StreamFilterContinue, "send pass ended early although every verdict was continue")
	}
	verif.Assert(ret == last && chain.senderFiltersIndex == 0, "send pass result/index")
	verif.Cover("end")
}

// VerifC14_PooledChain: filter chains are recycled through a sync.Pool. One
// stream runs its receive filters and ends in any state (completed, stopped,
// or with a re-match / re-choose still pending); its chain goes back to the
// pool. The next stream takes a chain from the pool (the recycled one or a
// fresh one - both explored), registers its own filters, and must see every
// filter of the first phase run in configured order from the first one.
func VerifC14_PooledChain() {
	verif.PoolReuse(true)
	ctx := context.Background()
	// first stream
	c1 := GetDefaultStreamFilterChain()
	log1 := &zzLog{}
	n1 := 1 + verif.Choose("n1", verif.Param("pfilters1", 2, 3))
	for i := 0; i < n1; i++ {
		c1.AddStreamReceiverFilter(&zzRecvFilter{idx: i, log: log1}, api.BeforeRoute)
	}
	c1.AddStreamSenderFilter(&zzSendFilter{idx: 0, log: log1}, api.BeforeSend)
	c1.RunReceiverFilter(ctx, api.BeforeRoute, nil, nil, nil, func(api.ReceiverFilterPhase, api.StreamFilterStatus) {})
	if verif.Choose("first_stream_sends", 2) == 1 {
		c1.RunSenderFilter(ctx, api.BeforeSend, nil, nil, nil, nil)
	}
	PutStreamFilterChain(c1) // the stream ends here, whatever was pending
	// second stream
	c2 := GetDefaultStreamFilterChain()
	if c2 == c1 {
		verif.Cover("recycled")
	} else {
		verif.Cover("fresh")
	}
	log2 := &zzLog{}
	n2 := 1 + verif.Choose("n2", 2)
	for i := 0; i < n2; i++ {
		c2.AddStreamReceiverFilter(&zzContinueFilter{idx: i, log: log2}, api.BeforeRoute)
	}
	c2.AddStreamSenderFilter(&zzContinueFilter{idx: 100, log: log2}, api.BeforeSend)
	ret := c2.RunReceiverFilter(ctx, api.BeforeRoute, nil, nil, nil, func(api.ReceiverFilterPhase, api.StreamFilterStatus) {})
	verif.Assert(ret == api.StreamFilterContinue, "all filters continue: the pass continues")
	verif.Assert(len(log2.calls) == n2, "a stream's receive filters did not all run (a recycled chain skipped or repeated some)")
	for k, c := range log2.calls {
		verif.Assert(c.idx == k, "a stream's receive filters ran out of configured order")
	}
	log2.calls = nil
	c2.RunSenderFilter(ctx, api.BeforeSend, nil, nil, nil, nil)
	verif.Assert(len(log2.calls) == 1 && log2.calls[0].idx == 100, "a stream's send filter did not run exactly once (a recycled chain kept state of the previous stream)")
	verif.Cover("end")
}

// zzContinueFilter always continues.
type zzContinueFilter struct {
	idx int
	log *zzLog
}

func (f *zzContinueFilter) OnDestroy() {}
func (f *zzContinueFilter) OnReceive(ctx context.Context, h api.HeaderMap, b api.IoBuffer, t api.HeaderMap) api.StreamFilterStatus {
	f.log.calls = append(f.log.calls, zzCall{f.idx, api.StreamFilterContinue})
	return api.StreamFilterContinue
}
func (f *zzContinueFilter) SetReceiveFilterHandler(api.StreamReceiverFilterHandler) {}
func (f *zzContinueFilter) Append(ctx context.Context, h api.HeaderMap, b api.IoBuffer, t api.HeaderMap) api.StreamFilterStatus {
	f.log.calls = append(f.log.calls, zzCall{f.idx, api.StreamFilterContinue})
	return api.StreamFilterContinue
}
func (f *zzContinueFilter) SetSenderFilterHandler(api.StreamSenderFilterHandler) {}

//verif:pkg mosn.io/mosn/pkg/streamfilter
package streamfilter

import (
	"context"

	"mosn.io/api"
	"mosn.io/mosn/pkg/zzverif/verif"
)

var zzVerdicts = []api.StreamFilterStatus{api.StreamFilterContinue, api.StreamFilterStop, api.StreamFiltertermination,
	api.StreamFilterReMatchRoute, api.StreamFilterReChooseHost}

type zzCall struct {
	idx     int
	verdict api.StreamFilterStatus
}

type zzLog struct{ calls []zzCall }

type zzRecvFilter struct {
	idx int
	log *zzLog
}

func (f *zzRecvFilter) OnDestroy() {}
func (f *zzRecvFilter) OnReceive(ctx context.Context, h api.HeaderMap, b api.IoBuffer, t api.HeaderMap) api.StreamFilterStatus {
	v := zzVerdicts[verif.Choose("verdict", len(zzVerdicts))]
	f.log.calls = append(f.log.calls, zzCall{f.idx, v})
	return v
}
func (f *zzRecvFilter) SetReceiveFilterHandler(api.StreamReceiverFilterHandler) {}

type zzSendFilter struct {
	idx int
	log *zzLog
}

func (f *zzSendFilter) OnDestroy() {}
func (f *zzSendFilter) Append(ctx context.Context, h api.HeaderMap, b api.IoBuffer, t api.HeaderMap) api.StreamFilterStatus {
	v := zzVerdicts[verif.Choose("sverdict", 3)]
	f.log.calls = append(f.log.calls, zzCall{f.idx, v})
	return v
}
func (f *zzSendFilter) SetSenderFilterHandler(api.StreamSenderFilterHandler) {}

// zzCheckPass checks one RunReceiverFilter pass against the statement: filters
// of the phase run in configured order starting at the resume point, none
// twice, nothing after a non-continue verdict, none skipped.
func zzCheckPass(calls []zzCall, phases []api.ReceiverFilterPhase, p api.ReceiverFilterPhase, start int, ret api.StreamFilterStatus, idxAfter int) (stop bool, resume int) {
	var want []int
	for i := start; i < len(phases); i++ {
		if phases[i] == p {
			want = append(want, i)
		}
	}
	verif.Assert(len(calls) <= len(want), "a filter ran twice, out of phase, or before the resume point")
	last := api.StreamFilterContinue
	for k, c := range calls {
		if k < len(want) {
			verif.Assert(c.idx == want[k], "filters of a phase must run in configured order without skipping")
		}
		if k < len(calls)-1 {
			verif.Assert(c.verdict == api.StreamFilterContinue, "a filter ran after an earlier one did not continue")
		}
		last = c.verdict
	}
	if len(calls) < len(want) {
		verif.Assert(last != api.StreamFilterContinue, "pass ended early although every verdict was continue")
	}
	verif.Assert(ret == last, "pass result is not the last verdict")
	switch last {
	case api.StreamFilterReMatchRoute, api.StreamFilterReChooseHost:
		resume = calls[len(calls)-1].idx
		verif.Assert(idxAfter == resume, "re-match/re-choose must resume at the requesting filter")
	default:
		verif.Assert(idxAfter == 0, "index must be reset after a completed, stopped or terminated pass")
	}
	return last == api.StreamFilterStop || last == api.StreamFiltertermination, resume
}

func VerifC14_ReceiverChain() {
	L := verif.Param("filters", 2, 3)
	n := verif.Choose("n", L+1)
	chain := &DefaultStreamFilterChainImpl{}
	log := &zzLog{}
	var phases []api.ReceiverFilterPhase
	for i := 0; i < n; i++ {
		p := api.ReceiverFilterPhase(verif.Choose("phase", 3))
		phases = append(phases, p)
		chain.AddStreamReceiverFilter(&zzRecvFilter{idx: i, log: log}, p)
	}
	ctx := context.Background()
	handlerCalls := 0
	for _, p := range []api.ReceiverFilterPhase{api.BeforeRoute, api.AfterRoute, api.AfterChooseHost} {
		start := 0
		for rep := 0; rep < 2; rep++ { // a phase is re-entered after re-match / re-choose
			log.calls = nil
			ret := chain.RunReceiverFilter(ctx, p, nil, nil, nil, func(api.ReceiverFilterPhase, api.StreamFilterStatus) { handlerCalls++ })
			stop, resume := zzCheckPass(log.calls, phases, p, start, ret, chain.receiverFiltersIndex)
			if stop {
				verif.Cover("stopped")
				verif.Cover("end")
				return
			}
			if ret != api.StreamFilterReMatchRoute && ret != api.StreamFilterReChooseHost {
				break
			}
			start = resume
			verif.Cover("resumed")
		}
		if chain.receiverFiltersIndex != 0 {
			// still pending a re-match after the bounded repeats: outside this harness's bound
			return
		}
	}
	verif.Cover("end")
}

func VerifC14_SenderChain() {
	L := verif.Param("filters", 2, 3)
	n := verif.Choose("n", L+1)
	chain := &DefaultStreamFilterChainImpl{}
	log := &zzLog{}
	for i := 0; i < n; i++ {
		chain.AddStreamSenderFilter(&zzSendFilter{idx: i, log: log}, api.BeforeSend)
	}
	ret := chain.RunSenderFilter(context.Background(), api.BeforeSend, nil, nil, nil, nil)
	last := api.StreamFilterContinue
	for k, c := range log.calls {
		verif.Assert(c.idx == k, "send filters run once each, in configured order")
		if k < len(log.calls)-1 {
			verif.Assert(c.verdict == api.StreamFilterContinue, "a send filter ran after an earlier one stopped")
		}
		last = c.verdict
	}
	if len(log.calls) < n {
		verif.Assert(last != api.StreamFilterContinue, "send pass ended early although every verdict was continue")
	}
	verif.Assert(ret == last && chain.senderFiltersIndex == 0, "send pass result/index")
	verif.Cover("end")
}

//verif:pkg mosn.io/mosn/pkg/stream/xprotocol
package xprotocol

import (
	"context"

	"mosn.io/api"
	v2 "mosn.io/mosn/pkg/config/v2"
	"mosn.io/mosn/pkg/protocol/xprotocol"
	"mosn.io/mosn/pkg/protocol/xprotocol/bolt"
	"mosn.io/mosn/pkg/types"
	"mosn.io/mosn/pkg/upstream/cluster"
	"mosn.io/mosn/pkg/zzverif/verif"
	"mosn.io/pkg/buffer"
	"mosn.io/pkg/variable"
)

// zzBDown is a downstream connection as the binding pool sees it: an id, close
// listeners, Close.
type zzBDown struct {
	api.Connection
	id        uint64
	closed    bool
	listeners []api.ConnectionEventListener
}

func (c *zzBDown) ID() uint64 { return c.id }
func (c *zzBDown) AddConnectionEventListener(l api.ConnectionEventListener) {
	c.listeners = append(c.listeners, l)
}
func (c *zzBDown) Close(t api.ConnectionCloseType, ev api.ConnectionEvent) error {
	if !c.closed {
		c.closed = true
		for _, l := range c.listeners {
			l.OnEvent(ev)
		}
	}
	return nil
}

func zzBCtx(d *zzBDown) context.Context {
	ctx := zzStreamCtx()
	_ = variable.Set(ctx, types.VariableConnectionID, d.id)
	_ = variable.Set(ctx, types.VariableConnection, api.Connection(d))
	return ctx
}

// VerifC09_BindingPool: the xprotocol binding pool (one upstream connection
// per downstream connection) over the real stream client and stream
// connection (bolt, no keep-alive), two downstream connections. A short
// sequence of: a new two-way or one-way request on either downstream
// connection, a reply to the oldest request in flight, a local reset, the
// upstream announcing go-away on a connection, the upstream peer closing a
// connection, a downstream connection closing.
//
// After every step: requests of one downstream connection all travel on one
// upstream connection which no other downstream connection uses, unless that
// connection is closed or announced go-away - such a connection is never
// handed out again (a fresh one is dialled); the request gauges and the
// requests resource equal the number of two-way requests in flight (never
// negative), the connection gauge equals the number of open upstream
// connections; a go-away connection is closed as soon as its last request
// ended and its downstream connection is left open; a connection the peer
// closed with requests in flight takes its downstream connection with it, and
// a closed downstream connection closes its upstream connection.
func VerifC09_BindingPool() {
	xprotocol.RegisterXProtocolAction(NewConnPool, NewStreamFactory, func(api.XProtocolCodec) {})
	_ = xprotocol.RegisterXProtocolCodec(&bolt.XCodec{})
	maxReq := uint32(verif.Choose("max_requests", 3))
	info := &zzPInfo{rm: cluster.NewResourceManager(v2.CircuitBreakers{Thresholds: []v2.Thresholds{{MaxConnections: 8, MaxRequests: maxReq}}}), st: zzPClusterStats()}
	host := &zzLHost{zzPHost: zzPHost{info: info, hs: zzPHostStats()}}
	base := &connpool{protocol: bolt.ProtocolName, codec: zzNoHBCodec{&bolt.XCodec{}}}
	base.host.Store(types.Host(host))
	pool := NewPoolBinding(base).(*poolBinding)
	downs := []*zzBDown{{id: 7}, {id: 9}}
	type reqT struct {
		sender types.StreamSender
		rcv    *zzLRecv
		ls     *zzLListener
		down   int
		up     *zzLConn
		twoWay bool
		live   bool
	}
	var reqs []*reqT
	goAway := map[*zzLConn]bool{}
	owner := map[*zzLConn]int{}
	inFlight := func(up *zzLConn) int {
		n := 0
		for _, r := range reqs {
			if r.live && r.twoWay && (up == nil || r.up == up) {
				n++
			}
		}
		return n
	}
	pick := func() *zzLConn { // an open upstream connection, if any
		var open []*zzLConn
		for _, c := range host.conns {
			if !c.closed {
				open = append(open, c)
			}
		}
		if len(open) == 0 {
			return nil
		}
		return open[verif.Choose("conn", len(open))]
	}
	steps := verif.Param("bind_steps", 3, 4)
	for s := 0; s < steps; s++ {
		switch verif.Choose("op", 6) {
		case 0: // a new request
			d := verif.Choose("down", 2)
			if downs[d].closed {
				break
			}
			twoWay := verif.Choose("two_way", 2) == 1
			r := &reqT{twoWay: twoWay, live: true, ls: &zzLListener{}, down: d}
			var rcv types.StreamReceiveListener
			if twoWay {
				r.rcv = &zzLRecv{}
				rcv = r.rcv
			}
			ctx := zzBCtx(downs[d])
			before := inFlight(nil)
			nconn := len(host.conns)
			_, sender, reason := pool.NewStream(ctx, rcv)
			if sender == nil {
				verif.Assert(reason == types.Overflow && maxReq > 0 && before >= int(maxReq), "a request within every limit was refused")
				verif.Cover("overflow")
				break
			}
			verif.Assert(maxReq == 0 || before < int(maxReq), "more than max_requests two-way requests admitted")
			// which upstream connection carries it
			if xs, ok := sender.(*xStream); ok {
				r.up, _ = xs.sc.netConn.(*zzLConn)
			}
			verif.Assert(r.up != nil, "the request's upstream connection is not one the host created")
			if r.up == nil {
				return
			}
			verif.Assert(!r.up.closed, "a request was put on a closed upstream connection")
			verif.Assert(!goAway[r.up], "a request was put on an upstream connection that announced go-away")
			if o, ok := owner[r.up]; ok {
				verif.Assert(o == d, "two downstream connections share one upstream connection")
				verif.Assert(len(host.conns) == nconn, "a new upstream connection was dialled although the bound one is usable")
				verif.Cover("reused")
			} else {
				// a new connection is only dialled when the downstream connection has no usable one
				for c, o := range owner {
					verif.Assert(o != d || c.closed || goAway[c], "a second upstream connection was opened for a downstream connection whose bound connection is usable")
				}
				owner[r.up] = d
			}
			r.sender = sender
			sender.GetStream().AddEventListener(r.ls)
			reqs = append(reqs, r)
			req := bolt.NewRpcRequest(0, zzHdr{"service": "s"}, buffer.NewIoBufferBytes([]byte("b")))
			if !twoWay {
				req.CmdType = bolt.CmdTypeRequestOneway
				verif.Cover("one-way")
			}
			verif.Assert(sender.AppendHeaders(ctx, req, true) == nil, "request not sent")
		case 1: // the upstream answers the oldest two-way request in flight
			for _, r := range reqs {
				if r.live && r.twoWay {
					resp := bolt.NewRpcResponse(uint32(r.sender.GetStream().ID()), bolt.ResponseStatusSuccess, zzHdr{"k": "v"}, buffer.NewIoBufferBytes([]byte("r")))
					enc, err := (&bolt.XCodec{}).NewXProtocol(zzStreamCtx()).Encode(zzStreamCtx(), resp)
					verif.Assume(err == nil)
					rb := buffer.NewIoBuffer(16)
					rb.Write(enc.Bytes())
					for _, f := range r.up.filters {
						f.OnData(rb)
					}
					verif.Assert(r.rcv.replies == 1, "the reply did not reach its request exactly once")
					r.live = false
					verif.Cover("answered")
					break
				}
			}
		case 2: // the oldest live request is reset (a timeout; for a one-way request: its encoding or its write failed, endStream resets it)
			for _, r := range reqs {
				if r.live {
					r.sender.GetStream().ResetStream(types.StreamLocalReset)
					verif.Assert(r.ls.resets == 1, "a reset request is notified exactly once")
					r.live = false
					if !r.twoWay {
						verif.Cover("one-way-reset")
					}
					break
				}
			}
		case 3: // the upstream announces go-away on a connection
			if c := pick(); c != nil && !goAway[c] {
				for _, ac := range c.listeners {
					if b, ok := ac.(*activeClientBinding); ok {
						b.OnGoAway()
						goAway[c] = true
						verif.Cover("go-away")
						break
					}
				}
			}
		case 4: // the upstream peer closes a connection
			if c := pick(); c != nil {
				had := inFlight(c)
				wasOpen := !downs[owner[c]].closed
				verif.MustFinish(200000, "the close event of the connection is never handled to the end")
				c.Close(api.NoFlush, api.RemoteClose)
				verif.Finished()
				for _, r := range reqs {
					if r.up == c {
						if r.live && r.twoWay {
							verif.Assert(r.ls.resets == 1, "a request in flight on a connection the peer closed must be reset exactly once")
						}
						r.live = false
					}
				}
				if had > 0 {
					verif.Assert(downs[owner[c]].closed, "an upstream connection lost with requests in flight must take its downstream connection with it")
					verif.Cover("peer-closed-busy")
				} else if goAway[c] {
					verif.Assert(!wasOpen || !downs[owner[c]].closed, "a drained go-away connection closing must not close the downstream connection")
				}
			}
		default: // a downstream connection closes
			d := verif.Choose("down", 2)
			if !downs[d].closed {
				downs[d].Close(api.NoFlush, api.RemoteClose)
				for c, o := range owner {
					if o == d && !goAway[c] {
						verif.Assert(c.closed, "the upstream connection bound to a closed downstream connection stays open")
					}
				}
				for _, r := range reqs {
					if r.up != nil && r.up.closed {
						r.live = false
					}
				}
				verif.Cover("downstream-closed")
			}
		}
		// a closed downstream connection closed everything bound to it; requests on closed connections are over
		for _, r := range reqs {
			if r.up != nil && r.up.closed {
				r.live = false
			}
		}
		for c := range goAway {
			oneWay := false
			for _, r := range reqs {
				if r.up == c && r.live && !r.twoWay {
					oneWay = true
				}
			}
			if inFlight(c) == 0 && !oneWay {
				verif.Assert(c.closed, "a connection that announced go-away is still open after its last request in flight ended")
			}
		}
		open := 0
		for _, c := range host.conns {
			if !c.closed {
				open++
			}
		}
		n := int64(inFlight(nil))
		verif.Assert(host.hs.UpstreamRequestActive.Count() == n, "UpstreamRequestActive differs from the number of two-way requests in flight")
		verif.Assert(info.st.UpstreamRequestActive.Count() == n, "cluster UpstreamRequestActive differs from the number of two-way requests in flight")
		if maxReq > 0 {
			verif.Assert(info.rm.Requests().Cur() == n, "requests resource differs from the number of two-way requests in flight")
		}
		verif.Assert(host.hs.UpstreamConnectionActive.Count() == int64(open), "UpstreamConnectionActive differs from the number of open upstream connections")
		verif.Assert(len(pool.idleClients) <= open, "the pool lists a connection that is closed")
	}
	verif.Cover("end")
}

// VerifC10_BindingPool: the same exploration counted for C10 (request and
// connection gauges, requests resource).
func VerifC10_BindingPool() {
	VerifC09_BindingPool()
	verif.Cover("binding")
}

// VerifC09_BindingPoolShutdown: the binding pool holding one connection (with or without a
// request in flight) is shut down (what the cluster manager does with every pool of a
// removed host or at graceful shutdown) or closed. The call comes back - it does not block
// on the pool's own lock -, afterwards the pool lists no connection that is closed, and
// after Close the connection is closed and accounted for.
func VerifC09_BindingPoolShutdown() {
	xprotocol.RegisterXProtocolAction(NewConnPool, NewStreamFactory, func(api.XProtocolCodec) {})
	_ = xprotocol.RegisterXProtocolCodec(&bolt.XCodec{})
	info := &zzPInfo{rm: cluster.NewResourceManager(v2.CircuitBreakers{}), st: zzPClusterStats()}
	host := &zzLHost{zzPHost: zzPHost{info: info, hs: zzPHostStats()}}
	base := &connpool{protocol: bolt.ProtocolName, codec: zzNoHBCodec{&bolt.XCodec{}}}
	base.host.Store(types.Host(host))
	pool := NewPoolBinding(base).(*poolBinding)
	down := &zzBDown{id: 7}
	ctx := zzBCtx(down)
	_, sender, _ := pool.NewStream(ctx, &zzLRecv{})
	verif.Assert(sender != nil && len(host.conns) == 1, "the pool did not open a connection for the first request")
	if sender == nil {
		return
	}
	if verif.Choose("request_in_flight", 2) == 0 {
		sender.GetStream().ResetStream(types.StreamLocalReset)
	}
	closing := verif.Choose("close_instead_of_shutdown", 2) == 1
	verif.MustFinish(200000, "shutting down (or closing) a binding pool that holds a connection never returns: it blocks on the pool's own lock")
	if closing {
		pool.Close()
	} else {
		pool.Shutdown()
	}
	verif.Finished()
	open := 0
	for _, c := range host.conns {
		if !c.closed {
			open++
		}
	}
	verif.Assert(len(pool.idleClients) <= open, "the pool lists a connection that is closed")
	if closing {
		verif.Assert(host.conns[0].closed, "Close left the pool's connection open")
		verif.Assert(host.hs.UpstreamConnectionActive.Count() == 0, "UpstreamConnectionActive differs from the number of open connections")
	}
	verif.Cover("end")
}

//verif:pkg mosn.io/mosn/pkg/stream/xprotocol
package xprotocol

import (
	"mosn.io/api"
	"mosn.io/mosn/pkg/protocol/xprotocol/bolt"
	"mosn.io/mosn/pkg/stream"
	"mosn.io/mosn/pkg/types"
	"mosn.io/mosn/pkg/zzverif/verif"
	"mosn.io/pkg/buffer"
	"mosn.io/pkg/variable"
)

type zzRecConn struct {
	api.Connection
	wrote [][]byte
}

func (c *zzRecConn) ID() uint64                           { return 9 }
func (c *zzRecConn) SetTransferEventListener(func() bool) {}
func (c *zzRecConn) Write(bufs ...buffer.IoBuffer) error {
	for _, b := range bufs {
		c.wrote = append(c.wrote, append([]byte(nil), b.Bytes()...))
	}
	return nil
}
func (c *zzRecConn) Close(api.ConnectionCloseType, api.ConnectionEvent) error { return nil }

// VerifC02_ReplyIDs: one bolt request (symbolic id d) arrives on a downstream
// connection; it is optionally forwarded on an upstream connection whose id
// counter is anywhere (the request frame object is shared and its id is
// rewritten to the upstream id u); then the client is answered - with the
// upstream's response (id u) or with a locally generated error reply
// (hijack). In every case the frame written upstream carries u, and the reply
// written to the client carries d - the id of the very request it answers.
func VerifC02_ReplyIDs() {
	// the status variable is registered by pkg/proxy (not linked here): same registration
	variable.Register(variable.NewStringVariable(types.VarHeaderStatus, nil, nil, variable.DefaultStringSetter, 0))
	ctx := zzStreamCtx()
	proto := (&bolt.XCodec{}).NewXProtocol(ctx)
	down := &zzRecConn{}
	srv := &zzDServer{}
	sc := &streamConn{ctx: ctx, netConn: down, ctxManager: stream.NewContextManager(ctx),
		protocol: proto, protocolName: bolt.ProtocolName, serverCallbacks: srv}
	sc.ctxManager.Next()
	d := verif.U32("downstream_id")
	reqFrame := bolt.NewRpcRequest(d, zzHdr{"service": "s"}, buffer.NewIoBufferBytes([]byte("b")))
	enc, err := proto.Encode(zzStreamCtx(), reqFrame)
	verif.Assume(err == nil)
	rb := buffer.NewIoBuffer(16)
	rb.Write(enc.Bytes())
	sc.Dispatch(rb)
	verif.Assert(len(srv.got) == 1 && srv.got[0].sender != nil, "one two-way request must reach the proxy")
	if len(srv.got) != 1 || srv.got[0].sender == nil {
		return
	}
	g := srv.got[0]
	forwarded := verif.Choose("forwarded", 2) == 1
	var u uint64
	if forwarded {
		up := &zzRecConn{}
		cc := &streamConn{ctx: ctx, netConn: up, ctxManager: stream.NewContextManager(ctx),
			protocol: proto, protocolName: bolt.ProtocolName, clientCallbacks: zzTCallbacks{}, clientStreams: map[uint64]*xStream{}}
		cc.ctxManager.Next()
		cc.clientStreamIDBase = uint64(verif.U32("upstream_counter"))
		cs := cc.NewStream(zzStreamCtx(), &zzTReceiver{}).(*xStream)
		u = cs.id
		verif.Assert(cs.AppendHeaders(g.ctx, g.header, true) == nil, "forwarding refused")
		verif.Assert(len(up.wrote) == 1, "exactly one frame is written upstream")
		if len(up.wrote) == 1 {
			f, derr := proto.Decode(zzStreamCtx(), buffer.NewIoBufferBytes(up.wrote[0]))
			xf, ok := f.(api.XFrame)
			verif.Assert(derr == nil && ok && xf.GetRequestId() == u, "the frame written upstream does not carry the upstream request id")
		}
		verif.Cover("forwarded")
	}
	switch verif.Choose("reply", 2) {
	case 0: // the upstream's response (only after forwarding)
		if !forwarded {
			return
		}
		resp := bolt.NewRpcResponse(uint32(u), bolt.ResponseStatusSuccess, zzHdr{"k": "v"}, buffer.NewIoBufferBytes([]byte("r")))
		verif.Assert(g.sender.AppendHeaders(g.ctx, resp, true) == nil, "reply refused")
		verif.Cover("proxied")
	default: // a local error reply (timeout, reset, no healthy upstream): the proxy hands the request headers back
		variable.SetString(g.ctx, types.VarHeaderStatus, "504")
		verif.Assert(g.sender.AppendHeaders(g.ctx, g.header, true) == nil, "hijack reply refused")
		verif.Cover("hijack")
	}
	verif.Assert(len(down.wrote) == 1, "exactly one reply is written to the client")
	if len(down.wrote) == 1 {
		f, derr := proto.Decode(zzStreamCtx(), buffer.NewIoBufferBytes(down.wrote[0]))
		xf, ok := f.(api.XFrame)
		verif.Assert(derr == nil && ok, "the reply written to the client does not decode")
		if ok {
			verif.Assert(xf.GetStreamType() == api.Response, "the reply written to the client is not a response frame")
			verif.Assert(uint32(xf.GetRequestId()) == d, "the reply written to the client does not carry the id of the request it answers")
		}
	}
	verif.Cover("end")
}

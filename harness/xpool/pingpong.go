//verif:pkg mosn.io/mosn/pkg/stream/xprotocol
package xprotocol

import (
	"context"
	"errors"

	gometrics "github.com/rcrowley/go-metrics"
	"mosn.io/api"
	v2 "mosn.io/mosn/pkg/config/v2"
	str "mosn.io/mosn/pkg/stream"
	"mosn.io/mosn/pkg/types"
	"mosn.io/mosn/pkg/upstream/cluster"
	"mosn.io/mosn/pkg/zzverif/verif"
	"mosn.io/pkg/variable"
)

type zzPCounter struct{ n int64 }

func (c *zzPCounter) Clear()                      { c.n = 0 }
func (c *zzPCounter) Count() int64                { return c.n }
func (c *zzPCounter) Dec(i int64)                 { c.n -= i }
func (c *zzPCounter) Inc(i int64)                 { c.n += i }
func (c *zzPCounter) Snapshot() gometrics.Counter { return c }

func zzPHostStats() *types.HostStats {
	return &types.HostStats{UpstreamConnectionTotal: &zzPCounter{}, UpstreamConnectionClose: &zzPCounter{}, UpstreamConnectionActive: &zzPCounter{},
		UpstreamConnectionConFail: &zzPCounter{}, UpstreamConnectionLocalClose: &zzPCounter{}, UpstreamConnectionRemoteClose: &zzPCounter{},
		UpstreamConnectionLocalCloseWithActiveRequest: &zzPCounter{}, UpstreamConnectionRemoteCloseWithActiveRequest: &zzPCounter{},
		UpstreamRequestTotal: &zzPCounter{}, UpstreamRequestActive: &zzPCounter{}, UpstreamRequestLocalReset: &zzPCounter{}, UpstreamRequestRemoteReset: &zzPCounter{},
		UpstreamRequestTimeout: &zzPCounter{}, UpstreamRequestFailureEject: &zzPCounter{}, UpstreamRequestPendingOverflow: &zzPCounter{}}
}

func zzPClusterStats() *types.ClusterStats {
	return &types.ClusterStats{UpstreamConnectionTotal: &zzPCounter{}, UpstreamConnectionClose: &zzPCounter{}, UpstreamConnectionActive: &zzPCounter{},
		UpstreamConnectionConFail: &zzPCounter{}, UpstreamConnectionLocalClose: &zzPCounter{}, UpstreamConnectionRemoteClose: &zzPCounter{},
		UpstreamConnectionLocalCloseWithActiveRequest: &zzPCounter{}, UpstreamConnectionRemoteCloseWithActiveRequest: &zzPCounter{},
		UpstreamRequestTotal: &zzPCounter{}, UpstreamRequestActive: &zzPCounter{}, UpstreamRequestLocalReset: &zzPCounter{}, UpstreamRequestRemoteReset: &zzPCounter{},
		UpstreamRequestTimeout: &zzPCounter{}, UpstreamRequestFailureEject: &zzPCounter{}, UpstreamRequestPendingOverflow: &zzPCounter{},
		UpstreamBytesReadTotal: &zzPCounter{}, UpstreamBytesWriteTotal: &zzPCounter{}}
}

type zzPInfo struct {
	types.ClusterInfo
	rm types.ResourceManager
	st *types.ClusterStats
}

func (i *zzPInfo) Name() string                           { return "c" }
func (i *zzPInfo) ResourceManager() types.ResourceManager { return i.rm }
func (i *zzPInfo) Stats() *types.ClusterStats             { return i.st }

type zzPHost struct {
	types.Host
	info  *zzPInfo
	hs    *types.HostStats
	world *zzPWorld
}

func (h *zzPHost) AddressString() string          { return "1.1.1.1:1" }
func (h *zzPHost) ClusterInfo() types.ClusterInfo { return h.info }
func (h *zzPHost) HostStats() *types.HostStats    { return h.hs }
func (h *zzPHost) TLSHashValue() *types.HashValue { return nil }
func (h *zzPHost) CreateConnection(ctx context.Context) types.CreateConnectionData {
	return types.CreateConnectionData{Connection: h.world.zzNewConn(), Host: h}
}

type zzPStream struct {
	str.BaseStream
	client *zzPClient
	live   bool
	oneway bool
}

func (s *zzPStream) ID() uint64 { return 1 }

type zzPSender struct {
	types.StreamSender
	st *zzPStream
}

func (s *zzPSender) GetStream() types.Stream { return s.st }

// zzPConn is the upstream connection: Close raises the close event once,
// synchronously, to the registered listener (as network.connection.Close does).
type zzPConn struct {
	types.ClientConnection
	id     uint64
	ac     *activeClientPingPong
	closed bool
	// dial: 0 established, 1 refused (ConnectFailed), 2 timed out (ConnectTimeout)
	dial      int
	connected bool
	listeners []api.ConnectionEventListener
	client    *zzPClient
}

func (c *zzPConn) ID() uint64 { return c.id }
func (c *zzPConn) Close(ccType api.ConnectionCloseType, ev api.ConnectionEvent) error {
	if !c.closed {
		c.closed = true
		if !c.connected {
			return nil // never established: network.connection.Close raises no event
		}
		c.ac.OnEvent(ev)
	}
	return nil
}
func (c *zzPConn) AddConnectionEventListener(l api.ConnectionEventListener) {
	c.listeners = append(c.listeners, l)
	if ac, ok := l.(*activeClientPingPong); ok {
		c.ac = ac
	}
}

// Connect behaves as network.clientConnection.Connect: the outcome is raised
// synchronously as a connection event, then returned.
func (c *zzPConn) Connect() error {
	ev, err := api.Connected, error(nil)
	switch c.dial {
	case 1:
		ev, err = api.ConnectFailed, zzErrPDial
	case 2:
		ev, err = api.ConnectTimeout, zzErrPDial
	default:
		c.connected = true
	}
	for _, l := range c.listeners {
		l.OnEvent(ev)
	}
	return err
}

var zzErrPDial = errors.New("dial failed")

type zzPClient struct {
	str.Client
	conn    *zzPConn
	streams []*zzPStream
}

func (c *zzPClient) ConnID() uint64 { return c.conn.id }
func (c *zzPClient) SetStreamConnectionEventListener(types.StreamConnectionEventListener) {}
func (c *zzPClient) SetConnectionCollector(read, write gometrics.Counter)                 {}
func (c *zzPClient) NewStream(ctx context.Context, r types.StreamReceiveListener) types.StreamSender {
	st := &zzPStream{client: c, live: true, oneway: r == nil}
	c.streams = append(c.streams, st)
	return &zzPSender{st: st}
}

type zzRecv struct{ types.StreamReceiveListener }

type zzPWorld struct {
	pool    *poolPingPong
	info    *zzPInfo
	host    *zzPHost
	clients []*zzPClient
	leased  []*zzPStream
	nextDial int
}

// zzNewConn is what the host's CreateConnection returns: a connection whose
// dial is established, refused or timed out.
func (w *zzPWorld) zzNewConn() *zzPConn {
	if w.nextDial < 0 {
		w.nextDial = verif.Choose("dial_outcome", 3)
	}
	conn := &zzPConn{id: uint64(len(w.clients) + 1), dial: w.nextDial}
	if conn.dial != 0 {
		conn.closed = true // never established: not an open connection
	}
	conn.client = &zzPClient{conn: conn}
	w.clients = append(w.clients, conn.client)
	return conn
}

// zzDial: an established connection, created through the real newActiveClient.
func (w *zzPWorld) zzDial() *activeClientPingPong {
	w.nextDial = 0
	ac, _ := w.pool.newActiveClient(context.Background(), "zz")
	return ac
}

func (w *zzPWorld) zzCheck(maxReq uint64) {
	open := 0
	for _, c := range w.clients {
		idle := 0
		for _, a := range w.pool.idleClients {
			if a.codecClient == c {
				idle++
			}
		}
		live := 0
		for _, s := range c.streams {
			if s.live {
				live++
			}
		}
		verif.Assert(idle <= 1, "a connection is in the idle list twice")
		verif.Assert(live <= 1, "a connection is leased to two requests at once")
		verif.Assert(!(idle == 1 && live == 1), "a leased connection is also in the idle list")
		verif.Assert(!(c.conn.closed && idle == 1), "a closed connection is in the idle list")
		if !c.conn.closed {
			open++
			verif.Assert(idle == 1 || live == 1, "an open connection is neither idle nor leased (leaked)")
		}
	}
	verif.Assert(int(w.pool.totalClientCount.Load()) == open, "totalClientCount differs from the number of open connections")
	verif.Assert(w.host.hs.UpstreamConnectionActive.Count() == int64(open), "UpstreamConnectionActive differs from the number of open connections")
	liveStreams := 0
	for _, s := range w.leased {
		if s.live && !s.oneway {
			liveStreams++
		}
	}
	verif.Assert(w.host.hs.UpstreamRequestActive.Count() == int64(liveStreams), "UpstreamRequestActive differs from the number of live two-way requests")
	if maxReq > 0 {
		verif.Assert(w.info.rm.Requests().Cur() == int64(liveStreams), "requests resource differs from the number of live two-way requests")
	}
}

type zzCodec struct{ api.XProtocolCodec }

func (zzCodec) ProtocolName() api.ProtocolName                 { return "zz" }
func (zzCodec) NewXProtocol(context.Context) api.XProtocol { return nil } // no heartbeat

// VerifC09_PingPongPool: the xprotocol ping-pong pool over short sequences of
// two-way requests, completions, resets and connection closes.
func VerifC09_PingPongPool() {
	maxConn := uint32(verif.Choose("max_connections", 3))
	maxReq := uint32(verif.Choose("max_requests", 3))
	info := &zzPInfo{rm: cluster.NewResourceManager(v2.CircuitBreakers{Thresholds: []v2.Thresholds{{MaxConnections: maxConn, MaxRequests: maxReq}}}), st: zzPClusterStats()}
	host := &zzPHost{info: info, hs: zzPHostStats()}
	base := &connpool{protocol: "zz", codec: zzCodec{}}
	base.host.Store(types.Host(host))
	pool := NewPoolPingPong(base).(*poolPingPong)
	w := &zzPWorld{pool: pool, info: info, host: host}
	host.world = w
	// environment boundary: the network connection the host creates (scripted dial
	// outcome) and the codec client over it; the real newActiveClient runs
	verif.Replace("mosn.io/mosn/pkg/stream.NewStreamClient", func(ctx context.Context, prot api.ProtocolName, connection types.ClientConnection, host types.Host) str.Client {
		return connection.(*zzPConn).client
	})
	idle0 := verif.Choose("initial_idle", verif.Param("idle", 2, 3))
	if maxConn > 0 && idle0 > int(maxConn) {
		idle0 = int(maxConn)
	}
	for i := 0; i < idle0; i++ {
		pool.idleClients = append(pool.idleClients, w.zzDial())
		pool.totalClientCount.Inc()
	}
	w.zzCheck(uint64(maxReq))
	steps := verif.Param("steps", 3, 4)
	for i := 0; i < steps; i++ {
		switch verif.Choose("op", 6) {
		case 5: // a one-way request (no receiver): done as soon as it is written
			if len(pool.idleClients) == 0 {
				verif.EngineOnly("NewStream would dial")
			}
			w.nextDial = -1 // decided when (and only if) a dial happens
			ctx := variable.NewVariableContext(context.Background())
			_, sender, _ := pool.NewStream(ctx, nil)
			if sender != nil {
				st := sender.GetStream().(*zzPStream)
				st.live = false // written; nothing else will ever happen on this stream
				back := st.client.conn.closed
				for _, a := range pool.idleClients {
					if a.codecClient == st.client {
						back = true
					}
				}
				verif.Cover("one-way")
				verif.Assert(back, "one-way request: its connection must return to the pool (or be closed) once the request is written")
				return // the books are off from here on (known finding); nothing more to learn on this path
			}
		case 0: // a new two-way request
			if len(pool.idleClients) == 0 {
				verif.EngineOnly("NewStream would dial: a real connection natively, a modelled dial under the engine")
			}
			idleBefore := len(pool.idleClients)
			w.nextDial = -1 // decided when (and only if) a dial happens
			ctx := variable.NewVariableContext(context.Background())
			_, sender, reason := pool.NewStream(ctx, zzRecv{})
			if sender != nil {
				w.leased = append(w.leased, sender.GetStream().(*zzPStream))
				verif.Cover("leased")
			} else if reason == types.Overflow {
				verif.Assert(len(pool.idleClients) == idleBefore, "a refused request took an idle connection away (capacity lost)")
				verif.Cover("overflow")
			}
		case 1: // the oldest live request completes
			for _, s := range w.leased {
				if s.live {
					s.live = false
					s.DestroyStream()
					break
				}
			}
		case 2: // the oldest live request is reset
			reason := []types.StreamResetReason{types.StreamLocalReset, types.StreamRemoteReset, types.StreamConnectionTermination}[verif.Choose("reset_reason", 3)]
			for _, s := range w.leased {
				if s.live {
					s.live = false
					s.ResetStream(reason)
					if reason == types.StreamLocalReset {
						verif.Assert(s.client.conn.closed, "a connection whose request was reset locally (timeout, cancel) must be closed, not reused")
						verif.Cover("local-reset")
					}
					break
				}
			}
		case 3: // the peer closes a connection
			k := verif.Choose("which", 3)
			if k < len(w.clients) {
				c := w.clients[k]
				for _, s := range c.streams {
					if s.live {
						s.live = false
						s.ResetStream(types.StreamConnectionTermination)
					}
				}
				c.conn.Close(api.NoFlush, api.RemoteClose)
			}
		default:
		}
		w.zzCheck(uint64(maxReq))
	}
	verif.Cover("end")
}

//verif:pkg mosn.io/mosn/pkg/stream/xprotocol
//verif:init mosn.io/mosn/pkg/track
package xprotocol

import (
	"context"

	"mosn.io/api"
	"mosn.io/mosn/pkg/protocol/xprotocol/bolt"
	"mosn.io/mosn/pkg/stream"
	"mosn.io/mosn/pkg/types"
	"mosn.io/mosn/pkg/zzverif/verif"
	"mosn.io/pkg/buffer"
	"mosn.io/pkg/variable"
)

type zzTConn struct{ api.Connection }

func (zzTConn) ID() uint64                                        { return 7 }
func (zzTConn) SetTransferEventListener(func() bool)             {}
func (zzTConn) Write(...buffer.IoBuffer) error                    { return nil }
func (zzTConn) Close(api.ConnectionCloseType, api.ConnectionEvent) error { return nil }

type zzTCallbacks struct{ types.StreamConnectionEventListener }

func (zzTCallbacks) OnGoAway() {}

type zzTReceiver struct {
	got   int
	lastID uint64
	errs  int
}

func (r *zzTReceiver) OnReceive(ctx context.Context, h api.HeaderMap, d buffer.IoBuffer, t api.HeaderMap) {
	r.got++
	if f, ok := h.(api.XFrame); ok {
		r.lastID = f.GetRequestId()
	}
}
func (r *zzTReceiver) OnDecodeError(ctx context.Context, err error, h api.HeaderMap) { r.errs++ }

func zzStreamCtx() context.Context {
	return buffer.NewBufferPoolContext(variable.NewVariableContext(context.Background()))
}

// VerifC02_StreamTable: on one multiplexed client connection, over any short
// sequence of new requests, replies (for a live, a finished, a reset or an
// unknown id), stream resets and connection resets, a receiver only ever gets
// the reply that carries its own request's id, and at most once.
func VerifC02_StreamTable() {
	ctx := zzStreamCtx()
	sc := &streamConn{ctx: ctx, netConn: zzTConn{}, ctxManager: stream.NewContextManager(ctx),
		protocol: (&bolt.XCodec{}).NewXProtocol(ctx), protocolName: bolt.ProtocolName, clientCallbacks: zzTCallbacks{},
		clientStreams: map[uint64]*xStream{}}
	sc.ctxManager.Next()
	// the id counter starts anywhere, in particular just below the 32-bit wrap
	sc.clientStreamIDBase = []uint64{0, 1<<32 - 2, 1<<32 + 5}[verif.Choose("counter", 3)]
	type live struct {
		rcv    *zzTReceiver
		st     *xStream
		id     uint64
		closed bool // replied, or reset
	}
	var streams []*live
	steps := verif.Param("steps", 4, 5)
	for i := 0; i < steps; i++ {
		switch verif.Choose("op", 4) {
		case 0: // a new request
			if len(streams) < 3 {
				r := &zzTReceiver{}
				s := sc.NewStream(zzStreamCtx(), r).(*xStream)
				for _, o := range streams {
					if !o.closed {
						verif.Assert(o.id != s.id, "two live requests on one connection share a request id")
					}
				}
				streams = append(streams, &live{rcv: r, st: s, id: s.id})
				verif.Cover("new")
			}
		case 1: // a reply arrives: for stream k, or for an id nobody is waiting for
			k := verif.Choose("reply_to", 4)
			id := uint64(0xdead)
			if k < len(streams) {
				id = streams[k].id
			}
			before := make([]int, len(streams))
			for j, o := range streams {
				before[j] = o.rcv.got
			}
			sc.handleResponse(zzStreamCtx(), &bolt.Response{ResponseHeader: bolt.ResponseHeader{RequestId: uint32(id)}})
			for j, o := range streams {
				d := o.rcv.got - before[j]
				if j == k && !o.closed {
					verif.Assert(d == 1 && o.rcv.lastID == o.id, "the reply did not reach the request it belongs to")
					o.closed = true
					verif.Cover("delivered")
				} else {
					verif.Assert(d == 0, "a receiver got a reply that is not its own (or got its reply twice, or after a reset)")
				}
			}
		case 2: // one request is reset (timeout, client gone)
			k := verif.Choose("reset", 3)
			if k < len(streams) && !streams[k].closed {
				streams[k].st.ResetStream(types.StreamLocalReset)
				streams[k].closed = true
				verif.Cover("reset")
			}
		default: // the connection closes: every live request is reset; nothing arrives on it afterwards
			before := 0
			for _, o := range streams {
				before += o.rcv.got
			}
			sc.Reset(types.StreamConnectionTermination)
			after := 0
			for _, o := range streams {
				after += o.rcv.got
			}
			verif.Assert(after == before, "a connection reset delivered a reply")
			verif.Cover("end")
			return
		}
	}
	verif.Cover("end")
}

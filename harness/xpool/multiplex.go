//verif:pkg mosn.io/mosn/pkg/stream/xprotocol
package xprotocol

import (
	"mosn.io/pkg/variable"
	"context"
	"mosn.io/api"
	v2 "mosn.io/mosn/pkg/config/v2"
	"mosn.io/mosn/pkg/protocol/xprotocol"
	"mosn.io/mosn/pkg/protocol/xprotocol/bolt"
	"mosn.io/mosn/pkg/types"
	"mosn.io/mosn/pkg/upstream/cluster"
	"mosn.io/mosn/pkg/zzverif/verif"
	"mosn.io/pkg/buffer"
)

// VerifC10_MultiplexPool: the xprotocol multiplex pool over the real stream
// client and stream connection (bolt, no keep-alive). A short sequence of
// requests on the one shared connection - two-way or one-way - each ended by
// a reply, a local reset (timeout / encode failure), or all of them by the
// peer closing the connection. After every step the active-request gauge and
// the requests resource equal the number of two-way requests still in flight
// (never negative), the limit trips exactly at max_requests, and a closed
// connection leaves the pool.
func VerifC10_MultiplexPool() {
	xprotocol.RegisterXProtocolAction(NewConnPool, NewStreamFactory, func(api.XProtocolCodec) {})
	_ = xprotocol.RegisterXProtocolCodec(&bolt.XCodec{})
	maxReq := uint32(verif.Choose("max_requests", 3))
	info := &zzPInfo{rm: cluster.NewResourceManager(v2.CircuitBreakers{Thresholds: []v2.Thresholds{{MaxConnections: 1, MaxRequests: maxReq}}}), st: zzPClusterStats()}
	host := &zzLHost{zzPHost: zzPHost{info: info, hs: zzPHostStats()}}
	base := &connpool{protocol: bolt.ProtocolName, codec: zzNoHBCodec{&bolt.XCodec{}}}
	base.host.Store(types.Host(host))
	pool := NewPoolMultiplex(base).(*poolMultiplex)
	ctx0 := zzStreamCtx()
	if !pool.CheckAndInit(ctx0) {
		verif.Settle() // the connection is built by a goroutine
		verif.Assert(pool.CheckAndInit(ctx0), "the pool did not become ready after its connection was established")
	}
	type reqT struct {
		sender types.StreamSender
		rcv    *zzLRecv
		ls     *zzLListener
		twoWay bool
		live   bool
	}
	var reqs []*reqT
	inFlight := func() int {
		n := 0
		for _, r := range reqs {
			if r.live && r.twoWay {
				n++
			}
		}
		return n
	}
	goAway := false // the first connection was told to go away
	oneWaySeen := false
	steps := verif.Param("mux_steps", 3, 4)
	for s := 0; s < steps; s++ {
		switch verif.Choose("op", 6) {
		case 5: // the upstream announces go-away on the connection
			if c, ok := pool.activeClients[0].Load(base.codec.ProtocolName()); ok && len(host.conns) > 0 && !host.conns[0].closed && !goAway {
				c.(*activeClientMultiplex).OnGoAway()
				goAway = true
				verif.Cover("go-away")
			}
		case 0, 1: // a new two-way / one-way request
			twoWay := verif.Choose("two_way", 2) == 1
			r := &reqT{twoWay: twoWay, live: true, ls: &zzLListener{}}
			var rcv types.StreamReceiveListener
			if twoWay {
				r.rcv = &zzLRecv{}
				rcv = r.rcv
			}
			ctx := zzStreamCtx()
			before := inFlight()
			_, sender, reason := pool.NewStream(ctx, rcv)
			if len(host.conns) > 0 && host.conns[0].closed {
				verif.Assert(sender == nil, "a request was accepted on a pool whose only connection is closed")
			}
			if sender == nil {
				if reason == types.Overflow {
					verif.Assert(maxReq > 0 && before >= int(maxReq), "a request was refused although fewer than max_requests are in flight")
					verif.Cover("overflow")
				}
				break
			}
			verif.Assert(maxReq == 0 || before < int(maxReq), "more than max_requests two-way requests admitted")
			r.sender = sender
			sender.GetStream().AddEventListener(r.ls)
			reqs = append(reqs, r)
			req := bolt.NewRpcRequest(0, zzHdr{"service": "s"}, buffer.NewIoBufferBytes([]byte("b")))
			if !twoWay {
				req.CmdType = bolt.CmdTypeRequestOneway
			}
			verif.Assert(sender.AppendHeaders(ctx, req, true) == nil, "request not sent")
			if !twoWay {
				oneWaySeen = true
				verif.Cover("one-way")
			}
		case 2: // the upstream answers the oldest two-way request in flight
			for _, r := range reqs {
				if r.live && r.twoWay {
					resp := bolt.NewRpcResponse(uint32(r.sender.GetStream().ID()), bolt.ResponseStatusSuccess, zzHdr{"k": "v"}, buffer.NewIoBufferBytes([]byte("r")))
					enc, err := (&bolt.XCodec{}).NewXProtocol(ctx0).Encode(zzStreamCtx(), resp)
					verif.Assume(err == nil)
					rb := buffer.NewIoBuffer(16)
					rb.Write(enc.Bytes())
					for _, f := range host.conns[0].filters {
						f.OnData(rb)
					}
					verif.Assert(r.rcv.replies == 1, "the reply did not reach its request exactly once")
					r.live = false
					verif.Cover("answered")
					break
				}
			}
		case 3: // the proxy resets the oldest live request (timeout, encode failure; one-way ones too)
			for _, r := range reqs {
				if r.live {
					r.sender.GetStream().ResetStream(types.StreamLocalReset)
					verif.Assert(r.ls.resets == 1, "a reset request is notified exactly once")
					r.live = false
					if !r.twoWay {
						verif.Cover("one-way-reset")
					}
					break
				}
			}
		default: // the peer closes the connection: every request in flight is reset
			if len(host.conns) > 0 && !host.conns[0].closed {
				verif.MustFinish(200000, "the close event of the connection is never handled to the end (the handling goroutine blocks for ever; the requests still in flight are never reset)")
				host.conns[0].Close(api.NoFlush, api.RemoteClose)
				verif.Finished()
				for _, r := range reqs {
					if r.live && r.twoWay {
						verif.Assert(r.ls.resets == 1, "a request in flight on a connection the peer closed must be reset exactly once")
					}
					r.live = false
				}
				verif.Cover("peer-closed")
			}
		}
		if goAway && !oneWaySeen && inFlight() == 0 {
			// (a go-away connection is not handed out any more: once its last request in flight has
			// ended it must be closed, or it stays open, counted and unused for ever)
			verif.Assert(host.conns[0].closed, "a connection that announced go-away is still open after its last request in flight ended")
			verif.Cover("go-away connection closed")
		}
		n := int64(inFlight())
		verif.Assert(host.hs.UpstreamRequestActive.Count() == n, "UpstreamRequestActive differs from the number of two-way requests in flight")
		verif.Assert(info.st.UpstreamRequestActive.Count() == n, "cluster UpstreamRequestActive differs from the number of two-way requests in flight")
		if maxReq > 0 {
			verif.Assert(info.rm.Requests().Cur() == n, "requests resource differs from the number of two-way requests in flight")
		}
	}
	verif.Cover("end")
}

// VerifC09_MultiplexPool: the same exploration counted for C09 (capacity
// freed by finished or failed requests becomes available again, counters
// equal the true numbers).
func VerifC09_MultiplexPool() {
	VerifC10_MultiplexPool()
	verif.Cover("multiplex")
}

// VerifC09_MultiplexTwoSlots: the multiplex pool with max_connections = 2 (two
// shared connections, requests spread over them by the pool index of the
// downstream context). Both slots are initialised, then the peer closes the
// connection of one slot (either one), optionally with a request in flight on
// it. Afterwards: the other slot still serves requests on its own, still open
// connection; the closed connection is never handed out again - a request for
// that slot is refused until the slot has reconnected, and then travels on a
// fresh connection; no connection that is still open was dropped from the pool
// (the host has created exactly one new connection, for the closed slot).
func VerifC09_MultiplexTwoSlots() {
	xprotocol.RegisterXProtocolAction(NewConnPool, NewStreamFactory, func(api.XProtocolCodec) {})
	_ = xprotocol.RegisterXProtocolCodec(&bolt.XCodec{})
	info := &zzPInfo{rm: cluster.NewResourceManager(v2.CircuitBreakers{Thresholds: []v2.Thresholds{{MaxConnections: 2}}}), st: zzPClusterStats()}
	host := &zzLHost{zzPHost: zzPHost{info: info, hs: zzPHostStats()}}
	base := &connpool{protocol: bolt.ProtocolName, codec: zzNoHBCodec{&bolt.XCodec{}}}
	base.host.Store(types.Host(host))
	pool := NewPoolMultiplex(base).(*poolMultiplex)
	verif.Assert(len(pool.activeClients) == 2, "max_connections = 2 must give two slots")
	// one downstream context per slot (the first CheckAndInit of a context draws the slot)
	ctxs := []context.Context{zzStreamCtx(), zzStreamCtx()}
	slotConn := map[int64]*zzLConn{}
	ctxOf := map[int64]context.Context{}
	for _, ctx := range ctxs {
		if !pool.CheckAndInit(ctx) {
			verif.Settle()
			verif.Assert(pool.CheckAndInit(ctx), "a slot did not become ready after its connection was established")
		}
		v, _ := variable.Get(ctx, types.VariableConnectionPoolIndex)
		idx := v.(int64)
		_, sender, _ := pool.NewStream(ctx, &zzLRecv{})
		verif.Assert(sender != nil, "a ready slot refused a request")
		if sender == nil {
			return
		}
		c, _ := sender.(*xStream).sc.netConn.(*zzLConn)
		sender.GetStream().ResetStream(types.StreamLocalReset) // the probe request is given up at once
		slotConn[idx] = c
		ctxOf[idx] = ctx
	}
	verif.Assert(len(slotConn) == 2 && slotConn[0] != slotConn[1] && len(host.conns) == 2, "the two slots do not hold two distinct connections")
	if len(slotConn) != 2 {
		return
	}
	victim := int64(verif.Choose("closed_slot", 2))
	other := 1 - victim
	ls := &zzLListener{}
	if verif.Choose("request_in_flight", 2) == 1 {
		_, sender, _ := pool.NewStream(ctxOf[victim], &zzLRecv{})
		if sender != nil {
			sender.GetStream().AddEventListener(ls)
			req := bolt.NewRpcRequest(0, zzHdr{"service": "s"}, buffer.NewIoBufferBytes([]byte("b")))
			_ = sender.AppendHeaders(ctxOf[victim], req, true)
		}
	}
	verif.MustFinish(200000, "the close event of the connection is never handled to the end")
	slotConn[victim].Close(api.NoFlush, api.RemoteClose)
	verif.Finished()
	// the untouched slot keeps serving on its own connection
	_, s2, _ := pool.NewStream(ctxOf[other], &zzLRecv{})
	verif.Assert(s2 != nil, "the slot whose connection is still open refuses requests after the other slot's connection closed")
	if s2 != nil {
		c, _ := s2.(*xStream).sc.netConn.(*zzLConn)
		verif.Assert(c == slotConn[other] && !c.closed, "the healthy slot does not serve on its own open connection any more (it was dropped from the pool with the closed one)")
		s2.GetStream().ResetStream(types.StreamLocalReset)
	}
	// the closed slot: never the closed connection again
	_, s3, _ := pool.NewStream(ctxOf[victim], &zzLRecv{})
	if s3 != nil {
		c, _ := s3.(*xStream).sc.netConn.(*zzLConn)
		verif.Assert(c != slotConn[victim] && c != nil && !c.closed, "a request was put on the connection the peer closed")
		s3.GetStream().ResetStream(types.StreamLocalReset)
	} else {
		// not reconnected yet: CheckAndInit starts it, then the slot serves on a fresh connection
		if !pool.CheckAndInit(ctxOf[victim]) {
			verif.Settle()
		}
		verif.Assert(pool.CheckAndInit(ctxOf[victim]), "the slot whose connection closed never becomes ready again")
		_, s4, _ := pool.NewStream(ctxOf[victim], &zzLRecv{})
		verif.Assert(s4 != nil, "the reconnected slot refuses requests")
		if s4 != nil {
			c, _ := s4.(*xStream).sc.netConn.(*zzLConn)
			verif.Assert(c != slotConn[victim] && c != nil && !c.closed, "a request was put on the connection the peer closed")
			s4.GetStream().ResetStream(types.StreamLocalReset)
		}
		verif.Cover("reconnected")
	}
	verif.Assert(len(host.conns) <= 3, "more than one new connection was dialled for one closed connection (an open connection was dropped from the pool)")
	verif.Assert(host.hs.UpstreamConnectionActive.Count() == 2 || len(host.conns) == 2, "UpstreamConnectionActive differs from the number of open connections")
	verif.Cover("end")
}

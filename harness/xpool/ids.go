//verif:pkg mosn.io/mosn/pkg/stream/xprotocol
package xprotocol

import (
	"sync"

	"mosn.io/api"
	"mosn.io/mosn/pkg/protocol/xprotocol/bolt"
	"mosn.io/mosn/pkg/protocol/xprotocol/boltv2"
	"mosn.io/mosn/pkg/protocol/xprotocol/dubbo"
	"mosn.io/mosn/pkg/protocol/xprotocol/dubbothrift"
	"mosn.io/mosn/pkg/protocol/xprotocol/tars"
	"mosn.io/mosn/pkg/zzverif/verif"
)

// VerifC02_ConcurrentIDs: newClientStream draws the upstream request id
// outside the connection's mutex, so two workers opening streams on one
// multiplexed connection call GenerateRequestID on the same counter at the
// same time. For every codec, every counter value and every interleaving of
// the two calls (atomic operations are scheduling points) the two requests
// get different ids - otherwise the second registration replaces the first in
// the stream table and one client receives the other's reply.
func VerifC02_ConcurrentIDs() {
	verif.Switches(3)
	ctx := zzStreamCtx()
	codecs := []api.XProtocolCodec{&bolt.XCodec{}, &boltv2.XCodec{}, &dubbo.XCodec{}, &dubbothrift.XCodec{}, &tars.XCodec{}}
	proto := codecs[verif.Choose("codec", len(codecs))].NewXProtocol(ctx)
	start := verif.U64("counter")
	workers, tries := 2, 1
	if !verif.Symbolic() {
		// natively the schedule cannot be forced: more workers behind a barrier, many rounds
		workers, tries = 8, 4000
	}
	for t := 0; t < tries; t++ {
		base := start
		ids := make([]uint64, workers)
		var wg sync.WaitGroup
		gate := make(chan struct{})
		wg.Add(workers)
		for i := 0; i < workers; i++ {
			i := i
			go func() {
				if !verif.Symbolic() {
					<-gate
				}
				ids[i] = proto.GenerateRequestID(&base)
				wg.Done()
			}()
		}
		close(gate)
		wg.Wait()
		distinct := true
		for i := 0; i < workers; i++ {
			for j := 0; j < i; j++ {
				if ids[i] == ids[j] {
					distinct = false
				}
			}
		}
		verif.Assert(distinct, "two requests opened at the same time on one connection got the same request id")
	}
	verif.Cover("end")
}

//verif:pkg mosn.io/mosn/pkg/stream/xprotocol
//verif:init mosn.io/mosn/pkg/protocol/xprotocol mosn.io/mosn/pkg/protocol/xprotocol/boltv2 mosn.io/mosn/pkg/protocol/xprotocol/bolt
package xprotocol

import (
	"context"

	"mosn.io/api"
	"mosn.io/mosn/pkg/protocol/xprotocol/bolt"
	"mosn.io/mosn/pkg/protocol/xprotocol/boltv2"
	"mosn.io/mosn/pkg/stream"
	"mosn.io/mosn/pkg/types"
	"mosn.io/mosn/pkg/zzverif/verif"
	"mosn.io/pkg/buffer"
)

type zzCDRecv struct {
	got    int
	id     uint64
	header string
	body   string
}

func (r *zzCDRecv) OnReceive(ctx context.Context, h api.HeaderMap, d buffer.IoBuffer, t api.HeaderMap) {
	r.got++
	if f, ok := h.(api.XFrame); ok {
		r.id = f.GetRequestId()
	}
	r.header, _ = h.Get("k")
	r.body = ""
	if d != nil {
		r.body = string(d.Bytes())
	}
}
func (r *zzCDRecv) OnDecodeError(ctx context.Context, err error, h api.HeaderMap) {}

// VerifC02_ClientDispatch: the real client-side Dispatch on one multiplexed
// bolt connection with two requests, the first of which was abandoned (reset)
// or is still live. The upstream's bytes carry a reply for the first request
// (a late one if it was abandoned) followed by a reply for the second, each
// with or without a body, in one read or cut anywhere. The second request's
// receiver gets exactly its own reply - its own header value and its own
// body, never a byte of the other reply -, an abandoned request gets nothing.
func VerifC02_ClientDispatch() {
	ctx := zzStreamCtx()
	proto := (&bolt.XCodec{}).NewXProtocol(ctx)
	sc := &streamConn{ctx: ctx, netConn: zzTConn{}, ctxManager: stream.NewContextManager(ctx),
		protocol: proto, protocolName: bolt.ProtocolName, clientCallbacks: zzTCallbacks{}, clientStreams: map[uint64]*xStream{}}
	sc.ctxManager.Next()
	r1, r2 := &zzCDRecv{}, &zzCDRecv{}
	s1 := sc.NewStream(zzStreamCtx(), r1).(*xStream)
	s2 := sc.NewStream(zzStreamCtx(), r2).(*xStream)
	abandoned := verif.Choose("first_abandoned", 2) == 1
	if abandoned {
		s1.ResetStream(types.StreamLocalReset)
	}
	type rep struct {
		hv   string
		body []byte
	}
	mk := func(tag string) rep {
		r := rep{hv: verif.Str(tag+"_header", 1)}
		if verif.Choose(tag+"_has_body", 2) == 1 {
			r.body = verif.Bytes(tag+"_body", 2)
		}
		return r
	}
	p1, p2 := mk("reply1"), mk("reply2")
	var wire []byte
	for i, p := range []rep{p1, p2} {
		id := s1.id
		if i == 1 {
			id = s2.id
		}
		var data buffer.IoBuffer
		if p.body != nil {
			data = buffer.NewIoBufferBytes(append([]byte(nil), p.body...))
		}
		f := bolt.NewRpcResponse(uint32(id), bolt.ResponseStatusSuccess, zzHdr{"k": p.hv}, data)
		enc, err := proto.Encode(zzStreamCtx(), f)
		verif.Assume(err == nil)
		wire = append(wire, enc.Bytes()...)
	}
	cut := verif.Choose("cut", len(wire)+1)
	rb := buffer.NewIoBuffer(16)
	if cut > 0 {
		rb.Write(wire[:cut])
		sc.Dispatch(rb)
	}
	if cut < len(wire) {
		rb.Write(wire[cut:])
		sc.Dispatch(rb)
	}
	verif.Assert(rb.Len() == 0, "bytes of complete frames left in the read buffer")
	if abandoned {
		verif.Assert(r1.got == 0, "an abandoned request was handed a late reply")
		verif.Cover("late-reply-dropped")
	} else {
		verif.Assert(r1.got == 1 && r1.id == s1.id && r1.header == p1.hv && r1.body == string(p1.body), "the first request did not get exactly its own reply")
	}
	verif.Assert(r2.got == 1 && r2.id == s2.id, "the second request did not get exactly one reply carrying its id")
	verif.Assert(r2.header == p2.hv, "the second request's reply carries another exchange's header")
	verif.Assert(r2.body == string(p2.body), "the second request's reply carries a body that is not its own (bytes of another exchange)")
	verif.Cover("end")
}

type zzKeepRecv struct {
	got  int
	h    api.HeaderMap
	data buffer.IoBuffer
}

func (r *zzKeepRecv) OnReceive(ctx context.Context, h api.HeaderMap, d buffer.IoBuffer, t api.HeaderMap) {
	r.got++
	r.h, r.data = h, d
}
func (r *zzKeepRecv) OnDecodeError(ctx context.Context, err error, h api.HeaderMap) {}

// zzRepliesKeepTheirBytes: two requests in flight on one multiplexed client connection;
// the upstream's two replies arrive in two reads into the same read buffer (the second
// read reuses the storage of the first, as connection.doRead's ReadOnce does). The proxy
// worker of the first request looks at its reply only afterwards: what it was handed -
// header value, body, and the frame re-encoded for the client after a header was set -
// must still be its own reply, no byte of the other exchange.
func zzRepliesKeepTheirBytes(proto api.XProtocol, name api.ProtocolName, mk func(id uint32, hv string, body []byte) api.XRespFrame) {
	ctx := zzStreamCtx()
	sc := &streamConn{ctx: ctx, netConn: zzTConn{}, ctxManager: stream.NewContextManager(ctx),
		protocol: proto, protocolName: name, clientCallbacks: zzTCallbacks{}, clientStreams: map[uint64]*xStream{}}
	sc.ctxManager.Next()
	r1, r2 := &zzKeepRecv{}, &zzKeepRecv{}
	s1 := sc.NewStream(zzStreamCtx(), r1).(*xStream)
	s2 := sc.NewStream(zzStreamCtx(), r2).(*xStream)
	hv1, hv2 := verif.Str("reply1_header", 1), verif.Str("reply2_header", 1)
	b1, b2 := verif.Bytes("reply1_body", 2), verif.Bytes("reply2_body", 2)
	rb := buffer.NewIoBuffer(64)
	for i := 0; i < 2; i++ {
		var f api.XRespFrame
		if i == 0 {
			f = mk(uint32(s1.id), hv1, append([]byte(nil), b1...))
		} else {
			f = mk(uint32(s2.id), hv2, append([]byte(nil), b2...))
		}
		enc, err := proto.Encode(zzStreamCtx(), f)
		verif.Assume(err == nil)
		rb.Write(append([]byte(nil), enc.Bytes()...)) // the next read lands where the previous one was
		sc.Dispatch(rb)
		verif.Assert(rb.Len() == 0, "bytes of a complete frame left in the read buffer")
	}
	verif.Assert(r1.got == 1 && r2.got == 1, "each request must get exactly one reply")
	if r1.got != 1 || r2.got != 1 {
		return
	}
	for i, r := range []*zzKeepRecv{r1, r2} {
		hv, body, id := hv1, b1, s1.id
		if i == 1 {
			hv, body, id = hv2, b2, s2.id
		}
		f, ok := r.h.(api.XRespFrame)
		verif.Assert(ok, "the reply is not a response frame")
		if !ok {
			continue
		}
		verif.Assert(f.GetRequestId() == id, "a request was handed a reply with another id")
		got, _ := r.h.Get("k")
		verif.Assert(got == hv, "a reply's header value changed after the read buffer was reused (bytes of another exchange)")
		verif.Assert(r.data != nil && string(r.data.Bytes()) == string(body), "a reply's body changed after the read buffer was reused (bytes of another exchange)")
		// what goes to the client after a response header was added
		r.h.Set("x", "y")
		enc, err := proto.Encode(zzStreamCtx(), f)
		verif.Assert(err == nil, "re-encode failed")
		if err == nil {
			back, derr := proto.Decode(zzStreamCtx(), buffer.NewIoBufferBytes(append([]byte(nil), enc.Bytes()...)))
			verif.Assert(derr == nil && back != nil, "the re-encoded reply does not decode")
			if bf, ok := back.(api.XRespFrame); ok && derr == nil {
				verif.Assert(bf.GetData() != nil && string(bf.GetData().Bytes()) == string(body), "the reply re-encoded for the client carries a body that is not its own")
			}
		}
	}
	verif.Cover("end")
}

func VerifC02_BoltRepliesKeepTheirBytes() {
	ctx := zzStreamCtx()
	zzRepliesKeepTheirBytes((&bolt.XCodec{}).NewXProtocol(ctx), bolt.ProtocolName, func(id uint32, hv string, body []byte) api.XRespFrame {
		return bolt.NewRpcResponse(id, bolt.ResponseStatusSuccess, zzHdr{"k": hv}, buffer.NewIoBufferBytes(body))
	})
}

func VerifC02_BoltV2RepliesKeepTheirBytes() {
	ctx := zzStreamCtx()
	zzRepliesKeepTheirBytes((&boltv2.XCodec{}).NewXProtocol(ctx), boltv2.ProtocolName, func(id uint32, hv string, body []byte) api.XRespFrame {
		r := boltv2.NewRpcResponse(id, bolt.ResponseStatusSuccess, zzHdr{"k": hv}, buffer.NewIoBufferBytes(body))
		return r
	})
}

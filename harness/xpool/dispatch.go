//verif:pkg mosn.io/mosn/pkg/stream/xprotocol
package xprotocol

import (
	"context"

	"mosn.io/api"
	"mosn.io/mosn/pkg/protocol/xprotocol/bolt"
	"mosn.io/mosn/pkg/stream"
	"mosn.io/mosn/pkg/types"
	"mosn.io/mosn/pkg/zzverif/verif"
	"mosn.io/pkg/buffer"
	"mosn.io/pkg/variable"
)

type zzDRecv struct {
	ctx    context.Context
	header api.HeaderMap
	data   buffer.IoBuffer
	sender types.StreamSender
}

func (r *zzDRecv) OnReceive(ctx context.Context, h api.HeaderMap, d buffer.IoBuffer, t api.HeaderMap) {
	r.header, r.data = h, d
}
func (r *zzDRecv) OnDecodeError(ctx context.Context, err error, h api.HeaderMap) {}

type zzDServer struct {
	types.ServerStreamConnectionEventListener
	got []*zzDRecv
}

func (s *zzDServer) NewStreamDetect(ctx context.Context, sender types.StreamSender, span api.Span) types.StreamReceiveListener {
	r := &zzDRecv{ctx: ctx, sender: sender}
	s.got = append(s.got, r)
	return r
}

// VerifC07_DispatchSegmentation: the real server-side streamConn.Dispatch is
// fed two bolt requests (symbolic ids, header value and body) in one read or
// cut anywhere into two reads. After everything was dispatched the proxy
// holds exactly two requests, in order, each with its own id, headers, body,
// stream context and context variables - whatever the segmentation, and in
// particular when both frames arrive in one read.
func VerifC07_DispatchSegmentation() {
	ctx := zzStreamCtx()
	proto := (&bolt.XCodec{}).NewXProtocol(ctx)
	srv := &zzDServer{}
	sc := &streamConn{ctx: ctx, netConn: zzTConn{}, ctxManager: stream.NewContextManager(ctx),
		protocol: proto, protocolName: bolt.ProtocolName, serverCallbacks: srv}
	sc.ctxManager.Next()
	type reqT struct {
		id   uint32
		svc  string
		body []byte
	}
	var reqs []reqT
	var wire []byte
	for i := 0; i < 2; i++ {
		r := reqT{id: verif.U32("id"), svc: verif.Str("service", 1), body: verif.Bytes("body", 2)}
		reqs = append(reqs, r)
		f := bolt.NewRpcRequest(r.id, zzHdr{"service": r.svc}, buffer.NewIoBufferBytes(append([]byte(nil), r.body...)))
		enc, err := proto.Encode(zzStreamCtx(), f)
		verif.Assume(err == nil)
		wire = append(wire, enc.Bytes()...)
	}
	cut := verif.Choose("cut", len(wire)+1)
	rb := buffer.NewIoBuffer(16)
	if cut > 0 {
		rb.Write(wire[:cut])
		sc.Dispatch(rb)
	}
	if cut < len(wire) {
		rb.Write(wire[cut:])
		sc.Dispatch(rb)
	}
	verif.Assert(rb.Len() == 0, "bytes of complete frames left in the read buffer")
	verif.Assert(len(srv.got) == 2, "two complete request frames must give two requests")
	if len(srv.got) != 2 {
		return
	}
	for i, g := range srv.got {
		x, ok := g.header.(api.XFrame)
		verif.Assert(ok, "receiver did not get a frame")
		if !ok {
			return
		}
		verif.Assert(uint32(x.GetRequestId()) == reqs[i].id, "a request held by the proxy carries another request's id")
		v, _ := g.header.Get("service")
		verif.Assert(v == reqs[i].svc, "a request held by the proxy carries another request's headers")
		verif.Assert(g.data != nil && string(g.data.Bytes()) == string(reqs[i].body), "a request held by the proxy carries another request's body")
		sid, err := variable.Get(g.ctx, types.VariableStreamID)
		verif.Assert(err == nil && sid == uint64(reqs[i].id), "stream context variables belong to another request")
	}
	verif.Assert(srv.got[0].ctx != srv.got[1].ctx, "two requests share one stream context")
	verif.Assert(srv.got[0].sender != srv.got[1].sender, "two requests share one stream object")
	if cut == 0 || cut == len(wire) {
		verif.Cover("one-read")
	}
	verif.Cover("end")
}

type zzHdr map[string]string

func (h zzHdr) Get(k string) (string, bool) { v, ok := h[k]; return v, ok }
func (h zzHdr) Set(k, v string)              { h[k] = v }
func (h zzHdr) Add(k, v string)              { h[k] = v }
func (h zzHdr) Del(k string)                 { delete(h, k) }
func (h zzHdr) Range(f func(k, v string) bool) {
	for k, v := range h {
		if !f(k, v) {
			return
		}
	}
}
func (h zzHdr) Clone() api.HeaderMap { c := zzHdr{}; for k, v := range h { c[k] = v }; return c }
func (h zzHdr) ByteSize() uint64     { return 0 }

//verif:pkg mosn.io/mosn/pkg/stream/xprotocol
package xprotocol

import (
	"net"
	"context"

	"mosn.io/api"
	"mosn.io/mosn/pkg/protocol/xprotocol/bolt"
	"mosn.io/mosn/pkg/protocol/xprotocol/boltv2"
	"mosn.io/mosn/pkg/stream"
	"mosn.io/mosn/pkg/types"
	"mosn.io/mosn/pkg/zzverif/verif"
	"mosn.io/pkg/buffer"
	"mosn.io/pkg/variable"
)

type zzDRecv struct {
	decodeErrors int
	ctx    context.Context
	header api.HeaderMap
	data   buffer.IoBuffer
	sender types.StreamSender
}

func (r *zzDRecv) OnReceive(ctx context.Context, h api.HeaderMap, d buffer.IoBuffer, t api.HeaderMap) {
	r.header, r.data = h, d
}
func (r *zzDRecv) OnDecodeError(ctx context.Context, err error, h api.HeaderMap) { r.decodeErrors++ }

type zzDServer struct {
	types.ServerStreamConnectionEventListener
	got []*zzDRecv
}

func (s *zzDServer) NewStreamDetect(ctx context.Context, sender types.StreamSender, span api.Span) types.StreamReceiveListener {
	r := &zzDRecv{ctx: ctx, sender: sender}
	s.got = append(s.got, r)
	return r
}

// VerifC07_DispatchSegmentation: the real server-side streamConn.Dispatch is
// fed two bolt requests (symbolic ids, header value and body) in one read or
// cut anywhere into two reads. After everything was dispatched the proxy
// holds exactly two requests, in order, each with its own id, headers, body,
// stream context and context variables - whatever the segmentation, and in
// particular when both frames arrive in one read.
func VerifC07_DispatchSegmentation() {
	ctx := zzStreamCtx()
	proto := (&bolt.XCodec{}).NewXProtocol(ctx)
	srv := &zzDServer{}
	sc := &streamConn{ctx: ctx, netConn: zzTConn{}, ctxManager: stream.NewContextManager(ctx),
		protocol: proto, protocolName: bolt.ProtocolName, serverCallbacks: srv}
	sc.ctxManager.Next()
	type reqT struct {
		id   uint32
		svc  string
		body []byte
	}
	var reqs []reqT
	var wire []byte
	for i := 0; i < 2; i++ {
		r := reqT{id: verif.U32("id"), svc: verif.Str("service", 1), body: verif.Bytes("body", 2)}
		reqs = append(reqs, r)
		f := bolt.NewRpcRequest(r.id, zzHdr{"service": r.svc}, buffer.NewIoBufferBytes(append([]byte(nil), r.body...)))
		enc, err := proto.Encode(zzStreamCtx(), f)
		verif.Assume(err == nil)
		wire = append(wire, enc.Bytes()...)
	}
	cut := verif.Choose("cut", len(wire)+1)
	rb := buffer.NewIoBuffer(16)
	if cut > 0 {
		rb.Write(wire[:cut])
		sc.Dispatch(rb)
	}
	if cut < len(wire) {
		rb.Write(wire[cut:])
		sc.Dispatch(rb)
	}
	verif.Assert(rb.Len() == 0, "bytes of complete frames left in the read buffer")
	verif.Assert(len(srv.got) == 2, "two complete request frames must give two requests")
	if len(srv.got) != 2 {
		return
	}
	for i, g := range srv.got {
		x, ok := g.header.(api.XFrame)
		verif.Assert(ok, "receiver did not get a frame")
		if !ok {
			return
		}
		verif.Assert(uint32(x.GetRequestId()) == reqs[i].id, "a request held by the proxy carries another request's id")
		v, _ := g.header.Get("service")
		verif.Assert(v == reqs[i].svc, "a request held by the proxy carries another request's headers")
		verif.Assert(g.data != nil && string(g.data.Bytes()) == string(reqs[i].body), "a request held by the proxy carries another request's body")
		sid, err := variable.Get(g.ctx, types.VariableStreamID)
		verif.Assert(err == nil && sid == uint64(reqs[i].id), "stream context variables belong to another request")
	}
	verif.Assert(srv.got[0].ctx != srv.got[1].ctx, "two requests share one stream context")
	verif.Assert(srv.got[0].sender != srv.got[1].sender, "two requests share one stream object")
	if cut == 0 || cut == len(wire) {
		verif.Cover("one-read")
	}
	verif.Cover("end")
}

type zzHdr map[string]string

func (h zzHdr) Get(k string) (string, bool) { v, ok := h[k]; return v, ok }
func (h zzHdr) Set(k, v string)              { h[k] = v }
func (h zzHdr) Add(k, v string)              { h[k] = v }
func (h zzHdr) Del(k string)                 { delete(h, k) }
func (h zzHdr) Range(f func(k, v string) bool) {
	for k, v := range h {
		if !f(k, v) {
			return
		}
	}
}
func (h zzHdr) Clone() api.HeaderMap { c := zzHdr{}; for k, v := range h { c[k] = v }; return c }
func (h zzHdr) ByteSize() uint64     { return 0 }

// zzDispatchRun is the body shared by the variants below: nreq requests of
// the given codec, the wire cut at ncut (sorted) positions into ncut+1 reads.
func zzDispatchRun(proto api.XProtocol, name api.ProtocolName, mk func(id uint32, svc string, body []byte) api.XFrame, nreq, ncut int) {
	ctx := zzStreamCtx()
	srv := &zzDServer{}
	sc := &streamConn{ctx: ctx, netConn: zzTConn{}, ctxManager: stream.NewContextManager(ctx),
		protocol: proto, protocolName: name, serverCallbacks: srv}
	sc.ctxManager.Next()
	type reqT struct {
		id   uint32
		svc  string
		body []byte
	}
	var reqs []reqT
	var wire []byte
	var ends []int
	for i := 0; i < nreq; i++ {
		r := reqT{id: verif.U32("id"), svc: verif.Str("service", 1), body: verif.Bytes("body", 2)}
		reqs = append(reqs, r)
		enc, err := proto.Encode(zzStreamCtx(), mk(r.id, r.svc, append([]byte(nil), r.body...)))
		verif.Assume(err == nil)
		wire = append(wire, enc.Bytes()...)
		ends = append(ends, len(wire))
	}
	rb := buffer.NewIoBuffer(16)
	prev := 0
	for k := 0; k <= ncut; k++ {
		next := len(wire)
		if k < ncut {
			next = prev + verif.Choose("cut", len(wire)-prev+1)
		}
		if next > prev {
			rb.Write(wire[prev:next])
			sc.Dispatch(rb)
			// after each read: exactly the frames that are complete so far were handed over
			want := 0
			for _, e := range ends {
				if e <= next {
					want++
				}
			}
			verif.Assert(len(srv.got) == want, "the requests handed over after a read are not exactly the complete frames received so far")
		}
		prev = next
	}
	verif.Assert(rb.Len() == 0, "bytes of complete frames left in the read buffer")
	verif.Assert(len(srv.got) == nreq, "every complete request frame must give one request")
	if len(srv.got) != nreq {
		return
	}
	for i, g := range srv.got {
		x, ok := g.header.(api.XFrame)
		verif.Assert(ok, "receiver did not get a frame")
		if !ok {
			return
		}
		verif.Assert(uint32(x.GetRequestId()) == reqs[i].id, "a request held by the proxy carries another request's id")
		v, _ := g.header.Get("service")
		verif.Assert(v == reqs[i].svc, "a request held by the proxy carries another request's headers")
		verif.Assert(g.data != nil && string(g.data.Bytes()) == string(reqs[i].body), "a request held by the proxy carries another request's body")
		sid, err := variable.Get(g.ctx, types.VariableStreamID)
		verif.Assert(err == nil && sid == uint64(reqs[i].id), "stream context variables belong to another request")
		for j := 0; j < i; j++ {
			verif.Assert(srv.got[j].ctx != g.ctx, "two requests share one stream context")
			verif.Assert(srv.got[j].sender != g.sender, "two requests share one stream object")
		}
	}
	verif.Cover("end")
}

// VerifC07_DispatchSegmentationV2: the same for boltv2 frames.
func VerifC07_DispatchSegmentationV2() {
	proto := (&boltv2.XCodec{}).NewXProtocol(zzStreamCtx())
	zzDispatchRun(proto, boltv2.ProtocolName, func(id uint32, svc string, body []byte) api.XFrame {
		return boltv2.NewRpcRequest(id, zzHdr{"service": svc}, buffer.NewIoBufferBytes(body))
	}, 2, 1)
}

// VerifC07_DispatchThreeReads: two (thorough: three) bolt requests delivered
// in up to three reads (two cuts anywhere); after every read exactly the
// frames complete so far have been handed to the proxy.
func VerifC07_DispatchThreeReads() {
	proto := (&bolt.XCodec{}).NewXProtocol(zzStreamCtx())
	zzDispatchRun(proto, bolt.ProtocolName, func(id uint32, svc string, body []byte) api.XFrame {
		return bolt.NewRpcRequest(id, zzHdr{"service": svc}, buffer.NewIoBufferBytes(body))
	}, 2, 2)
}

func VerifC07_DispatchThreeReads_T() {
	proto := (&bolt.XCodec{}).NewXProtocol(zzStreamCtx())
	zzDispatchRun(proto, bolt.ProtocolName, func(id uint32, svc string, body []byte) api.XFrame {
		return bolt.NewRpcRequest(id, zzHdr{"service": svc}, buffer.NewIoBufferBytes(body))
	}, 3, 2)
}


// VerifC08_BoltMalformedHeaderDispatch: a complete bolt request frame whose header block is
// malformed (a key or value length that runs past the block; 6 arbitrary block bytes),
// followed by a well-formed request, through the real server-side Dispatch. The malformed
// request is reported to the proxy exactly once - as a decode error, so that it is answered
// with an error (C03's DecodeError harness decides that part) - or the connection is closed;
// its bytes are consumed; nothing panics.
func VerifC08_BoltMalformedHeaderDispatch() {
	verif.NoPanic()
	ctx := zzStreamCtx()
	proto := (&bolt.XCodec{}).NewXProtocol(ctx)
	srv := &zzDServer{}
	conn := &zzCloseConn{}
	sc := &streamConn{ctx: ctx, netConn: conn, ctxManager: stream.NewContextManager(ctx),
		protocol: proto, protocolName: bolt.ProtocolName, serverCallbacks: srv}
	sc.ctxManager.Next()
	hb := verif.Bytes("header_block", 6)
	f := []byte{1, 1, 0, 1, 1, 0, 0, 0, 7, 1, 0, 0, 0, 0, 0, 0, 0, byte(len(hb)), 0, 0, 0, 1}
	f = append(f, hb...)
	f = append(f, 'x')
	good := bolt.NewRpcRequest(9, zzHdr{"service": "s"}, buffer.NewIoBufferBytes([]byte("b")))
	enc, err := proto.Encode(zzStreamCtx(), good)
	verif.Assume(err == nil)
	rb := buffer.NewIoBuffer(16)
	rb.Write(f)
	rb.Write(enc.Bytes())
	for k := 0; k < 3 && rb.Len() > 0 && !conn.closed; k++ {
		before := rb.Len()
		sc.Dispatch(rb)
		verif.Assert(rb.Len() < before || conn.closed, "Dispatch made no progress on a complete frame (the read loop would spin on it)")
	}
	if conn.closed {
		return // closing the connection is the other contained outcome
	}
	verif.Assert(rb.Len() == 0, "bytes of complete frames left in the read buffer")
	verif.Assert(len(srv.got) == 2, "each of the two request frames must reach the proxy exactly once (as a request or as a decode error)")
	if len(srv.got) == 2 {
		first := srv.got[0]
		verif.Assert((first.header != nil) != (first.decodeErrors == 1), "the first request was neither delivered nor reported as a decode error exactly once")
		verif.Assert(srv.got[1].header != nil && srv.got[1].decodeErrors == 0, "the well-formed request behind a malformed one was not delivered")
		if first.decodeErrors == 1 {
			verif.Cover("decode error reported")
		}
	}
	verif.Cover("end")
}

type zzCloseConn struct {
	zzTConn
	closed bool
}

func (c *zzCloseConn) Close(api.ConnectionCloseType, api.ConnectionEvent) error {
	c.closed = true
	return nil
}

func (c *zzCloseConn) RemoteAddr() net.Addr { return nil }
func (c *zzCloseConn) LocalAddr() net.Addr  { return nil }

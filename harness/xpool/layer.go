//verif:pkg mosn.io/mosn/pkg/stream/xprotocol
package xprotocol

import (
	"context"

	gometrics "github.com/rcrowley/go-metrics"
	"mosn.io/api"
	v2 "mosn.io/mosn/pkg/config/v2"
	"mosn.io/mosn/pkg/protocol/xprotocol"
	"mosn.io/mosn/pkg/protocol/xprotocol/bolt"
	"mosn.io/mosn/pkg/types"
	"mosn.io/mosn/pkg/upstream/cluster"
	"mosn.io/mosn/pkg/zzverif/verif"
	"mosn.io/pkg/buffer"
)

// zzLConn is the upstream network connection under the real stream client and
// the real xprotocol stream connection: it records listeners, the read filter
// and writes; Close raises the close event once to every listener.
type zzLConn struct {
	types.ClientConnection
	id        uint64
	closed    bool
	listeners []api.ConnectionEventListener
	filters   []api.ReadFilter
	wrote     [][]byte
}

type zzLFM struct {
	api.FilterManager
	c *zzLConn
}

func (m *zzLFM) AddReadFilter(f api.ReadFilter) { m.c.filters = append(m.c.filters, f) }

func (c *zzLConn) ID() uint64                                               { return c.id }
func (c *zzLConn) AddConnectionEventListener(l api.ConnectionEventListener) { c.listeners = append(c.listeners, l) }
func (c *zzLConn) FilterManager() api.FilterManager                         { return &zzLFM{c: c} }
func (c *zzLConn) SetNoDelay(bool)                                          {}
func (c *zzLConn) SetCollector(read, write gometrics.Counter)               {}
func (c *zzLConn) SetTransferEventListener(func() bool)                     {}
func (c *zzLConn) Connect() error {
	for _, l := range c.listeners {
		l.OnEvent(api.Connected)
	}
	return nil
}
func (c *zzLConn) Write(bufs ...buffer.IoBuffer) error {
	if c.closed {
		return types.ErrConnectionHasClosed
	}
	for _, b := range bufs {
		c.wrote = append(c.wrote, append([]byte(nil), b.Bytes()...))
	}
	return nil
}
func (c *zzLConn) Close(ccType api.ConnectionCloseType, ev api.ConnectionEvent) error {
	if !c.closed {
		c.closed = true
		for _, l := range c.listeners {
			l.OnEvent(ev)
		}
	}
	return nil
}

type zzLHost struct {
	zzPHost
	conns []*zzLConn
}

func (h *zzLHost) CreateConnection(ctx context.Context) types.CreateConnectionData {
	c := &zzLConn{id: uint64(len(h.conns) + 1)}
	h.conns = append(h.conns, c)
	return types.CreateConnectionData{Connection: c, Host: h}
}

// zzNoHeartbeat is the bolt codec without keep-alive (timers are not the subject here).
type zzNoHBCodec struct{ *bolt.XCodec }

func (c zzNoHBCodec) NewXProtocol(ctx context.Context) api.XProtocol {
	return zzNoHBProto{c.XCodec.NewXProtocol(ctx)}
}

type zzNoHBProto struct{ api.XProtocol }

func (zzNoHBProto) Trigger(context.Context, uint64) api.XFrame { return nil }

type zzLRecv struct {
	replies int
	resets  int
}

func (r *zzLRecv) OnReceive(ctx context.Context, h api.HeaderMap, d buffer.IoBuffer, t api.HeaderMap) {
	r.replies++
}
func (r *zzLRecv) OnDecodeError(ctx context.Context, err error, h api.HeaderMap) {}

type zzLListener struct{ resets, destroys int }

func (l *zzLListener) OnResetStream(types.StreamResetReason) { l.resets++ }
func (l *zzLListener) OnDestroyStream()                      { l.destroys++ }

// VerifC09_PingPongStreamLayer: the ping-pong pool over the real stream
// client and the real xprotocol stream connection (bolt). One or two requests
// in sequence; each is written and then answered, reset locally, or its
// connection is closed by the peer. Whatever happens the request ends exactly
// once (reply, or one reset notification), its slot and gauges are released,
// a closed connection leaves the pool, and a connection that carried an
// abandoned request is not reused.
func VerifC09_PingPongStreamLayer() {
	// what the main package does at start-up: register the stream layer's actions, then the codec
	xprotocol.RegisterXProtocolAction(NewConnPool, NewStreamFactory, func(api.XProtocolCodec) {})
	_ = xprotocol.RegisterXProtocolCodec(&bolt.XCodec{})
	maxReq := uint32(verif.Choose("max_requests", 2))
	info := &zzPInfo{rm: cluster.NewResourceManager(v2.CircuitBreakers{Thresholds: []v2.Thresholds{{MaxConnections: 2, MaxRequests: maxReq}}}), st: zzPClusterStats()}
	host := &zzLHost{zzPHost: zzPHost{info: info, hs: zzPHostStats()}}
	base := &connpool{protocol: bolt.ProtocolName, codec: zzNoHBCodec{&bolt.XCodec{}}}
	base.host.Store(types.Host(host))
	pool := NewPoolPingPong(base).(*poolPingPong)
	rounds := 1 + verif.Choose("second_request", 2)
	var prevCtx context.Context
	for round := 0; round < rounds; round++ {
		rcv := &zzLRecv{}
		ctx := zzStreamCtx()
		// the second request may be the proxy's retry of the first: same request context, hence
		// the same per-request buffers and the same pooled stream object
		if round == 1 && verif.Choose("retry_same_context", 2) == 1 {
			ctx = prevCtx
			verif.Cover("retry")
		}
		prevCtx = ctx
		_, sender, reason := pool.NewStream(ctx, rcv)
		verif.Assert(sender != nil && reason == "", "a request within every limit was refused")
		if sender == nil {
			return
		}
		ls := &zzLListener{}
		sender.GetStream().AddEventListener(ls)
		before := 0
		for _, c := range host.conns {
			before += len(c.wrote)
		}
		req := bolt.NewRpcRequest(0, zzHdr{"service": "s"}, buffer.NewIoBufferBytes([]byte("b")))
		verif.Assert(sender.AppendHeaders(ctx, req, true) == nil, "request not sent")
		var used *zzLConn
		after := 0
		for _, c := range host.conns {
			after += len(c.wrote)
			if len(c.wrote) > 0 && !c.closed {
				used = c
			}
		}
		verif.Assert(after == before+1 && used != nil, "the request was not written on exactly one open connection")
		if used == nil {
			return
		}
		id := sender.GetStream().ID()
		switch verif.Choose("outcome", 3) {
		case 0: // the upstream answers
			resp := bolt.NewRpcResponse(uint32(id), bolt.ResponseStatusSuccess, zzHdr{"k": "v"}, buffer.NewIoBufferBytes([]byte("r")))
			enc, err := (&bolt.XCodec{}).NewXProtocol(ctx).Encode(zzStreamCtx(), resp)
			verif.Assume(err == nil)
			rb := buffer.NewIoBuffer(16)
			rb.Write(enc.Bytes())
			for _, f := range used.filters {
				f.OnData(rb)
			}
			verif.Assert(rcv.replies == 1, "the reply did not reach the request's receiver exactly once")
			verif.Assert(ls.destroys == 1 && ls.resets == 0, "a completed request must end exactly once, without a reset")
			verif.Assert(len(pool.idleClients) == 1 && !used.closed, "the connection of a completed request must return to the pool")
			verif.Cover("answered")
		case 1: // the peer closes the connection with the request in flight
			used.Close(api.NoFlush, api.RemoteClose)
			verif.Assert(ls.resets == 1, "a request whose connection was closed by the peer must be reset exactly once")
			verif.Assert(rcv.replies == 0, "no reply can arrive on a closed connection")
			verif.Assert(len(pool.idleClients) == 0, "a closed connection must not be in the pool")
			verif.Cover("peer-closed")
		default: // the proxy abandons the request (timeout, client gone)
			sender.GetStream().ResetStream(types.StreamLocalReset)
			verif.Assert(ls.resets == 1, "a locally reset request must be reset exactly once")
			verif.Assert(used.closed, "a connection that carried an abandoned request must be closed, not reused")
			verif.Assert(len(pool.idleClients) == 0, "a closed connection must not be in the pool")
			verif.Cover("local-reset")
		}
		open := 0
		for _, c := range host.conns {
			if !c.closed {
				open++
			}
		}
		verif.Assert(int(pool.totalClientCount.Load()) == open, "totalClientCount differs from the number of open connections")
		verif.Assert(host.hs.UpstreamConnectionActive.Count() == int64(open), "UpstreamConnectionActive differs from the number of open connections")
		verif.Assert(host.hs.UpstreamRequestActive.Count() == 0, "UpstreamRequestActive not released at the end of the request")
		if maxReq > 0 {
			verif.Assert(info.rm.Requests().Cur() == 0, "requests resource not released at the end of the request")
		}
	}
	verif.Cover("end")
}

// VerifC10_PingPongStreamLayer: the same exploration counted for C10 (the
// request slot and the active gauges are released on every way a request can
// end, also when the peer closes the connection with the request in flight).
func VerifC10_PingPongStreamLayer() {
	VerifC09_PingPongStreamLayer()
	verif.Cover("c10")
}

// VerifC09_PingPongPoolClose: the ping-pong pool holding one idle connection (a request
// was answered and its connection went back to the pool) is closed or shut down. The call
// comes back - it does not block on the pool's own lock -; after Close the connection is
// closed, gone from the pool, and the connection counters are back to zero.
func VerifC09_PingPongPoolClose() {
	xprotocol.RegisterXProtocolAction(NewConnPool, NewStreamFactory, func(api.XProtocolCodec) {})
	_ = xprotocol.RegisterXProtocolCodec(&bolt.XCodec{})
	info := &zzPInfo{rm: cluster.NewResourceManager(v2.CircuitBreakers{}), st: zzPClusterStats()}
	host := &zzLHost{zzPHost: zzPHost{info: info, hs: zzPHostStats()}}
	base := &connpool{protocol: bolt.ProtocolName, codec: zzNoHBCodec{&bolt.XCodec{}}}
	base.host.Store(types.Host(host))
	pool := NewPoolPingPong(base).(*poolPingPong)
	ctx := zzStreamCtx()
	rcv := &zzLRecv{}
	_, sender, _ := pool.NewStream(ctx, rcv)
	verif.Assert(sender != nil && len(host.conns) == 1, "the pool did not open a connection for the first request")
	if sender == nil {
		return
	}
	req := bolt.NewRpcRequest(0, zzHdr{"service": "s"}, buffer.NewIoBufferBytes([]byte("b")))
	verif.Assert(sender.AppendHeaders(ctx, req, true) == nil, "request not sent")
	resp := bolt.NewRpcResponse(uint32(sender.GetStream().ID()), bolt.ResponseStatusSuccess, zzHdr{"k": "v"}, buffer.NewIoBufferBytes([]byte("r")))
	enc, err := (&bolt.XCodec{}).NewXProtocol(ctx).Encode(zzStreamCtx(), resp)
	verif.Assume(err == nil)
	rb := buffer.NewIoBuffer(16)
	rb.Write(enc.Bytes())
	for _, f := range host.conns[0].filters {
		f.OnData(rb)
	}
	verif.Assert(rcv.replies == 1 && len(pool.idleClients) == 1, "the answered request's connection did not return to the pool")
	closing := verif.Choose("close_instead_of_shutdown", 2) == 1
	verif.MustFinish(200000, "closing (or shutting down) a ping-pong pool that holds an idle connection never returns: it blocks on the pool's own lock")
	if closing {
		pool.Close()
	} else {
		pool.Shutdown()
	}
	verif.Finished()
	if closing {
		verif.Assert(host.conns[0].closed && len(pool.idleClients) == 0, "Close left the pool's connection open or in the pool")
		verif.Assert(pool.totalClientCount.Load() == 0 && host.hs.UpstreamConnectionActive.Count() == 0, "connection counters differ from the number of open connections after Close")
	}
	verif.Cover("end")
}

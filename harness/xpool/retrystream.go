//verif:pkg mosn.io/mosn/pkg/stream/xprotocol
package xprotocol

import (
	"mosn.io/mosn/pkg/protocol/xprotocol/bolt"
	"mosn.io/mosn/pkg/stream"
	"mosn.io/mosn/pkg/types"
	"mosn.io/mosn/pkg/zzverif/verif"
)

// VerifC09_XRetryStream: a retried request asks the xprotocol connection for a
// new client stream under the same request context (the per-request buffers,
// hence the stream object, are the same). The first attempt ended by a reset
// or by its reply; the retry attempt's stream must be fresh: its end is
// reported exactly once to the listener registered for it (the pool), and the
// first attempt's listener hears nothing more.
func VerifC09_XRetryStream() {
	ctx := zzStreamCtx()
	sc := &streamConn{ctx: ctx, netConn: zzTConn{}, ctxManager: stream.NewContextManager(ctx),
		protocol: (&bolt.XCodec{}).NewXProtocol(ctx), protocolName: bolt.ProtocolName, clientCallbacks: zzTCallbacks{},
		clientStreams: map[uint64]*xStream{}}
	sc.ctxManager.Next()
	reqCtx := zzStreamCtx()
	end := func(s types.Stream, how int) {
		if how == 0 {
			s.ResetStream(types.StreamLocalReset)
		} else {
			s.DestroyStream()
		}
	}
	s1 := sc.NewStream(reqCtx, &zzTReceiver{}).GetStream()
	l1 := &zzLListener{}
	s1.AddEventListener(l1)
	how1 := verif.Choose("first_attempt_ends", 2)
	end(s1, how1)
	verif.Assert(l1.destroys == 1 && l1.resets == 1-how1, "the first attempt's end was not reported exactly once")
	s2 := sc.NewStream(reqCtx, &zzTReceiver{}).GetStream()
	l2 := &zzLListener{}
	s2.AddEventListener(l2)
	how2 := verif.Choose("second_attempt_ends", 2)
	end(s2, how2)
	verif.Assert(l2.destroys == 1 && l2.resets == 1-how2, "the retry attempt's end is not reported to its listener: its connection and request slot are never given back")
	verif.Assert(l1.destroys == 1 && l1.resets == 1-how1, "the first attempt's listener was notified again by the retry attempt")
	verif.Cover("end")
}

//verif:pkg mosn.io/mosn/pkg/filter/network/streamproxy
package streamproxy

import (
	"context"
	"errors"
	"net"
	"time"

	gometrics "github.com/rcrowley/go-metrics"
	"mosn.io/api"
	v2 "mosn.io/mosn/pkg/config/v2"
	"mosn.io/mosn/pkg/network"
	"mosn.io/mosn/pkg/types"
	"mosn.io/mosn/pkg/upstream/cluster"
	"mosn.io/mosn/pkg/zzverif/verif"
	"mosn.io/pkg/buffer"
)

type zzCtr struct{ n int64 }

func (c *zzCtr) Clear()                      { c.n = 0 }
func (c *zzCtr) Count() int64                { return c.n }
func (c *zzCtr) Dec(i int64)                 { c.n -= i }
func (c *zzCtr) Inc(i int64)                 { c.n += i }
func (c *zzCtr) Snapshot() gometrics.Counter { return c }

type zzSPInfo struct {
	types.ClusterInfo
	rm types.ResourceManager
	st *types.ClusterStats
}

func (i *zzSPInfo) Name() string                           { return "c" }
func (i *zzSPInfo) ResourceManager() types.ResourceManager { return i.rm }
func (i *zzSPInfo) Stats() *types.ClusterStats             { return i.st }

type zzSPHost struct {
	types.Host
	info *zzSPInfo
	hs   *types.HostStats
}

func (h *zzSPHost) ClusterInfo() types.ClusterInfo { return h.info }
func (h *zzSPHost) HostStats() *types.HostStats    { return h.hs }
func (h *zzSPHost) AddressString() string          { return "10.0.0.1:80" }

// zzSPConn: a connection (upstream or downstream) that records what is written
// to it and raises a close event once to its listeners.
type zzSPConn struct {
	types.ClientConnection
	dial      int // upstream only: 0 established, 1 refused, 2 timed out
	connected bool
	closed    bool
	listeners []api.ConnectionEventListener
	filters   []api.ReadFilter
	wrote     []byte
}

type zzSPFM struct {
	api.FilterManager
	c *zzSPConn
}

func (m *zzSPFM) AddReadFilter(f api.ReadFilter) { m.c.filters = append(m.c.filters, f) }

func (c *zzSPConn) ID() uint64                                               { return 1 }
func (c *zzSPConn) AddConnectionEventListener(l api.ConnectionEventListener) { c.listeners = append(c.listeners, l) }
func (c *zzSPConn) FilterManager() api.FilterManager                         { return &zzSPFM{c: c} }
func (c *zzSPConn) SetNoDelay(bool)                                          {}
func (c *zzSPConn) SetReadDisable(bool)                                      {}
func (c *zzSPConn) SetCollector(read, write gometrics.Counter)               {}
func (c *zzSPConn) RemoteAddr() net.Addr                                     { return nil }
func (c *zzSPConn) LocalAddr() net.Addr                                      { return nil }
func (c *zzSPConn) Connect() error {
	ev, err := api.Connected, error(nil)
	switch c.dial {
	case 1:
		ev, err = api.ConnectFailed, errors.New("refused")
	case 2:
		ev, err = api.ConnectTimeout, errors.New("timeout")
	default:
		c.connected = true
	}
	for _, l := range c.listeners {
		l.OnEvent(ev)
	}
	return err
}
func (c *zzSPConn) Write(bufs ...buffer.IoBuffer) error {
	for _, b := range bufs {
		c.wrote = append(c.wrote, b.Bytes()...)
	}
	return nil
}
func (c *zzSPConn) Close(ccType api.ConnectionCloseType, ev api.ConnectionEvent) error {
	if c.closed {
		return nil
	}
	c.closed = true
	if !c.connected {
		return nil // never established: no close event (network.connection.Close)
	}
	for _, l := range c.listeners {
		l.OnEvent(ev)
	}
	return nil
}

type zzSPSnap struct {
	types.ClusterSnapshot
	info  *zzSPInfo
	hosts int
}

func (s *zzSPSnap) ClusterInfo() types.ClusterInfo            { return s.info }
func (s *zzSPSnap) HostNum(api.MetadataMatchCriteria) int     { return s.hosts }

type zzSPCM struct {
	types.ClusterManager
	snap  *zzSPSnap
	host  *zzSPHost
	conns []*zzSPConn
}

func (m *zzSPCM) GetClusterSnapshot(context.Context, string) types.ClusterSnapshot { return m.snap }
func (m *zzSPCM) TCPConnForCluster(types.LoadBalancerContext, types.ClusterSnapshot) types.CreateConnectionData {
	c := &zzSPConn{dial: verif.Choose("dial_outcome", 3)}
	m.conns = append(m.conns, c)
	return types.CreateConnectionData{Connection: c, Host: m.host}
}

type zzSPCfg struct{}

func (zzSPCfg) GetRouteFromEntries(api.Connection) string { return "c" }
func (zzSPCfg) GetIdleTimeout(string) time.Duration       { return 0 }
func (zzSPCfg) GetReadTimeout(string) time.Duration       { return 0 }

type zzSPReadCB struct {
	api.ReadFilterCallbacks
	down *zzSPConn
	host api.HostInfo
}

func (r *zzSPReadCB) Connection() api.Connection     { return r.down }
func (r *zzSPReadCB) UpstreamHost() api.HostInfo     { return r.host }
func (r *zzSPReadCB) SetUpstreamHost(h api.HostInfo) { r.host = h }

// VerifC10_StreamProxyConnections: the TCP stream proxy's use of the cluster's
// connections breaker and its relay. One downstream connection; the proxy
// dials up to HostNum upstream attempts (each established, refused or timed
// out); then data flows in both directions and either side closes. At every
// point the connections resource equals the number of upstream connections
// the proxy holds (0 or 1) - never negative, back to zero when everything is
// closed - another holder's slot is respected, and bytes are relayed
// unchanged and in order in both directions (C01's TCP clause).
func VerifC10_StreamProxyConnections() {
	maxConn := uint32(verif.Choose("max_connections", 3))
	info := &zzSPInfo{rm: cluster.NewResourceManager(v2.CircuitBreakers{Thresholds: []v2.Thresholds{{MaxConnections: maxConn}}}),
		st: &types.ClusterStats{UpstreamConnectionRetry: &zzCtr{}, UpstreamConnectionConFail: &zzCtr{}, UpstreamConnectionActive: &zzCtr{}, UpstreamConnectionTotal: &zzCtr{},
			UpstreamConnectionRemoteClose: &zzCtr{}, UpstreamConnectionLocalClose: &zzCtr{}, UpstreamConnectionClose: &zzCtr{}, UpstreamBytesReadTotal: &zzCtr{}, UpstreamBytesWriteTotal: &zzCtr{}}}
	host := &zzSPHost{info: info, hs: &types.HostStats{UpstreamConnectionActive: &zzCtr{}, UpstreamConnectionTotal: &zzCtr{}, UpstreamConnectionConFail: &zzCtr{},
		UpstreamConnectionRemoteClose: &zzCtr{}, UpstreamConnectionLocalClose: &zzCtr{}, UpstreamConnectionClose: &zzCtr{}}}
	others := int64(verif.Choose("held_by_others", 2)) // another proxy instance already holds a slot
	for i := int64(0); i < others; i++ {
		info.rm.Connections().Increase()
	}
	cm := &zzSPCM{snap: &zzSPSnap{info: info, hosts: 1 + verif.Choose("hosts", 2)}, host: host}
	p := &proxy{config: zzSPCfg{}, clusterManager: cm, requestInfo: network.NewRequestInfo(), ctx: context.Background(), network: "tcp"}
	p.upstreamCallbacks = &upstreamCallbacks{proxy: p}
	p.downstreamCallbacks = &downstreamCallbacks{proxy: p}
	down := &zzSPConn{connected: true}
	p.InitializeReadFilterCallbacks(&zzSPReadCB{down: down})
	canCreate := maxConn == 0 || others < int64(maxConn)
	st := p.OnNewConnection()
	held := int64(0)
	var up *zzSPConn
	for _, c := range cm.conns {
		if c.connected && !c.closed {
			up = c
			held = 1
		}
	}
	if !canCreate {
		verif.Assert(len(cm.conns) == 0 && st == api.Stop, "an upstream connection was opened although the connections limit is reached")
		verif.Cover("overflow")
	}
	if maxConn > 0 { // a resource without a limit does not count
		verif.Assert(info.rm.Connections().Cur() == others+held, "connections resource differs from the upstream connections held (after connecting)")
	}
	if up == nil {
		verif.Assert(st == api.Stop && down.closed, "no upstream: the downstream connection must be closed")
		verif.Cover("no-upstream")
		return
	}
	verif.Cover("connected")
	// relay
	req, resp := verif.Bytes("client_bytes", 2), verif.Bytes("upstream_bytes", 2)
	p.OnData(buffer.NewIoBufferBytes(append([]byte(nil), req...)))
	for _, f := range up.filters {
		f.OnData(buffer.NewIoBufferBytes(append([]byte(nil), resp...)))
	}
	verif.Assert(string(up.wrote) == string(req), "client bytes were not relayed upstream unchanged")
	verif.Assert(string(down.wrote) == string(resp), "upstream bytes were not relayed to the client unchanged")
	// one side closes
	switch verif.Choose("closer", 3) {
	case 0:
		up.Close(api.NoFlush, api.RemoteClose) // the upstream peer closes
	case 1:
		down.Close(api.NoFlush, api.RemoteClose) // the client closes
	default:
		down.Close(api.NoFlush, api.LocalClose) // mosn closes the downstream side (idle, shutdown)
	}
	verif.Assert(up.closed && down.closed, "when one side closes the other side must be closed too")
	if maxConn > 0 {
		verif.Assert(info.rm.Connections().Cur() == others, "connections resource not back to its value before this connection (leak or double release)")
	}
	verif.Assert(info.st.UpstreamConnectionActive.Count() == 0 && host.hs.UpstreamConnectionActive.Count() == 0, "active-connection gauges not back to zero")
	verif.Cover("end")
}

// VerifC01_TCPRelay: the same exploration counted for C01 (a plain TCP proxy
// relays the bytes unchanged and in order in both directions).
func VerifC01_TCPRelay() {
	VerifC10_StreamProxyConnections()
	verif.Cover("relay")
}

//verif:pkg mosn.io/mosn/pkg/zzverif/selftest
package selftest

import (
	"encoding/binary"
	"errors"
	"fmt"
	"sort"
	"strconv"
	"strings"

	"mosn.io/mosn/pkg/zzverif/verif"
)

type shape interface{ Area() int }
type rect struct{ w, h int }
type sq struct{ s int }

func (r rect) Area() int { return r.w * r.h }
func (s *sq) Area() int  { return s.s * s.s }

func VerifSELF_Arith() {
	x := verif.U32("x")
	x8, y := verif.U8("x8"), verif.U8("y")
	verif.Assume(y != 0)
	q, r := x8/y, x8%y
	verif.Assert(q*y+r == x8, "division identity")
	var i8 int8 = int8(verif.U8("b"))
	verif.Assert(int(i8) >= -128 && int(i8) <= 127, "int8 range")
	verif.Assert(uint32(int32(x)>>31) == 0 || x >= 1<<31, "arith shift sign")
	sh := uint(verif.U8("sh"))
	verif.Assert(sh < 32 || x<<sh == 0, "shift >= width is zero")
	verif.Cover("end")
}

func VerifSELF_Binary() {
	b := verif.Bytes("b", 8)
	v := binary.BigEndian.Uint32(b[2:])
	out := make([]byte, 4)
	binary.BigEndian.PutUint32(out, v)
	verif.Assert(out[0] == b[2] && out[1] == b[3] && out[2] == b[4] && out[3] == b[5], "be32 roundtrip")
	w := binary.LittleEndian.Uint16(b)
	verif.Assert(byte(w) == b[0] && byte(w>>8) == b[1], "le16")
	verif.Cover("end")
}

func VerifSELF_Slices() {
	n := verif.Len("n", 0, 5)
	s := verif.Bytes("s", n)
	t := append([]byte{}, s...)
	t = append(t, 7)
	verif.Assert(len(t) == n+1 && t[n] == 7, "append")
	if n >= 2 {
		u := s[1:2]
		u[0] = 9
		verif.Assert(s[1] == 9, "aliasing")
		u = append(u, 1, 2, 3, 4, 5, 6, 7, 8, 9)
		u[0] = 3
		verif.Assert(s[1] == 9, "append realloc breaks aliasing")
	}
	i := verif.IntRange("i", 0, 7)
	arr := [8]byte{1, 2, 3, 4, 5, 6, 7, 8}
	verif.Assert(int(arr[i]) == i+1, "symbolic index read")
	buf := make([]byte, 8)
	buf[i] = 5
	cnt := 0
	for _, x := range buf {
		if x == 5 {
			cnt++
		}
	}
	verif.Assert(cnt == 1, "symbolic index write")
	verif.Cover("end")
}

func VerifSELF_Maps() {
	m := map[string]int{}
	k := verif.Str("k", 2)
	m["ab"] = 1
	m[k] = 2
	if k == "ab" {
		verif.Assert(len(m) == 1 && m["ab"] == 2, "same key overwrites")
		verif.Cover("same")
	} else {
		verif.Assert(len(m) == 2 && m["ab"] == 1, "different key")
		verif.Cover("diff")
	}
	delete(m, "ab")
	_, ok := m["ab"]
	verif.Assert(!ok, "deleted")
	sum := 0
	for _, v := range m {
		sum += v
	}
	verif.Assert(sum == 0 || sum == 2, "range sum")
	verif.Cover("end")
}

func mayPanic(b []byte, i int) (v byte, err error) {
	defer func() {
		if r := recover(); r != nil {
			err = errors.New("recovered")
		}
	}()
	return b[i], nil
}

func VerifSELF_Panics() {
	b := verif.Bytes("b", 3)
	i := verif.IntRange("i", 0, 5)
	v, err := mayPanic(b, i)
	if i < 3 {
		verif.Assert(err == nil && v == b[i], "in range")
		verif.Cover("in")
	} else {
		verif.Assert(err != nil && err.Error() == "recovered", "recovered")
		verif.Cover("out")
	}
	order := ""
	func() {
		defer func() { order += "a" }()
		defer func() { order += "b" }()
	}()
	verif.Assert(order == "ba", "defer order")
	verif.Cover("end")
}

func VerifSELF_Iface() {
	var s shape
	w := int(verif.U8("w"))
	if verif.Bool("c") {
		s = rect{w, 2}
	} else {
		s = &sq{w}
	}
	a := s.Area()
	switch t := s.(type) {
	case rect:
		verif.Assert(a == 2*t.w, "rect area")
		verif.Cover("rect")
	case *sq:
		verif.Assert(a == t.s*t.s, "sq area")
		verif.Cover("sq")
	}
	f := func(k int) func() int { return func() int { k++; return k } }(w)
	f()
	verif.Assert(f() == w+2, "closure capture")
	verif.Cover("end")
}

func VerifSELF_Strings() {
	s := verif.Str("s", 3)
	for i := 0; i < len(s); i++ {
		verif.Assume(s[i] < 0x80)
	}
	up := strings.ToUpper(s)
	verif.Assert(len(up) == 4 || true, "upper len")
	idx := strings.IndexByte(s, ':')
	if idx >= 0 {
		verif.Assert(s[idx] == ':', "indexbyte")
		verif.Cover("colon")
	}
	verif.Assert(strings.HasPrefix(s+"x", s), "prefix")
	e := fmt.Errorf("bad %d %s", 3, "x")
	verif.Assert(e.Error() == "bad 3 x", "errorf")
	n := verif.Len("n", 95, 105)
	str := strconv.Itoa(n)
	back, err := strconv.Atoi(str)
	verif.Assert(err == nil && back == n, "itoa/atoi")
	xs := []int{int(verif.U8("a")), int(verif.U8("b")), int(verif.U8("c"))}
	sort.Ints(xs)
	verif.Assert(xs[0] <= xs[1] && xs[1] <= xs[2], "sorted")
	verif.Cover("end")
}

func VerifSELF_Violation() {
	x := verif.U8("x")
	verif.Assert(x != 77, "expected-violation x==77")
	verif.Cover("end")
}

// VerifSELF_BoolKeyMap: composite map literal keyed by bool, indexed by a symbolic / forked bool.
func VerifSELF_BoolKeyMap() {
	b := verif.Choose("b", 2) == 1
	got := map[bool]string{true: "T", false: "F"}[b]
	want := "F"
	if b {
		want = "T"
	}
	verif.Assert(got == want, "bool-keyed map literal lookup")
	sb := verif.Bool("sb")
	got2 := map[bool]int{true: 1, false: 2}[sb]
	want2 := 2
	if sb {
		want2 = 1
	}
	verif.Assert(got2 == want2, "bool-keyed map literal lookup (symbolic key)")
	verif.Cover("end")
}

//verif:pkg mosn.io/mosn/pkg/module/http2
package http2

import (
	"bytes"
	"context"

	"mosn.io/mosn/pkg/module/http2/hpack"
	"mosn.io/mosn/pkg/zzverif/verif"
	"mosn.io/pkg/buffer"
)

type zzH2Frame struct {
	typ    FrameType
	stream uint32
	length uint32
	fields string
	data   []byte
}

// zzH2Stream: what a client writes on a fresh connection - preface, SETTINGS,
// a request whose header block is split over HEADERS + two CONTINUATION frames, a DATA
// frame with symbolic payload, a second request in one HEADERS frame, a
// WINDOW_UPDATE and a PING. Built with the real frame writer and HPACK encoder.
func zzH2Stream() []byte {
	var wire bytes.Buffer
	wire.WriteString(ClientPreface)
	fw := NewFramer(&wire, nil)
	fw.WriteSettings()
	var hbuf bytes.Buffer
	enc := hpack.NewEncoder(&hbuf)
	block := func(path string, extra bool) []byte {
		hbuf.Reset()
		enc.WriteField(hpack.HeaderField{Name: ":method", Value: "POST"})
		enc.WriteField(hpack.HeaderField{Name: ":scheme", Value: "http"})
		enc.WriteField(hpack.HeaderField{Name: ":authority", Value: "a.b"})
		enc.WriteField(hpack.HeaderField{Name: ":path", Value: path})
		if extra {
			enc.WriteField(hpack.HeaderField{Name: "x-k", Value: "v"})
		}
		return append([]byte(nil), hbuf.Bytes()...)
	}
	b1 := block("/one", true)
	third := len(b1) / 3
	fw.WriteHeaders(HeadersFrameParam{StreamID: 1, BlockFragment: b1[:third], EndStream: false, EndHeaders: false})
	fw.WriteContinuation(1, false, b1[third:2*third])
	fw.WriteContinuation(1, true, b1[2*third:])
	fw.WriteData(1, true, verif.Bytes("payload", 3))
	fw.WriteHeaders(HeadersFrameParam{StreamID: 3, BlockFragment: block("/two", false), EndStream: true, EndHeaders: true})
	fw.WriteWindowUpdate(0, 7)
	fw.WritePing(false, [8]byte{1, 2, 3, 4, 5, 6, 7, 8})
	return wire.Bytes()
}

// zzH2Feed delivers chunks to a fresh server-side MFramer the way the read
// loop does: append, then extract frames until the framer asks for more.
func zzH2Feed(chunks [][]byte) (frames []zzH2Frame, left int, failed bool) {
	sc := NewServerConn(nil)
	ctx := context.Background()
	rb := buffer.NewIoBuffer(64)
	preface := false
	for _, c := range chunks {
		rb.Write(c)
		if !preface {
			if e := sc.Framer.ReadPreface(rb); e == ErrAGAIN {
				continue
			} else if e != nil {
				return frames, rb.Len(), true
			}
			preface = true
		}
		for i := 0; i < 16; i++ {
			f, _, e := sc.Framer.ReadFrame(ctx, rb, 0)
			if e == ErrAGAIN {
				break
			}
			if e != nil {
				return frames, rb.Len(), true
			}
			h := f.Header()
			r := zzH2Frame{typ: h.Type, stream: h.StreamID, length: h.Length}
			switch t := f.(type) {
			case *MetaHeadersFrame:
				for _, hf := range t.Fields {
					r.fields += hf.Name + "=" + hf.Value + ";"
				}
			case *DataFrame:
				r.data = append([]byte{}, t.Data()...)
			}
			frames = append(frames, r)
		}
	}
	return frames, rb.Len(), false
}

// VerifC07_H2Segmentation: the frames MOSN's HTTP/2 framer extracts from a
// connection (preface, SETTINGS, HEADERS+CONTINUATION, DATA, HEADERS,
// WINDOW_UPDATE, PING) do not depend on where the stream is cut into reads.
func VerifC07_H2Segmentation() {
	s := zzH2Stream()
	whole, wleft, wfail := zzH2Feed([][]byte{s})
	verif.Assert(!wfail && wleft == 0 && len(whole) == 6, "the complete stream must yield SETTINGS, HEADERS(1), DATA, HEADERS(3), WINDOW_UPDATE, PING")
	cut := verif.Concrete(verif.IntRange("cut", 0, len(s)))
	cut2 := cut
	if verif.Tier() == 1 {
		cut2 = verif.Concrete(verif.IntRange("cut2", cut, len(s)))
	}
	got, left, fail := zzH2Feed([][]byte{s[:cut], s[cut:cut2], s[cut2:]})
	verif.Assert(!fail, "a valid HTTP/2 stream failed when delivered in pieces")
	verif.Assert(left == 0, "bytes left over after piecewise delivery")
	verif.Assert(len(got) == len(whole), "piecewise delivery yields a different number of frames")
	if len(got) == len(whole) {
		for i := range got {
			same := got[i].typ == whole[i].typ && got[i].stream == whole[i].stream && got[i].length == whole[i].length &&
				got[i].fields == whole[i].fields && string(got[i].data) == string(whole[i].data)
			verif.Assert(same, "piecewise delivery changed a frame")
		}
	}
	verif.Cover("end")
}

// VerifC18_H2Segmentation: the same exploration counted for C18 - a valid
// frame sequence with a header block spread over HEADERS and CONTINUATION
// frames parses to the same frames as in one piece wherever the reads are cut
// (the framer's order-tracking state is part of what a retry must restore).
func VerifC18_H2Segmentation() {
	VerifC07_H2Segmentation()
	verif.Cover("c18")
}

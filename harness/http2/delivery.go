//verif:pkg mosn.io/mosn/pkg/module/http2
package http2

import (
	"mosn.io/api"
	"mosn.io/mosn/pkg/zzverif/verif"
	"mosn.io/pkg/buffer"
)

// zzRecConn records the DATA frames written to the peer.
type zzRecConn struct {
	api.Connection
	data   []byte // concatenated DATA payloads
	frames int
	maxLen int
	ended  bool
	bad    bool
}

func (c *zzRecConn) State() api.ConnState { return api.ConnActive }
func (c *zzRecConn) Write(bufs ...buffer.IoBuffer) error {
	for _, b := range bufs {
		p := b.Bytes()
		if len(p) < frameHeaderLen {
			c.bad = true
			continue
		}
		n := int(p[0])<<16 | int(p[1])<<8 | int(p[2])
		if FrameType(p[3]) != FrameData {
			continue
		}
		if n != len(p)-frameHeaderLen || c.ended {
			c.bad = true
		}
		c.frames++
		if n > c.maxLen {
			c.maxLen = n
		}
		c.data = append(c.data, p[frameHeaderLen:]...)
		if Flags(p[4])&FlagDataEndStream != 0 {
			c.ended = true
		}
	}
	return nil
}

// zzDelivery: a body writer (the real loop over awaitFlowControl and the
// framer) against a peer that starts with arbitrary small stream and
// connection windows and grants more through WINDOW_UPDATE frames (the real
// processWindowUpdate) of arbitrary size, on the stream or the connection, in
// any order. At every moment the DATA bytes sent stay within both granted
// windows; once both grants cover the body the writer finishes, and the peer
// has received exactly the body, in order.
func zzDelivery(rec *zzRecConn, n int, body []byte, streamID uint32, connFlow, streamFlow *flow, write func() error, update func(*WindowUpdateFrame) error, wantEnd bool) {
	rounds := verif.Param("delivery_updates", 3, 4)
	sw, cw := verif.IntRange("stream_window", 0, n), verif.IntRange("conn_window", 0, n)
	streamFlow.n, connFlow.n = int32(sw), int32(cw)
	var err error
	done := false
	go func() {
		err = write()
		done = true
	}()
	for r := 0; r < rounds; r++ {
		verif.Settle()
		verif.Assert(len(rec.data) <= sw && len(rec.data) <= cw, "more DATA was sent than the peer's stream or connection window allows")
		if done {
			break
		}
		inc := verif.IntRange("increment", 1, n)
		id := uint32(0)
		if verif.Bool("on_stream") {
			id = streamID
			sw += inc
		} else {
			cw += inc
		}
		f := &WindowUpdateFrame{FrameHeader: FrameHeader{valid: true, Type: FrameWindowUpdate, Length: 4, StreamID: id}, Increment: uint32(inc)}
		verif.Assert(update(f) == nil, "a legal WINDOW_UPDATE was refused")
	}
	verif.Settle()
	verif.Assert(!rec.bad, "a malformed DATA frame (length field differs from the payload, or DATA after END_STREAM) was written")
	verif.Assert(len(rec.data) <= sw && len(rec.data) <= cw, "more DATA was sent than the peer's stream or connection window allows")
	if sw >= n && cw >= n {
		verif.Assert(done && err == nil, "the body writer did not finish although both windows cover the body")
		verif.Assert(len(rec.data) == n, "the peer did not receive the complete body")
		same := len(rec.data) == n
		for i := 0; same && i < n; i++ {
			if rec.data[i] != body[i] {
				same = false
			}
		}
		verif.Assert(same, "the body arrived altered or out of order")
		if wantEnd {
			verif.Assert(rec.ended, "the body was not ended with END_STREAM")
		}
		verif.Cover("delivered")
	} else {
		verif.Assert(!done, "the body writer finished although a window does not cover the body")
		verif.Cover("still-waiting")
	}
}

// VerifC18_ClientBodyDelivery: the request body writer of the upstream side
// (writeDataAndTrailer), ended by END_STREAM.
func VerifC18_ClientBodyDelivery() {
	verif.Switches(0)
	n := verif.Param("delivery_body", 3, 4)
	rec := &zzRecConn{}
	cc := NewClientConn(rec)
	cs := cc.newStream()
	cc.streams[cs.ID] = cs
	body := verif.Bytes("body", n)
	mcs := &MClientStream{clientStream: cs, conn: cc, SendData: buffer.NewIoBufferBytes(append([]byte{}, body...))}
	zzDelivery(rec, n, body, cs.ID, &cc.flow, &cs.flow, mcs.writeDataAndTrailer, cc.processWindowUpdate, true)
	verif.Cover("end")
}

// VerifC18_ServerBodyDelivery: the response body writer of the downstream
// side (MStream.WriteData).
func VerifC18_ServerBodyDelivery() {
	verif.Switches(0)
	DebugGoroutines = false
	n := verif.Param("delivery_body", 3, 4)
	rec := &zzRecConn{}
	sc := NewServerConn(rec)
	st := &stream{id: 1, state: stateOpen}
	st.flow.conn = &sc.flow
	sc.streams[1] = st
	sc.maxClientStreamID = 1
	body := verif.Bytes("body", n)
	ms := &MStream{stream: st, conn: sc, SendData: buffer.NewIoBufferBytes(append([]byte{}, body...))}
	zzDelivery(rec, n, body, 1, &sc.flow, &st.flow, ms.WriteData, sc.processWindowUpdate, false)
	verif.Cover("end")
}

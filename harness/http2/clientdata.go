//verif:pkg mosn.io/mosn/pkg/module/http2
package http2

import (
	"context"
	"net/http"

	"mosn.io/api"
	"mosn.io/mosn/pkg/zzverif/verif"
	"mosn.io/pkg/buffer"
)

type zzSinkConn struct{ api.Connection }

func (zzSinkConn) Write(...buffer.IoBuffer) error { return nil }
func (zzSinkConn) State() api.ConnState          { return api.ConnActive }

// VerifC08_H2ClientData: one DATA frame from the upstream peer, handled by the
// upstream-side connection in an arbitrary state (known or unknown stream,
// response HEADERS seen or not, GET or HEAD, stream already reset or not,
// arbitrary non-negative receive windows, padding). Whatever the frame - also
// one that violates flow control or the protocol - the handler returns (a
// result or an error for that stream / connection) and leaves no connection
// mutex locked: a misbehaving peer costs its own connection, it cannot wedge
// the goroutines that tear it down.
func VerifC08_H2ClientData() {
	verif.NoPanic()
	// logging (the standard logger on stderr) has an empty body
	verif.Replace("(*mosn.io/mosn/pkg/module/http2.ClientConn).logf", func(cc *ClientConn, format string, args ...interface{}) {})
	verif.Replace("(*mosn.io/mosn/pkg/module/http2.ClientConn).vlogf", func(cc *ClientConn, format string, args ...interface{}) {})
	ctx := context.Background()
	cc := NewClientConn(zzSinkConn{})
	cs := cc.newStream()
	which := verif.Choose("stream", 3) // open, already cancelled/finished (forgotten), never opened
	if which == 0 {
		cc.streams[cs.ID] = cs // as WriteHeaders does once the request headers are written
	}
	cs.req = &http.Request{Method: []string{"GET", "HEAD"}[verif.Choose("method", 2)]}
	cs.firstByte = verif.Choose("headers_seen", 2) == 1
	cs.didReset = verif.Choose("did_reset", 2) == 1
	cs.inflow.n = verif.I32("stream_window")
	cc.inflow.n = verif.I32("conn_window")
	verif.Assume(cs.inflow.n >= 0 && cc.inflow.n >= cs.inflow.n) // the stream window is part of the connection window
	id := cs.ID
	if which == 2 {
		id = cs.ID + 2 // never opened
	}
	payload := verif.Bytes("data", verif.Len("data_len", 0, 3))
	length := uint32(len(payload)) + uint32(verif.Choose("padding", 3))
	var flags Flags
	if verif.Choose("end_stream", 2) == 1 {
		flags |= FlagDataEndStream
	}
	f := &DataFrame{FrameHeader: FrameHeader{valid: true, Type: FrameData, Flags: flags, Length: length, StreamID: id}, data: payload}
	if id == cs.ID {
		verif.Cover("known")
	}
	before := cs.inflow.n
	_, err := cc.processData(ctx, f)
	if ce, ok := err.(ConnectionError); ok && ErrCode(ce) == ErrCodeFlowControl {
		verif.Assert(before < int32(length), "flow-control error although the frame fits the stream window")
		verif.Cover("flow-control-error")
	}
	if err == nil {
		verif.Cover("accepted")
	}
	if se, ok := err.(StreamError); ok {
		if se.Code == ErrCodeProtocol {
			verif.Cover("stream-protocol-error")
		} else {
			verif.Cover("stream-closed")
		}
	}
	if ce, ok := err.(ConnectionError); ok && ErrCode(ce) == ErrCodeProtocol {
		verif.Cover("conn-protocol-error")
	}
	okMu := cc.mu.TryLock()
	verif.Assert(okMu, "the connection mutex is left locked after a DATA frame: every later operation on this connection blocks")
	if okMu {
		cc.mu.Unlock()
	}
	okW := cc.wmu.TryLock()
	verif.Assert(okW, "the connection's write mutex is left locked after a DATA frame")
	if okW {
		cc.wmu.Unlock()
	}
	verif.Cover("end")
}

//verif:pkg mosn.io/mosn/pkg/module/http2
package http2

import (
	"mosn.io/mosn/pkg/zzverif/verif"
)

func zzSettings(id SettingID, val uint32) *SettingsFrame {
	p := []byte{byte(id >> 8), byte(id), byte(val >> 24), byte(val >> 16), byte(val >> 8), byte(val)}
	return &SettingsFrame{FrameHeader: FrameHeader{valid: true, Type: FrameSettings, Length: 6}, p: p}
}

// VerifC18_ClientSettingsWindow: the upstream peer changes
// SETTINGS_INITIAL_WINDOW_SIZE twice (arbitrary values 0..2^31-1) with a
// request stream open and an arbitrary part of its body already sent. After
// each change the stream's send window is the new initial size minus what was
// sent (RFC 7540 6.9.2), whatever the previous value was. And a sender that
// waits because the window was exhausted (or zero from the start) goes on as
// soon as a SETTINGS frame makes the window positive - it does not need a
// WINDOW_UPDATE on top.
func VerifC18_ClientSettingsWindow() {
	verif.Switches(0)
	cc := NewClientConn(zzSinkConn{})
	cs := cc.newStream()
	cc.streams[cs.ID] = cs // as WriteHeaders does
	mcs := &MClientStream{clientStream: cs, conn: cc}
	cc.flow.n = 1<<31 - 1 // the connection window is not the subject
	w1, w2 := verif.U32("initial_window_1"), verif.U32("initial_window_2")
	verif.Assume(w1 <= 1<<31-1 && w2 <= 1<<31-1)
	verif.Assert(cc.processSettings(zzSettings(SettingInitialWindowSize, w1)) == nil, "a valid SETTINGS frame was refused")
	verif.Assert(int64(cs.flow.n) == int64(w1), "after SETTINGS_INITIAL_WINDOW_SIZE the send window of an open stream is not the new initial size")
	var sent int64
	if w1 > 0 && verif.Bool("send_some") {
		t, err := mcs.awaitFlowControl(verif.IntRange("body_part", 1, 1<<20))
		verif.Assert(err == nil && t > 0, "no progress although the window is positive")
		sent = int64(t)
		verif.Cover("sent-some")
	}
	if int64(w1)-sent > 0 || w2 == 0 {
		// no sender waiting
		verif.Assert(cc.processSettings(zzSettings(SettingInitialWindowSize, w2)) == nil, "a valid SETTINGS frame was refused")
		verif.Assert(int64(cs.flow.n) == int64(w2)-sent, "after a second SETTINGS_INITIAL_WINDOW_SIZE the send window is not the new initial size minus the bytes sent")
		verif.Cover("adjusted")
		verif.Cover("end")
		return
	}
	// the window is exhausted: a sender waits, the peer reopens it with SETTINGS only
	var taken int32
	var err error
	done := false
	go func() {
		taken, err = mcs.awaitFlowControl(1 << 20)
		done = true
	}()
	verif.Settle()
	verif.Assert(!done, "sent DATA although the stream window is exhausted")
	verif.Assert(cc.processSettings(zzSettings(SettingInitialWindowSize, w2)) == nil, "a valid SETTINGS frame was refused")
	verif.Settle()
	if int64(w2)-sent <= 0 {
		verif.Assert(!done, "sent DATA although the stream window is still exhausted after the SETTINGS change")
		verif.Cover("still-exhausted")
		return
	}
	verif.Assert(done, "a sender waiting for window is not woken when SETTINGS_INITIAL_WINDOW_SIZE reopens the stream window: the body is never completed")
	if done {
		verif.Assert(err == nil && taken > 0 && int64(taken) <= int64(w2)-sent, "the woken sender took more than the reopened window")
	}
	verif.Cover("woken")
	verif.Cover("end")
}

// VerifC08_H2ClientSettings: one SETTINGS parameter with an arbitrary
// identifier and value from the upstream peer. Either the frame is refused
// (connection error, costs that connection) or the sender still makes
// progress afterwards: with both windows positive a body write takes between
// 1 byte and what it asked for - it neither spins on empty DATA frames nor
// computes a negative length (which slices out of range).
func VerifC08_H2ClientSettings() {
	verif.NoPanic()
	verif.Switches(0)
	cc := NewClientConn(zzSinkConn{})
	cs := cc.newStream()
	cc.streams[cs.ID] = cs
	mcs := &MClientStream{clientStream: cs, conn: cc}
	id, val := SettingID(verif.U32("setting_id")&0xffff), verif.U32("setting_value")
	err := cc.processSettings(zzSettings(id, val))
	if err != nil {
		_, isConn := err.(ConnectionError)
		verif.Assert(isConn, "a refused SETTINGS frame must be a connection error")
		verif.Cover("refused")
		return
	}
	verif.Cover("accepted")
	cc.flow.n, cs.flow.n = 1000, 1000
	ask := verif.IntRange("body_len", 1, 1<<20)
	taken, err := mcs.awaitFlowControl(ask)
	verif.Assert(err == nil, "await failed on an open stream")
	verif.Assert(taken > 0, "after an accepted SETTINGS frame a body write takes nothing or a negative amount: the sender spins on empty DATA frames or slices out of range")
	verif.Assert(int(taken) <= ask && taken <= 1000, "a body write took more than asked or than the window")
	verif.Cover("end")
}

// VerifC18_ServerSettingsWindow: the same for the downstream side: the client
// changes SETTINGS_INITIAL_WINDOW_SIZE twice with a response stream open and
// part of the response body sent; a response writer waiting for window goes
// on when SETTINGS reopens it.
func VerifC18_ServerSettingsWindow() {
	verif.Switches(0)
	DebugGoroutines = false // the package's own tests switch this debugging aid on; production default is off
	sc := NewServerConn(zzSinkConn{})
	st := &stream{id: 1, state: stateOpen}
	st.flow.conn = &sc.flow
	st.flow.add(sc.initialStreamSendWindowSize)
	sc.streams[1] = st
	ms := &MStream{stream: st, conn: sc}
	sc.flow.n = 1<<31 - 1
	w1, w2 := verif.U32("initial_window_1"), verif.U32("initial_window_2")
	verif.Assume(w1 <= 1<<31-1 && w2 <= 1<<31-1)
	verif.Assert(sc.processSettings(zzSettings(SettingInitialWindowSize, w1)) == nil, "a valid SETTINGS frame was refused")
	verif.Assert(int64(st.flow.n) == int64(w1), "after SETTINGS_INITIAL_WINDOW_SIZE the send window of an open stream is not the new initial size")
	var sent int64
	if w1 > 0 && verif.Bool("send_some") {
		t, err := ms.awaitFlowControl(verif.IntRange("body_part", 1, 1<<20))
		verif.Assert(err == nil && t > 0, "no progress although the window is positive")
		sent = int64(t)
		verif.Cover("sent-some")
	}
	if int64(w1)-sent > 0 || w2 == 0 {
		verif.Assert(sc.processSettings(zzSettings(SettingInitialWindowSize, w2)) == nil, "a valid SETTINGS frame was refused")
		verif.Assert(int64(st.flow.n) == int64(w2)-sent, "after a second SETTINGS_INITIAL_WINDOW_SIZE the send window is not the new initial size minus the bytes sent")
		verif.Cover("adjusted")
		verif.Cover("end")
		return
	}
	var taken int32
	var err error
	done := false
	go func() {
		taken, err = ms.awaitFlowControl(1 << 20)
		done = true
	}()
	verif.Settle()
	verif.Assert(!done, "sent DATA although the stream window is exhausted")
	verif.Assert(sc.processSettings(zzSettings(SettingInitialWindowSize, w2)) == nil, "a valid SETTINGS frame was refused")
	verif.Settle()
	if int64(w2)-sent <= 0 {
		verif.Assert(!done, "sent DATA although the stream window is still exhausted after the SETTINGS change")
		verif.Cover("still-exhausted")
		return
	}
	verif.Assert(done, "a response writer waiting for window is not woken when SETTINGS_INITIAL_WINDOW_SIZE reopens the stream window")
	if done {
		verif.Assert(err == nil && taken > 0 && int64(taken) <= int64(w2)-sent, "the woken writer took more than the reopened window")
	}
	verif.Cover("woken")
	verif.Cover("end")
}

// VerifC08_H2ServerSettings: one arbitrary SETTINGS parameter from a client:
// refused with a connection error, or the response writer still makes
// progress afterwards.
func VerifC08_H2ServerSettings() {
	verif.NoPanic()
	verif.Switches(0)
	DebugGoroutines = false // the package's own tests switch this debugging aid on; production default is off
	sc := NewServerConn(zzSinkConn{})
	st := &stream{id: 1, state: stateOpen}
	st.flow.conn = &sc.flow
	st.flow.add(sc.initialStreamSendWindowSize)
	sc.streams[1] = st
	ms := &MStream{stream: st, conn: sc}
	id, val := SettingID(verif.U32("setting_id")&0xffff), verif.U32("setting_value")
	err := sc.processSettings(zzSettings(id, val))
	if err != nil {
		_, isConn := err.(ConnectionError)
		verif.Assert(isConn, "a refused SETTINGS frame must be a connection error")
		verif.Cover("refused")
		return
	}
	verif.Cover("accepted")
	sc.flow.n, st.flow.n = 1000, 1000
	ask := verif.IntRange("body_len", 1, 1<<20)
	taken, err := ms.awaitFlowControl(ask)
	verif.Assert(err == nil, "await failed on an open stream")
	verif.Assert(taken > 0, "after an accepted SETTINGS frame a body write takes nothing or a negative amount: the sender spins on empty DATA frames or slices out of range")
	verif.Assert(int(taken) <= ask && taken <= 1000, "a body write took more than asked or than the window")
	verif.Cover("end")
}

// VerifC18_ServerTwoWriters: two response writers of one downstream
// connection wait for window on different streams (both stream windows
// exhausted). The client grants window to one of them - the one that started
// waiting first or the other - with a stream-level WINDOW_UPDATE: the writer
// of that stream goes on (whichever waiter a single wake-up would pick), the
// other keeps waiting. Then the second stream is granted window too.
func VerifC18_ServerTwoWriters() {
	verif.Switches(0)
	DebugGoroutines = false
	sc := NewServerConn(zzSinkConn{})
	mk := func(id uint32) (*stream, *MStream) {
		st := &stream{id: id, state: stateOpen}
		st.flow.conn = &sc.flow
		sc.streams[id] = st
		return st, &MStream{stream: st, conn: sc}
	}
	_, msA := mk(1)
	_, msB := mk(3)
	sc.maxClientStreamID = 3
	sc.flow.n = 1 << 20
	doneA, doneB := false, false
	var tA, tB int32
	go func() { tA, _ = msA.awaitFlowControl(100); doneA = true }()
	verif.Settle()
	go func() { tB, _ = msB.awaitFlowControl(100); doneB = true }()
	verif.Settle()
	verif.Assert(!doneA && !doneB, "DATA was sent on a stream with an exhausted window")
	first := uint32(1 + 2*verif.Choose("granted_first", 2))
	upd := func(id uint32) {
		f := &WindowUpdateFrame{FrameHeader: FrameHeader{valid: true, Type: FrameWindowUpdate, Length: 4, StreamID: id}, Increment: 50}
		verif.Assert(sc.processWindowUpdate(f) == nil, "a legal WINDOW_UPDATE was refused")
		verif.Settle()
	}
	upd(first)
	if first == 1 {
		verif.Assert(doneA && tA == 50, "the writer of the stream that was granted window did not go on (the body is never completed)")
		verif.Assert(!doneB, "a writer went on without window")
	} else {
		verif.Assert(doneB && tB == 50, "the writer of the stream that was granted window did not go on (the body is never completed)")
		verif.Assert(!doneA, "a writer went on without window")
	}
	upd(4 - first)
	verif.Assert(doneA && doneB && tA == 50 && tB == 50, "after both streams were granted window a writer is still waiting")
	verif.Cover("end")
}

// VerifC18_ClientTwoWriters: the same for two request body writers of one
// upstream connection.
func VerifC18_ClientTwoWriters() {
	verif.Switches(0)
	cc := NewClientConn(zzSinkConn{})
	csA := cc.newStream()
	cc.streams[csA.ID] = csA
	csB := cc.newStream()
	cc.streams[csB.ID] = csB
	csA.flow.n, csB.flow.n = 0, 0
	cc.flow.n = 1 << 20
	mA := &MClientStream{clientStream: csA, conn: cc}
	mB := &MClientStream{clientStream: csB, conn: cc}
	doneA, doneB := false, false
	var tA, tB int32
	go func() { tA, _ = mA.awaitFlowControl(100); doneA = true }()
	verif.Settle()
	go func() { tB, _ = mB.awaitFlowControl(100); doneB = true }()
	verif.Settle()
	verif.Assert(!doneA && !doneB, "DATA was sent on a stream with an exhausted window")
	ids := []uint32{csA.ID, csB.ID}
	k := verif.Choose("granted_first", 2)
	upd := func(id uint32) {
		f := &WindowUpdateFrame{FrameHeader: FrameHeader{valid: true, Type: FrameWindowUpdate, Length: 4, StreamID: id}, Increment: 50}
		verif.Assert(cc.processWindowUpdate(f) == nil, "a legal WINDOW_UPDATE was refused")
		verif.Settle()
	}
	upd(ids[k])
	if k == 0 {
		verif.Assert(doneA && tA == 50, "the writer of the stream that was granted window did not go on (the body is never completed)")
		verif.Assert(!doneB, "a writer went on without window")
	} else {
		verif.Assert(doneB && tB == 50, "the writer of the stream that was granted window did not go on (the body is never completed)")
		verif.Assert(!doneA, "a writer went on without window")
	}
	upd(ids[1-k])
	verif.Assert(doneA && doneB && tA == 50 && tB == 50, "after both streams were granted window a writer is still waiting")
	verif.Cover("end")
}

//verif:pkg mosn.io/mosn/pkg/module/http2
package http2

import (
	"bytes"
	"context"

	"mosn.io/mosn/pkg/module/http2/hpack"
	"mosn.io/mosn/pkg/zzverif/verif"
	"mosn.io/pkg/buffer"
)

// VerifC08_H2Continuations: a request's header block delivered as HEADERS
// followed by 0..3 CONTINUATION frames (a valid sequence, the block cut at
// arbitrary places), all bytes available: the frame reader comes back - it
// neither loops nor grows - and yields the one header list that was encoded,
// for the server-side and the client-side framer.
func VerifC08_H2Continuations() {
	verif.NoPanic()
	var hbuf bytes.Buffer
	enc := hpack.NewEncoder(&hbuf)
	enc.WriteField(hpack.HeaderField{Name: ":method", Value: "POST"})
	enc.WriteField(hpack.HeaderField{Name: ":scheme", Value: "http"})
	enc.WriteField(hpack.HeaderField{Name: ":authority", Value: "a.b"})
	enc.WriteField(hpack.HeaderField{Name: ":path", Value: "/one"})
	enc.WriteField(hpack.HeaderField{Name: "x-k", Value: "v"})
	block := append([]byte(nil), hbuf.Bytes()...)
	k := verif.Choose("continuations", 4)
	// k cut points, each anywhere in the block (non-decreasing)
	cuts := []int{0}
	for i := 0; i < k; i++ {
		c := cuts[len(cuts)-1] + verif.Choose("cut_step", 4)
		if i == 0 {
			c++ // the HEADERS frame's own fragment is not empty here (the empty one is VerifC18_EmptyHeadersFragment's subject)
		}
		if c > len(block) {
			c = len(block)
		}
		cuts = append(cuts, c)
	}
	cuts = append(cuts, len(block))
	var wire bytes.Buffer
	fw := NewFramer(&wire, nil)
	fw.WriteHeaders(HeadersFrameParam{StreamID: 1, BlockFragment: block[cuts[0]:cuts[1]], EndStream: true, EndHeaders: k == 0})
	for i := 1; i <= k; i++ {
		fw.WriteContinuation(1, i == k, block[cuts[i]:cuts[i+1]])
	}
	sc := NewServerConn(nil)
	rb := buffer.NewIoBuffer(64)
	rb.Write([]byte(ClientPreface))
	verif.Assert(sc.Framer.ReadPreface(rb) == nil, "valid preface refused")
	rb.Write(wire.Bytes())
	verif.MustFinish(400000, "the frame reader does not return for a HEADERS frame followed by CONTINUATION frames (it re-reads the same frame forever)")
	f, _, err := sc.Framer.ReadFrame(context.Background(), rb, 0)
	verif.Finished()
	verif.Assert(err == nil && f != nil, "a valid HEADERS + CONTINUATION sequence was rejected")
	if err != nil || f == nil {
		return
	}
	mh, ok := f.(*MetaHeadersFrame)
	verif.Assert(ok, "HEADERS + CONTINUATION must give one header list")
	if ok {
		got := ""
		for _, hf := range mh.Fields {
			got += hf.Name + "=" + hf.Value + ";"
		}
		verif.Assert(got == ":method=POST;:scheme=http;:authority=a.b;:path=/one;x-k=v;", "the header list differs from what was encoded")
		verif.Assert(rb.Len() == 0, "bytes of the header block left in the read buffer")
	}
	if k >= 2 {
		verif.Cover("two-or-more-continuations")
	}
	verif.Cover("end")
}

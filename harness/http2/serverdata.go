//verif:pkg mosn.io/mosn/pkg/module/http2
package http2

import (
	"context"

	"mosn.io/mosn/pkg/zzverif/verif"
)

// VerifC08_H2ServerData: one DATA frame from a downstream client, handled by
// the downstream-side connection in an arbitrary state (open / half-closed /
// closed / never opened stream, trailers seen, reset queued, declared body
// length, receive windows anywhere in [0, 2^30], padding, GOAWAY sent).
// Whatever the frame, the handler returns a result or an error for that
// stream / connection, never panics (window bookkeeping included) and leaves
// the connection mutex unlocked; it accepts no more than the stream window.
func VerifC08_H2ServerData() {
	verif.NoPanic()
	DebugGoroutines = false
	sc := NewServerConn(zzSinkConn{})
	which := verif.Choose("stream", 4) // open, half-closed remote, closed (forgotten), never opened
	st := &stream{id: 1, state: stateOpen}
	st.inflow.conn = &sc.inflow
	st.flow.conn = &sc.flow
	sc.maxClientStreamID = 1
	if which == 1 {
		st.state = stateHalfClosedRemote
	}
	if which <= 1 {
		sc.streams[1] = st
	}
	st.gotTrailerHeader = verif.Choose("trailers_seen", 2) == 1
	st.resetQueued = verif.Choose("reset_queued", 2) == 1
	st.declBodyBytes = []int64{-1, 0, 2}[verif.Choose("declared_length", 3)]
	if verif.Choose("goaway_sent", 2) == 1 {
		sc.inGoAway, sc.goAwayCode = true, ErrCodeProtocol
	}
	st.inflow.n = verif.I32("stream_window")
	sc.inflow.n = verif.I32("conn_window")
	verif.Assume(st.inflow.n >= 0 && st.inflow.n <= 1<<30 && sc.inflow.n >= 0 && sc.inflow.n <= 1<<30)
	id := uint32(1)
	if which == 3 {
		id = 3
	}
	payload := verif.Bytes("data", verif.Len("data_len", 0, 3))
	length := uint32(len(payload)) + uint32(verif.Choose("padding", 3))
	var flags Flags
	if verif.Choose("end_stream", 2) == 1 {
		flags |= FlagDataEndStream
	}
	f := &DataFrame{FrameHeader: FrameHeader{valid: true, Type: FrameData, Flags: flags, Length: length, StreamID: id}, data: payload}
	before, connBefore := st.inflow.n, sc.inflow.n
	if before > sc.inflow.n {
		before = sc.inflow.n
	}
	_, err := sc.processData(context.Background(), f)
	if err == nil && which == 0 && !sc.inGoAway && length > 0 {
		if st.resetQueued || st.gotTrailerHeader {
			// the frame is discarded (a reset is already on its way); only the connection window is enforced
			verif.Assert(int64(length) <= int64(connBefore), "a discarded DATA frame larger than the connection receive window was let through")
			verif.Cover("discarded")
		} else {
			verif.Assert(int64(length) <= int64(before), "a DATA frame larger than the receive window was accepted")
			verif.Cover("accepted")
		}
	}
	if _, ok := err.(StreamError); ok {
		verif.Cover("stream-error")
	}
	if _, ok := err.(ConnectionError); ok {
		verif.Cover("conn-error")
	}
	okMu := sc.mu.TryLock()
	verif.Assert(okMu, "the connection mutex is left locked after a DATA frame: every later operation on this connection blocks")
	if okMu {
		sc.mu.Unlock()
	}
	verif.Cover("end")
}

//verif:pkg mosn.io/mosn/pkg/module/http2
package http2

import (
	"context"
	"errors"

	"mosn.io/mosn/pkg/module/http2/hpack"
	"mosn.io/mosn/pkg/zzverif/verif"
	"mosn.io/pkg/buffer"
)

// VerifC08_H2FrameArbitrary: one arbitrary HTTP/2 frame (any type, any flags,
// any stream id, payload of 0..N arbitrary bytes, the announced length equal
// to, below or above what was delivered) after a valid preface never panics
// MOSN's frame parser: it yields a frame, asks for more bytes, or returns an
// error. A frame whose announced length exceeds what was delivered consumes
// nothing. The HPACK decoder is replaced by an arbitrary accept/refuse verdict (stated cut).
func VerifC08_H2FrameArbitrary() {
	verif.NoPanic()
	// the HPACK decoder forks on every symbolic byte and is bounded separately
	// (VerifC18_HpackDecodeDiff_T); here a header block fragment is accepted or refused arbitrarily
	verif.Replace("(*mosn.io/mosn/pkg/module/http2/hpack.Decoder).Write", func(d *hpack.Decoder, p []byte) (int, error) {
		if verif.Choose("hpack_verdict", 2) == 1 {
			return 0, hpack.DecodingError{Err: zzErrStub}
		}
		return len(p), nil
	})
	side := verif.Choose("side", 2)
	n := verif.Len("payload_len", 0, verif.Param("h2payload", 7, 9))
	announced := n
	switch verif.Choose("announced", 3) {
	case 1:
		announced = n + 1 + verif.Choose("missing", 3) // incomplete frame
	case 2:
		if n > 0 {
			announced = n - 1 // a second, truncated frame header follows
		}
	}
	typ := uint8(verif.Choose("type", 11)) // DATA .. CONTINUATION and one unknown type
	flags := verif.U8("flags")
	stream := verif.U32("stream")
	payload := verif.Bytes("payload", n)
	wire := []byte{byte(announced >> 16), byte(announced >> 8), byte(announced), typ, flags,
		byte(stream >> 24), byte(stream >> 16), byte(stream >> 8), byte(stream)}
	wire = append(wire, payload...)
	ctx := context.Background()
	rb := buffer.NewIoBuffer(64)
	var fr *MFramer
	if side == 0 {
		sc := NewServerConn(nil)
		fr = sc.Framer
		rb.Write([]byte(ClientPreface))
		verif.Assert(fr.ReadPreface(rb) == nil, "valid preface refused")
	} else {
		cc := NewClientConn(nil)
		fr = cc.Framer
	}
	rb.Write(wire)
	before := rb.Len()
	f, _, err := fr.ReadFrame(ctx, rb, 0)
	switch {
	case err == ErrAGAIN:
		if announced > n {
			verif.Assert(rb.Len() == before, "an incomplete frame must consume nothing")
		}
		verif.Cover("again")
	case err != nil:
		if _, isStream := err.(StreamError); isStream {
			// the stream layer resets that stream and keeps the connection: the frame must be gone
			verif.Assert(rb.Len() <= before-9-announced, "a frame refused with a stream error (the connection stays open) is left in the read buffer: every later read re-parses it and no later frame of the connection is handled")
			verif.Cover("stream-error")
		}
		verif.Cover("error")
	default:
		verif.Assert(f != nil, "no error and no frame")
		verif.Assert(announced <= n, "a frame was produced from fewer bytes than its header announces")
		verif.Assert(rb.Len() <= before-9-announced, "frame extraction consumed less than the frame")
		verif.Cover("frame")
	}
	verif.Cover("end")
}

var zzErrStub = errors.New("stub")

//verif:pkg mosn.io/mosn/pkg/module/http2
package http2

import (
	"sync"

	"mosn.io/api"
	"mosn.io/mosn/pkg/zzverif/verif"
)

type zzConn struct {
	api.Connection
	closed bool
}

func (c *zzConn) State() api.ConnState {
	if c.closed {
		return api.ConnClosed
	}
	return api.ConnActive
}

// VerifC18_FlowArith: flow.add admits exactly the increments that do not
// overflow int32; take debits stream and connection alike; available is the
// minimum of the two.
func VerifC18_FlowArith() {
	fn, n := verif.I32("fn"), verif.I32("n")
	f := flow{n: fn}
	ok := f.add(n)
	sum := int64(fn) + int64(n)
	fits := sum <= 1<<31-1 && sum >= -(1 << 31)
	verif.Assert(ok == fits, "flow.add must accept exactly the non-overflowing increments")
	if ok {
		verif.Assert(int64(f.n) == sum, "flow.add result")
	} else {
		verif.Assert(f.n == fn, "a refused increment must leave the window unchanged")
	}
	cn, sn := verif.I32("cn"), verif.I32("sn")
	cf := flow{n: cn}
	sf := flow{n: sn}
	sf.setConnFlow(&cf)
	a := sf.available()
	verif.Assert(a <= cn && a <= sn && (a == cn || a == sn), "available is the smaller window")
	t := verif.I32("t")
	verif.Assume(t >= 0 && t <= a)
	sf.take(t)
	verif.Assert(sf.n == sn-t && cf.n == cn-t, "take debits both windows by the amount taken")
	verif.Cover("end")
}

type zzAwaiter func(maxBytes int) (int32, error)

// zzAwaitStep: one awaitFlowControl call from an arbitrary flow state with an
// environment that, while the sender waits, applies one WINDOW_UPDATE to each
// window (through the real flow.add) or closes the stream.
func zzAwaitStep(mu *sync.Mutex, cond *sync.Cond, connFlow, streamFlow *flow, maxFrame uint32, closeStream func(), await zzAwaiter, closedErr error) {
	verif.Switches(0) // the environment runs exactly when the sender blocks in cond.Wait
	verif.Assume(maxFrame >= 16384 && maxFrame <= 1<<24-1)
	cw, sw := verif.I32("connwin"), verif.I32("streamwin")
	connFlow.n, streamFlow.n = cw, sw
	streamFlow.setConnFlow(connFlow)
	maxBytes := verif.IntRange("maxbytes", 1, 1<<30)
	closed := false
	waits := !(cw > 0 && sw > 0)
	if waits {
		doClose := verif.Bool("close")
		inc1, inc2 := verif.I32("inc_conn"), verif.I32("inc_stream")
		verif.Assume(inc1 >= 0 && inc2 >= 0)
		go func() {
			mu.Lock()
			if doClose {
				closeStream()
				closed = true
			} else {
				okc := connFlow.add(inc1)
				oks := streamFlow.add(inc2)
				// a peer whose update overflows the window is a protocol error (not modelled);
				// and the environment wakes the sender only when there is something to send
				verif.Assume(okc && oks && connFlow.n > 0 && streamFlow.n > 0)
			}
			cond.Broadcast()
			mu.Unlock()
		}()
	}
	taken, err := await(maxBytes)
	c1, s1 := connFlow.n, streamFlow.n
	if closed {
		verif.Assert(err == closedErr && taken == 0, "a closed stream sends nothing")
		verif.Cover("closed")
		return
	}
	verif.Assert(err == nil, "await failed although the stream is open")
	verif.Assert(taken > 0, "no progress although both windows are positive")
	verif.Assert(int64(taken) <= int64(maxFrame), "a DATA frame may not exceed the peer's max frame size")
	verif.Assert(int(taken) <= maxBytes, "cannot take more than there is to send")
	verif.Assert(c1 >= 0 && s1 >= 0, "a window went negative by sending")
	if !waits {
		verif.Assert(taken <= cw && taken <= sw, "sent more than a window allowed")
		verif.Assert(c1 == cw-taken && s1 == sw-taken, "both windows are debited by exactly what was sent")
		verif.Cover("direct")
	} else {
		verif.Cover("waited")
	}
}

func VerifC18_ServerAwait() {
	sc := &MServerConn{}
	sc.Connection = &zzConn{}
	sc.cond = sync.NewCond(&sc.mu)
	sc.maxFrameSize = int32(verif.U32("maxframe") & 0x7fffffff)
	st := &stream{state: stateOpen}
	ms := &MStream{stream: st, conn: sc}
	zzAwaitStep(&sc.mu, sc.cond, &sc.flow, &st.flow, uint32(sc.maxFrameSize), func() { st.state = stateClosed }, ms.awaitFlowControl, errStreamClosed)
	verif.Cover("end")
}

func VerifC18_ClientAwait() {
	cc := &MClientConn{}
	cc.Connection = &zzConn{}
	cc.cond = sync.NewCond(&cc.mu)
	cc.maxFrameSize = verif.U32("maxframe")
	cs := &clientStream{done: make(chan struct{})}
	mcs := &MClientStream{clientStream: cs, conn: cc}
	zzAwaitStep(&cc.mu, cc.cond, &cc.flow, &cs.flow, cc.maxFrameSize, func() { close(cs.done) }, mcs.awaitFlowControl, errStreamClosed)
	verif.Cover("end")
}

//verif:pkg mosn.io/mosn/pkg/module/http2
package http2

import (
	"bytes"

	"mosn.io/api"
	"mosn.io/mosn/pkg/zzverif/verif"
	"mosn.io/pkg/buffer"
)

// zzWireConn records the raw bytes written to the connection.
type zzWireConn struct {
	api.Connection
	wire []byte
}

func (c *zzWireConn) State() api.ConnState { return api.ConnActive }
func (c *zzWireConn) Write(bufs ...buffer.IoBuffer) error {
	for _, b := range bufs {
		c.wire = append(c.wire, b.Bytes()...)
	}
	return nil
}

// VerifC18_HeaderBlockFragments: how the upstream side cuts an encoded request
// header block into one HEADERS frame and CONTINUATION frames for the peer's
// maximum frame size: a block of 1 .. 3*max+1 arbitrary bytes (max 4: lengths
// below, at and above every multiple of the frame size). Read back by the
// reference framer: HEADERS first, then CONTINUATION frames only, all on the
// request's stream, no fragment above the maximum, the fragments concatenate
// to the block, END_STREAM as asked on the HEADERS frame, and END_HEADERS on
// the last frame and on no other - a block that fills its last frame exactly
// is terminated too.
func VerifC18_HeaderBlockFragments() {
	const max = 4
	n := 1 + verif.Choose("block_len", 3*max+1)
	block := verif.Bytes("block", n)
	endStream := verif.Choose("end_stream", 2) == 1
	rec := &zzWireConn{}
	cc := NewClientConn(rec)
	err := cc.writeHeaders(5, endStream, max, append([]byte{}, block...))
	verif.Assert(err == nil, "writing a header block failed")
	fr := NewFramer(nil, bytes.NewReader(rec.wire))
	var got []byte
	frames := 0
	ended := false
	for {
		f, err := fr.ReadFrame()
		if err != nil {
			break
		}
		verif.Assert(!ended, "a frame follows the frame that carries END_HEADERS")
		frames++
		switch t := f.(type) {
		case *HeadersFrame:
			verif.Assert(frames == 1, "a HEADERS frame that is not the first frame of the block")
			verif.Assert(t.StreamID == 5 && t.StreamEnded() == endStream, "HEADERS frame on another stream or with another END_STREAM than asked")
			verif.Assert(len(t.HeaderBlockFragment()) <= max, "a fragment above the peer's maximum frame size")
			got = append(got, t.HeaderBlockFragment()...)
			ended = t.HeadersEnded()
		case *ContinuationFrame:
			verif.Assert(frames > 1 && t.StreamID == 5, "a CONTINUATION frame first, or on another stream")
			verif.Assert(len(t.HeaderBlockFragment()) <= max, "a fragment above the peer's maximum frame size")
			got = append(got, t.HeaderBlockFragment()...)
			ended = t.HeadersEnded()
		default:
			verif.Assert(false, "a frame other than HEADERS / CONTINUATION inside a header block")
		}
	}
	verif.Assert(string(got) == string(block), "the fragments do not concatenate to the header block")
	verif.Assert(ended, "the header block is never terminated: its last frame lacks END_HEADERS (the peer answers the next frame with a connection error)")
	verif.Assert(frames == (n+max-1)/max, "the block was not cut into ceil(len/max) frames")
	verif.Cover("end")
}

//verif:pkg mosn.io/mosn/pkg/module/http2
package http2

import (
	"context"

	"mosn.io/mosn/pkg/zzverif/verif"
	"mosn.io/pkg/buffer"
)

func zzFrame(typ FrameType, flags Flags, stream uint32, payload []byte) []byte {
	n := len(payload)
	w := []byte{byte(n >> 16), byte(n >> 8), byte(n), byte(typ), byte(flags), byte(stream >> 24), byte(stream >> 16), byte(stream >> 8), byte(stream)}
	return append(w, payload...)
}

// VerifC08_H2StreamErrorThenNext: a complete frame that is refused with a
// stream-level error (WINDOW_UPDATE with a zero increment on a stream, a
// HEADERS frame whose padding exceeds its payload, a header block - in one
// HEADERS frame or continued - with an upper-case field name or a pseudo
// header after a regular one) is followed by a PING frame. The stream layer
// keeps the connection after a stream error, so the next read must yield the
// PING with its payload - the refused frame may not be parsed again (it would
// be refused forever, nothing behind it would ever be handled, and a header
// block would go through the HPACK decoder once per read).
func VerifC08_H2StreamErrorThenNext() {
	verif.NoPanic()
	side := verif.Choose("side", 2)
	var bad []byte
	kind := verif.Choose("bad_frame", 4)
	// a literal header field without indexing, new name: 0x00 len name len value
	block := []byte{0x00, 0x01, 'A', 0x01, 'b'}
	if kind == 3 {
		block = []byte{0x00, 0x01, 'a', 0x01, 'b', 0x00, 0x02, ':', 'x', 0x01, 'b'}
	}
	switch kind {
	case 0:
		bad = zzFrame(FrameWindowUpdate, 0, 1, []byte{0, 0, 0, 0})
	case 1:
		bad = zzFrame(FrameHeaders, FlagHeadersPadded|FlagHeadersEndHeaders, 1, []byte{200, 0x82})
	default:
		cut := verif.Choose("continuation_at", len(block)+1) // 0 = one frame
		if cut == 0 {
			bad = zzFrame(FrameHeaders, FlagHeadersEndHeaders|FlagHeadersEndStream, 1, block)
		} else {
			bad = zzFrame(FrameHeaders, FlagHeadersEndStream, 1, block[:cut])
			bad = append(bad, zzFrame(FrameContinuation, FlagContinuationEndHeaders, 1, block[cut:])...)
		}
	}
	ping := verif.Bytes("ping", 8)
	ctx := context.Background()
	rb := buffer.NewIoBuffer(128)
	var fr *MFramer
	if side == 0 {
		fr = NewServerConn(nil).Framer
		rb.Write([]byte(ClientPreface))
		verif.Assert(fr.ReadPreface(rb) == nil, "valid preface refused")
	} else {
		fr = NewClientConn(nil).Framer
	}
	rb.Write(bad)
	rb.Write(zzFrame(FramePing, 0, 0, ping))
	_, _, err := fr.ReadFrame(ctx, rb, 0)
	_, isStream := err.(StreamError)
	verif.Assert(isStream, "expected a stream error for this frame")
	if !isStream {
		return
	}
	f, _, err2 := fr.ReadFrame(ctx, rb, 0)
	verif.Assert(err2 == nil, "after a stream error the next read fails again: the refused frame is still in the read buffer and nothing behind it is ever handled")
	if err2 != nil {
		return
	}
	pf, ok := f.(*PingFrame)
	verif.Assert(ok, "the frame after the refused one is not the PING that was sent")
	if ok {
		same := true
		for i := 0; i < 8; i++ {
			if pf.Data[i] != ping[i] {
				same = false
			}
		}
		verif.Assert(same, "the PING payload was altered")
	}
	verif.Assert(rb.Len() == 0, "bytes are left over after both frames were read")
	verif.Cover("end")
}

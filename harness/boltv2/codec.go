//verif:pkg mosn.io/mosn/pkg/protocol/xprotocol/boltv2
package boltv2

import (
	"context"

	"mosn.io/api"
	"mosn.io/mosn/pkg/protocol/xprotocol/bolt"
	"mosn.io/mosn/pkg/zzverif/verif"
	"mosn.io/pkg/buffer"
	"mosn.io/pkg/variable"
)

func zzCtx() context.Context {
	return variable.NewVariableContext(context.Background())
}

// zzReadBuffer models a connection read buffer: the received bytes followed by
// 64 bytes of stale capacity that were never received.
func zzReadBuffer(s []byte) api.IoBuffer {
	return buffer.NewIoBufferBytes(verif.WithStaleCap(s, 64))
}

// VerifC08_BoltV2Arbitrary: arbitrary bytes into the bolt decoder.
func VerifC08_BoltV2Arbitrary() {
	verif.NoPanic()
	n := verif.Len("n", 0, verif.Param("N", 32, 36))
	s := verif.Bytes("s", n)
	verif.AllocLimit(n + 64)
	if n > 0 {
		verif.Assume(s[0] != 0x01) // 0x01 is delegated to the bolt v1 codec (own harness)
	}
	buf := zzReadBuffer(s)
	frame, err := boltv2Protocol{}.Decode(zzCtx(), buf)
	left := buf.Len()
	switch {
	case frame == nil && err == nil:
		verif.Assert(left == n, "need-more must not consume")
		verif.Cover("need-more")
	case err != nil:
		verif.Cover("error")
	default:
		verif.Assert(left < n, "a decoded frame must consume at least one byte (progress)")
		verif.Cover("frame")
	}
	verif.Assert(left <= n, "cannot consume more than delivered")
	verif.Assert(verif.StaleReads() == 0, "engine: decoder read bytes that were never received")
	verif.Cover("end")
}

type zzRec struct {
	consumed int
	raw      []byte
	id       uint64
	kind     int
}

// zzDecodeAll mirrors streamConn.Dispatch: decode until the buffer is empty, a
// partial frame remains, or an error occurs.
func zzDecodeAll(ctx context.Context, buf api.IoBuffer, max int) (recs []zzRec, failed bool) {
	for i := 0; i < max; i++ {
		if buf.Len() == 0 {
			return
		}
		before := buf.Len()
		frame, err := boltv2Protocol{}.Decode(ctx, buf)
		if frame == nil && err == nil {
			return
		}
		if err != nil {
			return recs, true
		}
		xf := frame.(api.XFrame)
		r := zzRec{consumed: before - buf.Len(), id: xf.GetRequestId(), kind: int(xf.GetStreamType())}
		switch f := frame.(type) {
		case *Request:
			r.raw = append([]byte{}, f.rawData...)
		case *Response:
			r.raw = append([]byte{}, f.rawData...)
		}
		recs = append(recs, r)
	}
	return
}

func zzSameRecs(a, b []zzRec) bool {
	if len(a) != len(b) {
		return false
	}
	for i := range a {
		if a[i].consumed != b[i].consumed || a[i].id != b[i].id || a[i].kind != b[i].kind || string(a[i].raw) != string(b[i].raw) {
			return false
		}
	}
	return true
}

// VerifC07_BoltV2Cut: delivering a byte stream in two chunks yields the same
// frames as delivering it whole; an incomplete frame consumes nothing.
func VerifC07_BoltV2Cut() {
	n := verif.Len("n", 0, verif.Param("N", 26, 30))
	s := verif.Bytes("s", n)
	if n > 0 {
		verif.Assume(s[0] != 0x01)
	}
	whole, wfail := zzDecodeAll(zzCtx(), zzReadBuffer(s), 4)
	verif.Assume(!wfail)
	cut := verif.IntRange("cut", 0, n)
	cutc := verif.Concrete(cut)
	buf := buffer.NewIoBufferBytes(verif.WithStaleCap(append([]byte{}, s[:cutc]...), 64))
	ctx := zzCtx()
	part, pfail := zzDecodeAll(ctx, buf, 4)
	verif.Assert(!pfail, "prefix of a valid stream must not fail to decode")
	rest := buf.Len()
	sum := 0
	for _, r := range part {
		sum += r.consumed
	}
	verif.Assert(sum+rest == cutc, "bytes lost or duplicated across the cut")
	buf.Write(s[cutc:])
	part2, pfail2 := zzDecodeAll(ctx, buf, 4)
	verif.Assert(!pfail2, "remainder of a valid stream must not fail to decode")
	part = append(part, part2...)
	verif.Assert(zzSameRecs(whole, part), "segmentation changed the extracted frames")
	verif.Assert(verif.StaleReads() == 0, "engine: decoder read bytes that were never received")
	if len(whole) == 1 {
		verif.Cover("one-frame")
	}
	verif.Cover("end")
}

// zzFrame builds one well-formed bolt v2 frame from the documented layout
// (protocol.go): the shape (type, class/header/content lengths) is a forked
// choice, every other byte is symbolic.
func zzFrame(tag string, rich bool) []byte {
	kind := verif.Choose(tag+".kind", 3) // 0 request, 1 oneway, 2 response
	cl, kl, vl, ct, hdr := 0, 0, 0, 0, 0
	if rich {
		cl = 2 * verif.Choose(tag+".cl", 2)
		hdr = verif.Choose(tag+".hdr", 2)
		ct = 3 * verif.Choose(tag+".ct", 2)
	} else {
		ct = verif.Choose(tag+".ct", 2)
	}
	hl := 0
	if hdr == 1 {
		kl, vl = 1, 1
		hl = 4 + kl + 4 + vl
	}
	meta := RequestHeaderLen
	if kind == 2 {
		meta = ResponseHeaderLen
	}
	b := verif.Bytes(tag, meta+cl+hl+ct)
	b[0] = ProtocolCode
	switch kind {
	case 0:
		b[2] = bolt.CmdTypeRequest
	case 1:
		b[2] = bolt.CmdTypeRequestOneway
	default:
		b[2] = bolt.CmdTypeResponse
	}
	o := meta - 8 // classLen(2) headerLen(2) contentLen(4) end the fixed part
	b[o], b[o+1] = 0, byte(cl)
	b[o+2], b[o+3] = 0, byte(hl)
	b[o+4], b[o+5], b[o+6], b[o+7] = 0, 0, 0, byte(ct)
	if hdr == 1 {
		h := meta + cl
		b[h], b[h+1], b[h+2], b[h+3] = 0, 0, 0, byte(kl)
		b[h+4+kl], b[h+5+kl], b[h+6+kl], b[h+7+kl] = 0, 0, 0, byte(vl)
	}
	return b
}

// VerifC07_BoltV2Stream: a concatenation of well-formed frames, cut at an
// arbitrary offset, yields exactly those frames, in order, each once.
func VerifC07_BoltV2Stream() {
	nf := 2
	var s []byte
	var lens []int
	for i := 0; i < nf; i++ {
		f := zzFrame("f"+string(rune('0'+i)), i == 0)
		lens = append(lens, len(f))
		s = append(s, f...)
	}
	n := len(s)
	cutc := verif.Concrete(verif.IntRange("cut", 0, n))
	buf := buffer.NewIoBufferBytes(verif.WithStaleCap(append([]byte{}, s[:cutc]...), 64))
	ctx := zzCtx()
	got, fail := zzDecodeAll(ctx, buf, 4)
	verif.Assert(!fail, "prefix of a valid stream failed to decode")
	// frames complete within the prefix must have come out, and nothing else
	complete, off := 0, 0
	for _, l := range lens {
		if off+l > cutc {
			break
		}
		complete++
		off += l
	}
	verif.Assert(len(got) == complete, "frames extracted from the prefix differ from the complete frames it holds")
	verif.Assert(buf.Len() == cutc-off, "an incomplete frame must consume nothing")
	buf.Write(s[cutc:])
	got2, fail2 := zzDecodeAll(ctx, buf, 4)
	verif.Assert(!fail2, "remainder of a valid stream failed to decode")
	got = append(got, got2...)
	verif.Assert(len(got) == nf && buf.Len() == 0, "every frame exactly once, no byte left")
	off = 0
	for i, l := range lens {
		if i < len(got) {
			verif.Assert(got[i].consumed == l && string(got[i].raw) == string(s[off:off+l]), "frame bytes attributed wrongly")
		}
		off += l
	}
	verif.Assert(verif.StaleReads() == 0, "engine: decoder read bytes that were never received")
	verif.Cover("end")
}

// zzIDField is where the documented layout keeps the request id.
const zzIDField = 6

func zzCheckForwarded(out, orig []byte, id uint64) {
	verif.Assert(len(out) == len(orig), "forwarded frame length differs from the received frame")
	if len(out) != len(orig) {
		return
	}
	var diff byte
	for i := range orig {
		if i >= zzIDField && i < zzIDField+4 {
			diff |= out[i] ^ byte(id>>(8*uint(zzIDField+3-i)))
		} else {
			diff |= out[i] ^ orig[i]
		}
	}
	verif.Assert(diff == 0, "forwarded bytes differ from the received bytes outside the request-id field")
}

// VerifC01_BoltV2Fast: decode, retarget the request id, encode: byte identity,
// even when the connection's read buffer is reused in between.
func VerifC01_BoltV2Fast() {
	f := zzFrame("f", true)
	orig := append([]byte{}, f...)
	rb := verif.WithStaleCap(f, 64)
	buf := buffer.NewIoBufferBytes(rb)
	ctx := zzCtx()
	frame, err := boltv2Protocol{}.Decode(ctx, buf)
	verif.Assert(frame != nil && err == nil, "well-formed frame must decode")
	if frame == nil {
		return
	}
	id := verif.U64("id")
	frame.(api.XFrame).SetRequestId(id)
	verif.Havoc(rb) // the read buffer is reused by the next read
	out, err := boltv2Protocol{}.Encode(ctx, frame)
	verif.Assert(err == nil && out != nil, "encode of an unmodified frame failed")
	if out == nil {
		return
	}
	zzCheckForwarded(out.Bytes(), orig, id)
	verif.Cover("end")
}

type zzKV struct{ k, v string }

// VerifC01_BoltV2Slow: one header or body mutation, then Encode and Decode
// again: what is on the wire is exactly the modified frame, with length
// fields that match.
func VerifC01_BoltV2Slow() {
	f := zzFrame("f", true)
	ctx := zzCtx()
	rb := verif.WithStaleCap(f, 64)
	frame, err := boltv2Protocol{}.Decode(ctx, buffer.NewIoBufferBytes(rb))
	verif.Assert(frame != nil && err == nil, "well-formed frame must decode")
	if frame == nil {
		return
	}
	xf := frame.(api.XFrame)
	hm := xf.GetHeader()
	var want []zzKV
	hm.Range(func(k, v string) bool { want = append(want, zzKV{k, v}); return true })
	class := ""
	switch t := frame.(type) {
	case *Request:
		class = t.Class
	case *Response:
		class = t.Class
	}
	body := []byte{}
	if d := xf.GetData(); d != nil {
		body = append(body, d.Bytes()...)
	}
	verif.Havoc(rb) // the connection's read buffer is reused before the frame is forwarded
	var replaced api.IoBuffer
	switch verif.Choose("op", 4) {
	case 0: // set (existing or new key, decided by the symbolic key byte)
		k := verif.Str("k", 1)
		v := verif.Str("v", verif.Choose("vl", 3))
		hm.Set(k, v)
		found := false
		for i := range want {
			if want[i].k == k {
				want[i].v = v
				found = true
			}
		}
		if !found {
			want = append(want, zzKV{k, v})
		}
		verif.Cover("set")
	case 1: // delete
		k := verif.Str("k", 1)
		hm.Del(k)
		var nw []zzKV
		for _, kv := range want {
			if kv.k != k {
				nw = append(nw, kv)
			}
		}
		want = nw
		verif.Cover("del")
	case 2: // replace body
		nb := verif.Bytes("nb", verif.Choose("nbl", 4))
		replaced = buffer.NewIoBufferBytes(nb)
		xf.SetData(replaced)
		body = nb
		verif.Cover("setdata")
	default: // set then delete the same key
		k := verif.Str("k", 1)
		hm.Set(k, "x")
		hm.Del(k)
		var nw []zzKV
		for _, kv := range want {
			if kv.k != k {
				nw = append(nw, kv)
			}
		}
		want = nw
	}
	id := verif.U64("id")
	xf.SetRequestId(id)
	out, err := boltv2Protocol{}.Encode(ctx, frame)
	verif.Assert(err == nil && out != nil, "encode of a modified frame failed")
	if out == nil {
		return
	}
	wire := append([]byte{}, out.Bytes()...)
	// a retry encodes the same frame object again: it must come out the same - also when the
	// stream layer hands the frame its (replaced) body once more, as xStream.AppendData does on
	// every attempt
	if replaced != nil && verif.Choose("retry_sets_body_again", 2) == 1 {
		xf.SetData(replaced)
		verif.Cover("retry-setdata")
	}
	out2, err2 := boltv2Protocol{}.Encode(ctx, frame)
	verif.Assert(err2 == nil && out2 != nil, "second encode of the same frame failed")
	if out2 != nil {
		verif.Assert(string(out2.Bytes()) == string(wire), "encoding the same modified frame a second time (a retry) gives different bytes")
	}
	frame2, err := boltv2Protocol{}.Decode(zzCtx(), buffer.NewIoBufferBytes(verif.WithStaleCap(wire, 64)))
	verif.Assert(frame2 != nil && err == nil, "re-encoded frame does not decode")
	if frame2 == nil {
		return
	}
	xf2 := frame2.(api.XFrame)
	var got []zzKV
	xf2.GetHeader().Range(func(k, v string) bool { got = append(got, zzKV{k, v}); return true })
	verif.Assert(len(got) == len(want), "header pair count differs after re-encode")
	if len(got) == len(want) {
		for i := range got {
			verif.Assert(got[i].k == want[i].k && got[i].v == want[i].v, "header pair differs after re-encode")
		}
	}
	body2 := []byte{}
	if d := xf2.GetData(); d != nil {
		body2 = d.Bytes()
	}
	verif.Assert(string(body2) == string(body), "body differs after re-encode")
	verif.Assert(xf2.GetRequestId() == uint64(uint32(id)), "request id differs after re-encode")
	verif.Assert(xf2.GetStreamType() == xf.GetStreamType(), "frame type differs after re-encode")
	hl := 0
	for _, kv := range want {
		hl += 8 + len(kv.k) + len(kv.v)
	}
	meta := RequestHeaderLen
	class2 := ""
	switch t := frame2.(type) {
	case *Request:
		class2 = t.Class
		o := frame.(*Request)
		verif.Assert(t.CmdCode == o.CmdCode && t.Version == o.Version && t.Codec == o.Codec && t.Timeout == o.Timeout, "fixed request fields differ after re-encode")
		verif.Assert(int(t.ClassLen) == len(class) && int(t.HeaderLen) == hl && int(t.ContentLen) == len(body), "length fields do not match what was written")
	case *Response:
		meta = ResponseHeaderLen
		class2 = t.Class
		o := frame.(*Response)
		verif.Assert(t.CmdCode == o.CmdCode && t.Version == o.Version && t.Codec == o.Codec && t.ResponseStatus == o.ResponseStatus, "fixed response fields differ after re-encode")
		verif.Assert(int(t.ClassLen) == len(class) && int(t.HeaderLen) == hl && int(t.ContentLen) == len(body), "length fields do not match what was written")
	}
	verif.Assert(class2 == class, "class differs after re-encode")
	verif.Assert(len(wire) == meta+len(class)+hl+len(body), "wire length is not the sum of its parts")
	verif.Cover("end")
}

// VerifC02_BoltV2IDWidth: the id handed to the stream table by
// GenerateRequestID is exactly the id read back from the wire after
// SetRequestId/Encode/Decode, and counters less than 2^32 apart give distinct ids.
func VerifC02_BoltV2IDWidth() {
	c := verif.U64("c")
	c0 := c
	id := boltv2Protocol{}.GenerateRequestID(&c)
	verif.Assert(c == c0+1, "counter must advance by one")
	f := zzFrame("f", false)
	ctx := zzCtx()
	frame, err := boltv2Protocol{}.Decode(ctx, buffer.NewIoBufferBytes(verif.WithStaleCap(f, 64)))
	verif.Assume(frame != nil && err == nil)
	xf := frame.(api.XFrame)
	xf.SetRequestId(id)
	out, err := boltv2Protocol{}.Encode(ctx, frame)
	verif.Assume(err == nil && out != nil)
	frame2, err := boltv2Protocol{}.Decode(zzCtx(), buffer.NewIoBufferBytes(verif.WithStaleCap(append([]byte{}, out.Bytes()...), 64)))
	verif.Assert(frame2 != nil && err == nil, "frame with the generated id must decode")
	if frame2 == nil {
		return
	}
	verif.Assert(frame2.(api.XFrame).GetRequestId() == id, "id read from the wire differs from the id the stream table was given")
	d := verif.U64("d")
	verif.Assume(d != 0 && d>>32 == 0)
	c2 := c0 + d
	id2 := boltv2Protocol{}.GenerateRequestID(&c2)
	verif.Assert(id2 != id, "two live counters map to the same wire id")
	verif.Cover("end")
}

// VerifC01_BoltV2HeaderOverflow: a decoded frame gets a header value so long
// that the header block sits at the 16-bit boundary of the length field
// (65535 fits, 65536 and more do not): the re-encoded frame either decodes to
// exactly the modified content, or Encode refuses with an error - never a
// frame whose header length field lies about what follows.
func VerifC01_BoltV2HeaderOverflow() {
	kind := verif.Choose("kind", 2) // request, response
	meta := RequestHeaderLen
	if kind == 1 {
		meta = ResponseHeaderLen
	}
	b := verif.Bytes("f", meta+2)
	b[0] = ProtocolCode
	b[2] = bolt.CmdTypeRequest
	if kind == 1 {
		b[2] = bolt.CmdTypeResponse
	}
	o := meta - 8
	b[o], b[o+1], b[o+2], b[o+3] = 0, 0, 0, 0 // no class, no header
	b[o+4], b[o+5], b[o+6], b[o+7] = 0, 0, 0, 2
	ctx := zzCtx()
	frame, err := boltv2Protocol{}.Decode(ctx, buffer.NewIoBufferBytes(b))
	verif.Assert(frame != nil && err == nil, "well-formed frame must decode")
	if frame == nil {
		return
	}
	xf := frame.(api.XFrame)
	// one pair "k" -> value: block length = 4 + 1 + 4 + len(value)
	vlen := []int{65535 - 9, 65536 - 9, 65536 - 9 + 3}[verif.Choose("value_len", 3)]
	val := make([]byte, vlen)
	for i := range val {
		val[i] = 'a'
	}
	xf.GetHeader().Set("k", string(val))
	out, err := boltv2Protocol{}.Encode(ctx, frame)
	if err != nil {
		verif.Assert(vlen+9 > 65535, "a representable header block was refused")
		verif.Cover("refused")
		return
	}
	verif.Assert(vlen+9 <= 65535, "a header block longer than the 16-bit length field can express was encoded instead of refused: the frame's length fields do not describe what follows")
	wire := append([]byte{}, out.Bytes()...)
	verif.Assert(len(wire) == meta+vlen+9+2, "wire length is not the sum of its parts")
	frame2, err := boltv2Protocol{}.Decode(zzCtx(), buffer.NewIoBufferBytes(wire))
	verif.Assert(frame2 != nil && err == nil, "re-encoded frame does not decode")
	if frame2 != nil {
		v, ok := frame2.(api.XFrame).GetHeader().Get("k")
		verif.Assert(ok && len(v) == vlen, "the long header value did not survive the re-encode")
	}
	verif.Cover("encoded")
}

// VerifC01_BoltV2FastRetry: an unmodified request is forwarded, the connection
// gives the written buffer back to the buffer pool (as connection.Write does),
// other traffic takes buffers from the pool and fills them, and then the same
// request frame is forwarded again under a new id (a retry). The retry's
// bytes are the original frame's bytes with the new id - not whatever now
// lives in a recycled buffer.
func VerifC01_BoltV2FastRetry() {
	verif.PoolReuse(true)
	f := zzFrame("f", true)
	orig := append([]byte{}, f...)
	rb := verif.WithStaleCap(f, 64)
	ctx := zzCtx()
	frame, err := boltv2Protocol{}.Decode(ctx, buffer.NewIoBufferBytes(rb))
	verif.Assert(frame != nil && err == nil, "well-formed frame must decode")
	if frame == nil {
		return
	}
	id := verif.U64("id")
	frame.(api.XFrame).SetRequestId(id)
	verif.Havoc(rb)
	out, err := boltv2Protocol{}.Encode(ctx, frame)
	verif.Assert(err == nil && out != nil, "encode of an unmodified frame failed")
	if out == nil {
		return
	}
	zzCheckForwarded(out.Bytes(), orig, id)
	buffer.PutIoBuffer(out) // the connection has written it
	for k := 0; k < 2; k++ {
		other := buffer.GetIoBuffer(len(orig))
		other.Write(verif.Bytes("other", 4))
	}
	id2 := verif.U64("id2")
	frame.(api.XFrame).SetRequestId(id2)
	out2, err := boltv2Protocol{}.Encode(ctx, frame)
	verif.Assert(err == nil && out2 != nil, "second encode of an unmodified frame failed")
	if out2 == nil {
		return
	}
	zzCheckForwarded(out2.Bytes(), orig, id2)
	verif.Cover("end")
}

// the same exploration decides the id clause of C02: the retried request goes
// out with its own payload under its own new id
func VerifC02_BoltV2FastRetry() {
	VerifC01_BoltV2FastRetry()
	verif.Cover("c02")
}

//verif:pkg mosn.io/mosn/pkg/protocol/xprotocol/boltv2
package boltv2

import (
	"mosn.io/api"
	"mosn.io/mosn/pkg/protocol/xprotocol/bolt"
	"mosn.io/mosn/pkg/zzverif/verif"
	"mosn.io/pkg/buffer"
)

// VerifC01_BoltV2LengthSum: a frame (request or response) whose class name
// and header block each fit their own 16-bit length field while their sum
// sits at the 16-bit boundary (65535, 65536, 65546), followed in the same
// read by a second, small frame. The fixed part and the 3 content bytes are
// symbolic, class and header block are concrete filler. The decoder takes
// exactly the frame's bytes out of the read buffer, the forwarded frame
// (unchanged, new id) is byte-identical, the content is the frame's own and
// the second frame decodes from what is left.
func VerifC01_BoltV2LengthSum() {
	verif.NoPanic()
	kind := verif.Choose("kind", 2) // request, response
	meta := RequestHeaderLen
	if kind == 1 {
		meta = ResponseHeaderLen
	}
	cl := 46
	hl := []int{65535 - 46, 65536 - 46, 65546 - 46}[verif.Choose("header_len", 3)]
	b := verif.Bytes("f", meta)
	b[0] = ProtocolCode
	b[2] = bolt.CmdTypeRequest
	if kind == 1 {
		b[2] = bolt.CmdTypeResponse
	}
	o := meta - 8
	b[o], b[o+1] = byte(cl>>8), byte(cl)
	b[o+2], b[o+3] = byte(hl>>8), byte(hl)
	b[o+4], b[o+5], b[o+6], b[o+7] = 0, 0, 0, 3
	for i := 0; i < cl; i++ {
		b = append(b, 'c')
	}
	// one pair "k" -> value: 4 + 1 + 4 + vlen
	vlen := hl - 9
	b = append(b, 0, 0, 0, 1, 'k', byte(vlen>>24), byte(vlen>>16), byte(vlen>>8), byte(vlen))
	for i := 0; i < vlen; i++ {
		b = append(b, 'a')
	}
	content := verif.Bytes("content", 3)
	b = append(b, content...)
	first := len(b)
	second := zzFrame("g", false)
	wire := append(append([]byte{}, b...), second...)
	rb := buffer.NewIoBufferBytes(verif.WithStaleCap(append([]byte{}, wire...), 64))
	ctx := zzCtx()
	frame, err := boltv2Protocol{}.Decode(ctx, rb)
	verif.Assert(frame != nil && err == nil, "a well-formed frame whose class and header lengths each fit 16 bits must decode")
	if frame == nil {
		return
	}
	verif.Assert(rb.Len() == len(second), "the decoder did not take exactly the frame's bytes out of the read buffer")
	xf := frame.(api.XFrame)
	verif.Assert(xf.GetData() != nil && string(xf.GetData().Bytes()) == string(content), "the frame's content is not the bytes behind its class and header block")
	v, ok := xf.GetHeader().Get("k")
	verif.Assert(ok && len(v) == vlen, "the header value is not the one on the wire")
	id := verif.U32("id")
	xf.SetRequestId(uint64(id))
	out, err := boltv2Protocol{}.Encode(ctx, frame)
	verif.Assert(err == nil && out != nil, "a frame that was decoded unchanged must be forwardable")
	if out != nil {
		got := out.Bytes()
		verif.Assert(len(got) == first, "the forwarded frame has another length than the received one")
		if len(got) == first {
			same := true
			for i := 0; i < meta; i++ {
				if i >= 6 && i < 10 {
					continue // the request id
				}
				if got[i] != wire[i] {
					same = false
				}
			}
			for i := first - 3; i < first; i++ {
				if got[i] != wire[i] {
					same = false
				}
			}
			verif.Assert(same, "the forwarded frame's fixed part or content differ from the received bytes")
			verif.Assert(got[meta] == 'c' && got[meta+cl+4] == 'k' && got[first-4] == 'a', "the forwarded frame's class / header block differ from the received bytes")
		}
	}
	frame2, err := boltv2Protocol{}.Decode(zzCtx(), rb)
	verif.Assert(frame2 != nil && err == nil && rb.Len() == 0, "the frame behind a large frame does not decode from what the decoder left in the read buffer")
	verif.Cover("end")
}

//verif:pkg mosn.io/mosn/pkg/mtls/crypto/tls
package tls

import (
	"crypto/rsa"
	"crypto/x509"
	"time"

	"mosn.io/mosn/pkg/zzverif/verif"
)

// VerifC13_UpstreamNameVerified: the client side of MOSN's TLS library (the upstream
// direction). Certificate parsing and x509 chain building are outside the engine and are
// replaced by recorders; what is decided is the step MOSN's fork owns: unless
// InsecureSkipVerify is set, verifyServerCertificate asks x509 to verify the peer's
// certificate exactly once, against the configured roots AND for exactly the configured
// server name - for every name (a DNS name, IP literals in the forms a cluster's
// server_name may take, the empty name, three arbitrary bytes) -, and never with a name
// check weaker than the configuration; with InsecureSkipVerify it does not verify.
func VerifC13_UpstreamNameVerified() {
	verif.EngineOnly("certificate parsing and x509 chain building are replaced by recorders")
	calls := 0
	var gotName string
	var gotRoots *x509.CertPool
	verif.Replace("mosn.io/mosn/pkg/mtls/crypto/tls.LoadOrStoreCertificate", func(der []byte) (*x509.Certificate, error) {
		return &x509.Certificate{PublicKey: &rsa.PublicKey{}}, nil
	})
	verif.Replace("(*crypto/x509.Certificate).Verify", func(c *x509.Certificate, opts x509.VerifyOptions) ([][]*x509.Certificate, error) {
		calls++
		gotName, gotRoots = opts.DNSName, opts.Roots
		return nil, nil
	})
	verif.Replace("crypto/x509.NewCertPool", func() *x509.CertPool { return &x509.CertPool{} })
	verif.Replace("(*crypto/x509.CertPool).AddCert", func(p *x509.CertPool, c *x509.Certificate) {})
	names := []string{"upstream.example.com", "127.0.0.1", "[127.0.0.1]", "::1", "[::1]", "", verif.Str("name", 3)}
	name := names[verif.Choose("server_name", len(names))]
	skip := verif.Choose("insecure_skip", 2) == 1
	roots := &x509.CertPool{}
	c := &Conn{config: &Config{ServerName: name, InsecureSkipVerify: skip, RootCAs: roots, Time: func() time.Time { return time.Time{} }}}
	err := c.verifyServerCertificate([][]byte{{1}, {2}})
	verif.Assert(err == nil, "verification of an acceptable certificate failed")
	if skip {
		verif.Assert(calls == 0, "insecure_skip is set but the certificate was verified")
		verif.Cover("skipped")
	} else {
		verif.Assert(calls == 1, "the upstream's certificate was not verified exactly once although insecure_skip is not set")
		verif.Assert(gotRoots == roots, "the upstream's certificate was not verified against the configured CA")
		verif.Assert(gotName == name, "the upstream's certificate was not verified for the configured server name")
		verif.Cover("verified")
	}
	verif.Cover("end")
}

//verif:pkg mosn.io/mosn/pkg/mtls/crypto/tls
package tls

import (
	"crypto/rsa"
	"crypto/x509"
	"time"

	"mosn.io/mosn/pkg/zzverif/verif"
)

// VerifC13_ResumedSessionVerified: the server side of MOSN's TLS library when a client comes
// back with a session ticket (TLS 1.2 and earlier). Record writing, the handshake hash,
// certificate parsing and x509 chain building are outside the engine and are replaced by
// recorders; what is decided is the step MOSN's fork owns: a resumed session is subject to the
// context's client-certificate policy like a fresh one - for every client-auth mode, with or
// without a verification hook, the certificate stored in the ticket is verified again, once,
// against the context's client CAs and at the current time (a certificate that expired since
// the ticket was issued is refused then), the hook runs once, and a refusal by either makes
// the handshake fail.
func VerifC13_ResumedSessionVerified() {
	verif.EngineOnly("record layer, handshake hash, certificate parsing and x509 chain building are replaced by recorders")
	verifies, hooks := 0, 0
	var gotRoots *x509.CertPool
	var gotTime time.Time
	x509Refuses := verif.Choose("x509_refuses", 2) == 1
	hookRefuses := verif.Choose("hook_refuses", 2) == 1
	verif.Replace("mosn.io/mosn/pkg/mtls/crypto/tls.LoadOrStoreCertificate", func(der []byte) (*x509.Certificate, error) {
		return &x509.Certificate{PublicKey: &rsa.PublicKey{}}, nil
	})
	verif.Replace("(*crypto/x509.Certificate).Verify", func(c *x509.Certificate, opts x509.VerifyOptions) ([][]*x509.Certificate, error) {
		verifies++
		gotRoots, gotTime = opts.Roots, opts.CurrentTime
		if x509Refuses {
			return nil, x509.CertificateInvalidError{Reason: x509.Expired}
		}
		return nil, nil
	})
	verif.Replace("crypto/x509.NewCertPool", func() *x509.CertPool { return &x509.CertPool{} })
	verif.Replace("(*crypto/x509.CertPool).AddCert", func(p *x509.CertPool, c *x509.Certificate) {})
	verif.Replace("(*mosn.io/mosn/pkg/mtls/crypto/tls.Conn).writeRecord", func(c *Conn, typ recordType, data []byte) (int, error) { return len(data), nil })
	verif.Replace("(*mosn.io/mosn/pkg/mtls/crypto/tls.Conn).sendAlert", func(c *Conn, a alert) error { return nil })
	verif.Replace("mosn.io/mosn/pkg/mtls/crypto/tls.newFinishedHash", func(version uint16, cipherSuite *cipherSuite) finishedHash { return finishedHash{} })
	verif.Replace("(*mosn.io/mosn/pkg/mtls/crypto/tls.finishedHash).Write", func(h *finishedHash, msg []byte) (int, error) { return len(msg), nil })
	verif.Replace("(*mosn.io/mosn/pkg/mtls/crypto/tls.finishedHash).discardHandshakeBuffer", func(h *finishedHash) {})
	verif.Replace("(*mosn.io/mosn/pkg/mtls/crypto/tls.clientHelloMsg).marshal", func(m *clientHelloMsg) []byte { return []byte{1} })
	verif.Replace("(*mosn.io/mosn/pkg/mtls/crypto/tls.serverHelloMsg).marshal", func(m *serverHelloMsg) []byte { return []byte{2} })
	auth := ClientAuthType(verif.Choose("client_auth", 5))
	withHook := verif.Choose("verify_hook", 2) == 1
	cas := &x509.CertPool{}
	now := time.Unix(1700000000, 0)
	cfg := &Config{ClientAuth: auth, ClientCAs: cas, Time: func() time.Time { return now }}
	if withHook {
		cfg.VerifyPeerCertificate = func(raw [][]byte, chains [][]*x509.Certificate) error {
			hooks++
			if hookRefuses {
				return x509.CertificateInvalidError{Reason: x509.NotAuthorizedToSign}
			}
			return nil
		}
	}
	c := &Conn{config: cfg, vers: VersionTLS12}
	hs := &serverHandshakeState{c: c, clientHello: &clientHelloMsg{}, hello: &serverHelloMsg{},
		suite: &cipherSuite{}, sessionState: &sessionState{certificates: [][]byte{{1}, {2}}, masterSecret: []byte{9}}}
	err := hs.doResumeHandshake()
	if auth >= VerifyClientCertIfGiven {
		verif.Assert(verifies == 1, "a resumed session's client certificate was not verified again against the context's policy (exactly once)")
		if verifies == 1 {
			verif.Assert(gotRoots == cas, "the resumed session's client certificate was not verified against the context's client CAs")
			verif.Assert(gotTime.Equal(now), "the resumed session's client certificate was not verified at the current time")
		}
		if x509Refuses {
			verif.Assert(err != nil, "a resumed session whose client certificate no longer verifies was accepted")
			verif.Cover("refused-by-x509")
		}
	}
	if withHook && !(auth >= VerifyClientCertIfGiven && x509Refuses) {
		verif.Assert(hooks == 1, "the context's verification hook did not run (exactly once) for a resumed session")
		if hookRefuses {
			verif.Assert(err != nil, "a resumed session refused by the context's verification hook was accepted")
			verif.Cover("refused-by-hook")
		}
	}
	if err == nil {
		verif.Assert(len(c.peerCertificates) == 2, "an accepted resumed session does not expose the client's certificates")
		verif.Cover("accepted")
	}
	verif.Cover("end")
}

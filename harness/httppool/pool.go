//verif:pkg mosn.io/mosn/pkg/stream/http
package http

import (
	"context"
	"errors"

	gometrics "github.com/rcrowley/go-metrics"
	"mosn.io/api"
	v2 "mosn.io/mosn/pkg/config/v2"
	str "mosn.io/mosn/pkg/stream"
	"mosn.io/mosn/pkg/types"
	"mosn.io/mosn/pkg/upstream/cluster"
	"mosn.io/mosn/pkg/zzverif/verif"
	"mosn.io/pkg/variable"
)

type zzCounter struct{ n int64 }

func (c *zzCounter) Clear()                      { c.n = 0 }
func (c *zzCounter) Count() int64                { return c.n }
func (c *zzCounter) Dec(i int64)                 { c.n -= i }
func (c *zzCounter) Inc(i int64)                 { c.n += i }
func (c *zzCounter) Snapshot() gometrics.Counter { return c }

func zzHostStats() *types.HostStats {
	return &types.HostStats{UpstreamConnectionTotal: &zzCounter{}, UpstreamConnectionClose: &zzCounter{}, UpstreamConnectionActive: &zzCounter{},
		UpstreamConnectionConFail: &zzCounter{}, UpstreamConnectionLocalClose: &zzCounter{}, UpstreamConnectionRemoteClose: &zzCounter{},
		UpstreamConnectionLocalCloseWithActiveRequest: &zzCounter{}, UpstreamConnectionRemoteCloseWithActiveRequest: &zzCounter{},
		UpstreamRequestTotal: &zzCounter{}, UpstreamRequestActive: &zzCounter{}, UpstreamRequestLocalReset: &zzCounter{}, UpstreamRequestRemoteReset: &zzCounter{},
		UpstreamRequestTimeout: &zzCounter{}, UpstreamRequestFailureEject: &zzCounter{}, UpstreamRequestPendingOverflow: &zzCounter{}}
}

func zzClusterStats() *types.ClusterStats {
	return &types.ClusterStats{UpstreamConnectionTotal: &zzCounter{}, UpstreamConnectionClose: &zzCounter{}, UpstreamConnectionActive: &zzCounter{},
		UpstreamConnectionConFail: &zzCounter{}, UpstreamConnectionLocalClose: &zzCounter{}, UpstreamConnectionRemoteClose: &zzCounter{},
		UpstreamConnectionLocalCloseWithActiveRequest: &zzCounter{}, UpstreamConnectionRemoteCloseWithActiveRequest: &zzCounter{},
		UpstreamRequestTotal: &zzCounter{}, UpstreamRequestActive: &zzCounter{}, UpstreamRequestLocalReset: &zzCounter{}, UpstreamRequestRemoteReset: &zzCounter{},
		UpstreamRequestTimeout: &zzCounter{}, UpstreamRequestFailureEject: &zzCounter{}, UpstreamRequestPendingOverflow: &zzCounter{},
		UpstreamBytesReadTotal: &zzCounter{}, UpstreamBytesWriteTotal: &zzCounter{}}
}

type zzInfo struct {
	types.ClusterInfo
	rm types.ResourceManager
	st *types.ClusterStats
}

func (i *zzInfo) Name() string                           { return "c" }
func (i *zzInfo) ResourceManager() types.ResourceManager { return i.rm }
func (i *zzInfo) Stats() *types.ClusterStats             { return i.st }

type zzHost struct {
	types.Host
	info *zzInfo
	hs   *types.HostStats
}

func (h *zzHost) AddressString() string          { return "1.1.1.1:1" }
func (h *zzHost) ClusterInfo() types.ClusterInfo { return h.info }
func (h *zzHost) HostStats() *types.HostStats    { return h.hs }
func (h *zzHost) TLSHashValue() *types.HashValue { return nil }
func (h *zzHost) CreateConnection(ctx context.Context) types.CreateConnectionData {
	return types.CreateConnectionData{Host: h}
}

type zzStream struct {
	str.BaseStream
	client *zzClient
	live   bool
}

func (s *zzStream) ID() uint64 { return 1 }

type zzSender struct {
	types.StreamSender
	st *zzStream
}

func (s *zzSender) GetStream() types.Stream { return s.st }

// zzClient is a codec client over a connection whose Close raises the close
// event once, synchronously (as network.connection.Close does).
type zzClient struct {
	str.Client
	id      uint64
	ac      *activeClient
	closed  bool
	streams []*zzStream
	// dial: 0 the connection is established, 1 refused (ConnectFailed), 2 timed out (ConnectTimeout)
	dial      int
	connected bool
	listeners []api.ConnectionEventListener
}

func (c *zzClient) AddConnectionEventListener(l api.ConnectionEventListener) {
	c.listeners = append(c.listeners, l)
	if ac, ok := l.(*activeClient); ok {
		c.ac = ac
	}
}
func (c *zzClient) SetStreamConnectionEventListener(types.StreamConnectionEventListener) {}
func (c *zzClient) SetConnectionCollector(read, write gometrics.Counter)                 {}

// Connect behaves as network.clientConnection.Connect: the outcome is raised
// synchronously as a connection event to every listener, then returned.
func (c *zzClient) Connect() error {
	ev, err := api.Connected, error(nil)
	switch c.dial {
	case 1:
		ev, err = api.ConnectFailed, zzErrDial
	case 2:
		ev, err = api.ConnectTimeout, zzErrDial
	default:
		c.connected = true
	}
	for _, l := range c.listeners {
		l.OnEvent(ev)
	}
	return err
}

var zzErrDial = errors.New("dial failed")

func (c *zzClient) ConnID() uint64 { return c.id }
func (c *zzClient) NewStream(ctx context.Context, r types.StreamReceiveListener) types.StreamSender {
	st := &zzStream{client: c, live: true}
	c.streams = append(c.streams, st)
	return &zzSender{st: st}
}
func (c *zzClient) Close() {
	if !c.closed {
		c.closed = true
		if !c.connected {
			return // network.connection.Close: no raw connection, no close event
		}
		c.ac.OnEvent(api.LocalClose)
	}
}
func (c *zzClient) remoteClose() {
	if !c.closed {
		c.closed = true
		c.ac.OnEvent(api.RemoteClose)
	}
}

type zzWorld struct {
	pool    *connPool
	info    *zzInfo
	host    *zzHost
	clients []*zzClient
	leased  []*zzStream // live streams, in creation order
	nextDial int
}

// zzNewClient is what the pool's createStreamClient is replaced by: a stream
// client over a connection whose dial succeeds, is refused or times out.
func (w *zzWorld) zzNewClient(dial int) *zzClient {
	if dial < 0 {
		dial = verif.Choose("dial_outcome", 3)
	}
	c := &zzClient{id: uint64(len(w.clients) + 1), dial: dial}
	if dial != 0 {
		c.closed = true // never established: not counted as an open connection
	}
	w.clients = append(w.clients, c)
	return c
}

// zzDial: an established connection, created through the real newActiveClient.
func (w *zzWorld) zzDial() *activeClient {
	w.nextDial = 0
	ac, _ := newActiveClient(context.Background(), w.pool)
	return ac
}

// zzCheck: the pool's books equal the truth.
func (w *zzWorld) zzCheck(maxReq uint64) {
	open := 0
	for _, c := range w.clients {
		idle := 0
		for _, a := range w.pool.availableClients {
			if a.client == c {
				idle++
			}
		}
		live := 0
		for _, s := range c.streams {
			if s.live {
				live++
			}
		}
		verif.Assert(idle <= 1, "a connection is in the idle list twice")
		verif.Assert(live <= 1, "a connection is leased to two requests at once")
		verif.Assert(!(idle == 1 && live == 1), "a leased connection is also in the idle list")
		verif.Assert(!(c.closed && idle == 1), "a closed connection is in the idle list")
		if !c.closed {
			open++
			verif.Assert(idle == 1 || live == 1, "an open connection is neither idle nor leased (leaked)")
		}
	}
	verif.Assert(int(w.pool.totalClientCount) == open, "totalClientCount differs from the number of open connections")
	verif.Assert(w.host.hs.UpstreamConnectionActive.Count() == int64(open), "UpstreamConnectionActive differs from the number of open connections")
	liveStreams := 0
	for _, s := range w.leased {
		if s.live {
			liveStreams++
		}
	}
	verif.Assert(w.host.hs.UpstreamRequestActive.Count() == int64(liveStreams), "UpstreamRequestActive differs from the number of live requests")
	if maxReq > 0 {
		verif.Assert(w.info.rm.Requests().Cur() == int64(liveStreams), "requests resource differs from the number of live requests")
	}
}

// VerifC09_HTTPPool: the HTTP/1 connection pool over any short sequence of
// requests, completions, resets and connection closes, from a state with some
// idle connections: exclusive leases, no leaked or doubly listed connection,
// counters equal to the truth, a locally reset connection is closed.
func VerifC09_HTTPPool() {
	zzHTTPPool(verif.Param("steps", 3, 4))
	verif.Cover("done")
}

// VerifC10_HTTPPoolSlots: the same exploration, shorter sequences, counted for
// C10: the connection slots (totalClientCount against max_connections), the
// requests resource and the active gauges return to the truth after every
// operation, in particular after a dial that is refused or times out.
func VerifC10_HTTPPoolSlots() {
	zzHTTPPool(verif.Param("slot_steps", 2, 3))
	verif.Cover("done")
}

func zzHTTPPool(steps int) {
	maxConn := uint32(verif.Choose("max_connections", 3))
	maxReq := uint32(verif.Choose("max_requests", 3))
	info := &zzInfo{rm: cluster.NewResourceManager(v2.CircuitBreakers{Thresholds: []v2.Thresholds{{MaxConnections: maxConn, MaxRequests: maxReq}}}), st: zzClusterStats()}
	host := &zzHost{info: info, hs: zzHostStats()}
	pool := NewConnPool(context.Background(), host).(*connPool)
	w := &zzWorld{pool: pool, info: info, host: host}
	// the environment boundary is the stream client over the network connection: the
	// real newActiveClient runs, its codec client is a scripted one whose Connect
	// succeeds, is refused or times out (natively a dial needs a real peer: sequences
	// with a dial are engine-only)
	verif.Replace("(*mosn.io/mosn/pkg/stream/http.connPool).createStreamClient", func(p *connPool, ctx context.Context, d types.CreateConnectionData) str.Client {
		return w.zzNewClient(w.nextDial)
	})
	idle0 := verif.Choose("initial_idle", verif.Param("idle", 2, 3))
	if maxConn > 0 && idle0 > int(maxConn) {
		idle0 = int(maxConn)
	}
	for i := 0; i < idle0; i++ {
		pool.availableClients = append(pool.availableClients, w.zzDial())
		pool.totalClientCount++
	}
	w.zzCheck(uint64(maxReq))
	for i := 0; i < steps; i++ {
		switch verif.Choose("op", 5) {
		case 0: // a new request
			if len(pool.availableClients) == 0 {
				verif.EngineOnly("NewStream would dial: a real connection natively, a modelled dial under the engine")
			}
			idleBefore := len(pool.availableClients)
			w.nextDial = -1 // decided when (and only if) a dial happens
			ctx := variable.NewVariableContext(context.Background())
			_, sender, reason := pool.NewStream(ctx, nil)
			if sender != nil {
				st := sender.GetStream().(*zzStream)
				w.leased = append(w.leased, st)
				verif.Cover("leased")
			} else if reason == types.Overflow {
				verif.Assert(len(pool.availableClients) == idleBefore, "a refused request took an idle connection away (capacity lost)")
				verif.Cover("overflow")
			}
		case 1: // the oldest live request completes
			for _, s := range w.leased {
				if s.live {
					s.live = false
					s.DestroyStream()
					break
				}
			}
		case 2: // the oldest live request is reset
			reason := []types.StreamResetReason{types.StreamLocalReset, types.StreamRemoteReset, types.StreamConnectionTermination}[verif.Choose("reset_reason", 3)]
			for _, s := range w.leased {
				if s.live {
					s.live = false
					s.ResetStream(reason)
					if reason == types.StreamLocalReset {
						verif.Assert(s.client.closed, "a connection whose request was reset locally must be closed, not reused")
						verif.Cover("local-reset")
					}
					break
				}
			}
		case 3: // the peer closes a connection
			k := verif.Choose("which", 3)
			if k < len(w.clients) {
				c := w.clients[k]
				for _, s := range c.streams {
					if s.live { // the stream layer resets the request of a closed connection
						s.live = false
						s.ResetStream(types.StreamConnectionTermination)
					}
				}
				c.remoteClose()
			}
		default:
		}
		w.zzCheck(uint64(maxReq))
	}
	verif.Cover("end")
}

// VerifC09_HTTPPoolClose: the HTTP/1 pool holding 1..2 idle connections is closed or shut
// down. The call comes back - it does not block on the pool's own lock -; after Close every
// connection is closed, none is left in the idle list, and the books equal the truth.
func VerifC09_HTTPPoolClose() {
	info := &zzInfo{rm: cluster.NewResourceManager(v2.CircuitBreakers{}), st: zzClusterStats()}
	host := &zzHost{info: info, hs: zzHostStats()}
	pool := NewConnPool(context.Background(), host).(*connPool)
	w := &zzWorld{pool: pool, info: info, host: host}
	verif.Replace("(*mosn.io/mosn/pkg/stream/http.connPool).createStreamClient", func(p *connPool, ctx context.Context, d types.CreateConnectionData) str.Client {
		return w.zzNewClient(w.nextDial)
	})
	verif.EngineOnly("the dial is replaced by a scripted stream client")
	n := 1 + verif.Choose("idle_connections", 2)
	for i := 0; i < n; i++ {
		pool.availableClients = append(pool.availableClients, w.zzDial())
		pool.totalClientCount++
	}
	closing := verif.Choose("close_instead_of_shutdown", 2) == 1
	verif.MustFinish(200000, "closing (or shutting down) an HTTP/1 pool that holds an idle connection never returns: it blocks on the pool's own lock")
	if closing {
		pool.Close()
	} else {
		pool.Shutdown()
	}
	verif.Finished()
	if closing {
		for _, c := range w.clients {
			verif.Assert(c.closed, "Close left a connection of the pool open")
		}
		verif.Assert(len(pool.availableClients) == 0, "Close left a connection in the idle list")
	}
	w.zzCheck(0)
	verif.Cover("end")
}

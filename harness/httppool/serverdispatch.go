//verif:pkg mosn.io/mosn/pkg/stream/http
//verif:init github.com/valyala/fasthttp
package http

import (
	"context"

	"github.com/valyala/fasthttp"
	"mosn.io/api"
	mosnhttp "mosn.io/mosn/pkg/protocol/http"
	str "mosn.io/mosn/pkg/stream"
	"mosn.io/mosn/pkg/types"
	"mosn.io/mosn/pkg/zzverif/verif"
	"mosn.io/pkg/buffer"
	"mosn.io/pkg/variable"
)

type zzSDReq struct {
	path, method, body, host string
}

type zzSDCallbacks struct {
	got []zzSDReq
}

func (c *zzSDCallbacks) OnGoAway() {}
func (c *zzSDCallbacks) NewStreamDetect(ctx context.Context, s types.StreamSender, span api.Span) types.StreamReceiveListener {
	return &zzSDRecv{cb: c, sender: s}
}

// zzSDRecv is the proxy for one downstream request: it records what it was
// handed and answers 200 at once.
type zzSDRecv struct {
	cb     *zzSDCallbacks
	sender types.StreamSender
}

func (r *zzSDRecv) OnReceive(ctx context.Context, h api.HeaderMap, data buffer.IoBuffer, t api.HeaderMap) {
	q := zzSDReq{}
	q.path, _ = variable.GetString(ctx, types.VarPath)
	q.method, _ = variable.GetString(ctx, types.VarMethod)
	q.host, _ = variable.GetString(ctx, types.VarHost)
	if data != nil {
		q.body = string(data.Bytes())
	}
	r.cb.got = append(r.cb.got, q)
	s := r.sender
	go func() {
		s.AppendHeaders(ctx, mosnhttp.ResponseHeader{ResponseHeader: &fasthttp.ResponseHeader{}}, true)
	}()
}
func (r *zzSDRecv) OnDecodeError(ctx context.Context, err error, h api.HeaderMap) {}

// VerifC07_HTTP1DispatchSegmentation: the downstream HTTP/1 stream layer (the
// real serverStreamConnection: Dispatch, the blocking reader and the serve
// goroutine over fasthttp) receives two requests on one connection - a GET,
// then a POST with a body, the second sent behind the first without waiting
// (pipelined) - in one piece or cut in two at any byte. Wherever the cut
// falls, the proxy is handed the same two requests, in order, with the same
// method, path, host and body, and nothing is left unread.
func VerifC07_HTTP1DispatchSegmentation() {
	verif.Switches(0)
	// fasthttp refreshes its cached Date header in a goroutine that sleeps a second per round: park it
	verif.ParkSleepers(1)
	// tracing is off by default; its package initialiser opens a socket to find the local address
	verif.Replace("mosn.io/mosn/pkg/trace.IsEnabled", func() bool { return false })
	// fasthttp's zero-copy string-to-bytes cast through reflect.SliceHeader: a copy is equivalent for readers
	verif.Replace("github.com/valyala/fasthttp.s2b", func(s string) []byte { return []byte(s) })
	// the trace id (local address, time, pid) is not the subject
	verif.Replace("(*mosn.io/mosn/pkg/stream.ContextManager).InjectTrace", func(cm *str.ContextManager, ctx context.Context, span api.Span) context.Context { return ctx })
	wire := []byte("GET /one?x=1 HTTP/1.1\r\nHost: a.b\r\n\r\n" + "POST /two HTTP/1.1\r\nHost: c.d\r\nContent-Length: 3\r\n\r\nabc")
	cut := verif.Choose("cut", len(wire)+1) // len(wire) = one piece
	cb := &zzSDCallbacks{}
	conn := &zzNConn{id: 1}
	ctx := variable.NewVariableContext(context.Background())
	sc := newServerStreamConnection(ctx, conn, cb)
	verif.Settle()
	feed := func(p []byte) {
		if len(p) == 0 {
			return
		}
		rb := buffer.NewIoBufferBytes(append([]byte{}, p...))
		done := false
		go func() {
			sc.Dispatch(rb)
			done = true
		}()
		verif.Settle()
		verif.Assert(done && rb.Len() == 0, "the stream layer did not take the bytes of a read")
	}
	feed(wire[:cut])
	feed(wire[cut:])
	verif.Settle()
	verif.Assert(!conn.closed, "the connection was closed on two well-formed requests")
	ok := len(cb.got) == 2 &&
		cb.got[0] == zzSDReq{path: "/one", method: "GET", host: "a.b"} &&
		cb.got[1] == zzSDReq{path: "/two", method: "POST", host: "c.d", body: "abc"}
	verif.Assert(ok, "the requests handed to the proxy depend on how the client's bytes were cut into reads")
	verif.Assert(conn.wrote == 2, "each request gets exactly one response written")
	verif.Cover("end")
}

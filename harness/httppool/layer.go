//verif:pkg mosn.io/mosn/pkg/stream/http
//verif:init github.com/valyala/fasthttp
package http

import (
	"context"
	"net"

	gometrics "github.com/rcrowley/go-metrics"
	"github.com/valyala/fasthttp"
	"mosn.io/api"
	v2 "mosn.io/mosn/pkg/config/v2"
	mosnhttp "mosn.io/mosn/pkg/protocol/http"
	"mosn.io/mosn/pkg/types"
	"mosn.io/mosn/pkg/upstream/cluster"
	"mosn.io/mosn/pkg/zzverif/verif"
	"mosn.io/pkg/buffer"
	"mosn.io/pkg/variable"
)

// zzNConn is the upstream network connection under the real HTTP/1 stream
// client and stream connection: it records listeners, the read filter and
// writes; Close raises the close event once to every listener.
type zzNConn struct {
	types.ClientConnection
	id        uint64
	closed    bool
	listeners []api.ConnectionEventListener
	filters   []api.ReadFilter
	wrote     int
}

type zzNFM struct {
	api.FilterManager
	c *zzNConn
}

func (m *zzNFM) AddReadFilter(f api.ReadFilter) { m.c.filters = append(m.c.filters, f) }

func (c *zzNConn) ID() uint64                                               { return c.id }
func (c *zzNConn) AddConnectionEventListener(l api.ConnectionEventListener) { c.listeners = append(c.listeners, l) }
func (c *zzNConn) FilterManager() api.FilterManager                         { return &zzNFM{c: c} }
func (c *zzNConn) SetNoDelay(bool)                                          {}
func (c *zzNConn) SetCollector(read, write gometrics.Counter)               {}
func (c *zzNConn) SetTransferEventListener(func() bool)                     {}
func (c *zzNConn) RemoteAddr() net.Addr                                     { return &net.TCPAddr{IP: net.IPv4(1, 1, 1, 1), Port: 1} }
func (c *zzNConn) LocalAddr() net.Addr                                      { return &net.TCPAddr{IP: net.IPv4(2, 2, 2, 2), Port: 2} }
func (c *zzNConn) State() api.ConnState {
	if c.closed {
		return api.ConnClosed
	}
	return api.ConnActive
}
func (c *zzNConn) Connect() error {
	for _, l := range c.listeners {
		l.OnEvent(api.Connected)
	}
	return nil
}
func (c *zzNConn) Write(bufs ...buffer.IoBuffer) error {
	if c.closed {
		return types.ErrConnectionHasClosed
	}
	c.wrote++
	return nil
}
func (c *zzNConn) Close(ccType api.ConnectionCloseType, ev api.ConnectionEvent) error {
	if !c.closed {
		c.closed = true
		for _, l := range c.listeners {
			l.OnEvent(ev)
		}
	}
	return nil
}

type zzNHost struct {
	zzHost
	conns []*zzNConn
}

func (h *zzNHost) CreateConnection(ctx context.Context) types.CreateConnectionData {
	c := &zzNConn{id: uint64(len(h.conns) + 1)}
	h.conns = append(h.conns, c)
	return types.CreateConnectionData{Connection: c, Host: h}
}

// zzNRecv is the proxy's side of one upstream request: when the response
// arrives its worker finishes the request (destroys the stream) - at any time
// after the delivery, concurrently with what the stream layer still does.
type zzNRecv struct {
	sender  types.StreamSender
	replies int
	status  int
}

func (r *zzNRecv) OnReceive(ctx context.Context, h api.HeaderMap, d buffer.IoBuffer, t api.HeaderMap) {
	r.replies++
	if rh, ok := h.(mosnhttp.ResponseHeader); ok {
		r.status = rh.StatusCode()
	}
	s := r.sender
	go func() {
		s.GetStream().DestroyStream()
	}()
}
func (r *zzNRecv) OnDecodeError(ctx context.Context, err error, h api.HeaderMap) {}

// VerifC09_HTTPStreamLayer: the HTTP/1 pool over the real stream client and
// the real HTTP/1 stream connection (its response-reading goroutine runs
// under the scheduler). Two exchanges in a row; the first response either
// keeps the connection alive or says "Connection: close" (or is an HTTP/1.0
// answer). The proxy's worker finishes a request at any moment after its
// response was delivered. A connection the upstream declared closing is closed
// and never handed to the next request, the pool's books say so, and a
// keep-alive connection is reused.
func VerifC09_HTTPStreamLayer() {
	verif.Switches(verif.Param("h1layer_switches", 2, 3))
	info := &zzInfo{rm: cluster.NewResourceManager(v2.CircuitBreakers{Thresholds: []v2.Thresholds{{MaxConnections: 2, MaxRequests: 2}}}), st: zzClusterStats()}
	host := &zzNHost{zzHost: zzHost{info: info, hs: zzHostStats()}}
	pool := NewConnPool(context.Background(), host).(*connPool)
	kind := verif.Choose("first_response", 3) // keep-alive, Connection: close, HTTP/1.0 without keep-alive
	wire := []string{
		"HTTP/1.1 200 OK\r\nContent-Length: 0\r\n\r\n",
		"HTTP/1.1 200 OK\r\nConnection: close\r\nContent-Length: 0\r\n\r\n",
		"HTTP/1.0 200 OK\r\nContent-Length: 0\r\n\r\n",
	}[kind]
	exchange := func(resp string) (*zzNRecv, *zzNConn) {
		ctx := buffer.NewBufferPoolContext(variable.NewVariableContext(context.Background()))
		variable.SetString(ctx, types.VarHost, "a.b")
		variable.SetString(ctx, types.VarPath, "/p")
		r := &zzNRecv{}
		_, sender, reason := pool.NewStream(ctx, r)
		verif.Assert(sender != nil && reason == "", "the pool refused a request although it has capacity")
		if sender == nil {
			return nil, nil
		}
		r.sender = sender
		c := host.conns[len(host.conns)-1]
		for _, k := range host.conns {
			if !k.closed && k.wrote == 0 {
				c = k
			}
		}
		before := make([]int, len(host.conns))
		for i, k := range host.conns {
			before[i] = k.wrote
		}
		verif.Assert(sender.AppendHeaders(ctx, mosnhttp.RequestHeader{RequestHeader: &fasthttp.RequestHeader{}}, true) == nil, "request not sent")
		for i, k := range host.conns {
			if k.wrote > before[i] {
				c = k
			}
		}
		verif.Settle()
		rb := buffer.NewIoBufferString(resp)
		for _, f := range c.filters {
			f.OnData(rb)
		}
		verif.Settle()
		verif.Assert(r.replies == 1 && r.status == 200, "the response did not reach its request exactly once")
		return r, c
	}
	_, c1 := exchange(wire)
	if c1 == nil {
		return
	}
	idle := len(pool.availableClients)
	if kind == 0 {
		verif.Assert(!c1.closed && idle == 1, "a keep-alive connection was not returned to the pool after a clean exchange")
		verif.Cover("keep-alive")
	} else {
		verif.Assert(c1.closed, "a connection the upstream declared closing (Connection: close / HTTP/1.0) was kept open")
		verif.Assert(idle == 0, "a connection the upstream declared closing is offered for reuse")
		verif.Assert(host.hs.UpstreamConnectionActive.Count() == 0, "connection_active counts a connection the upstream declared closing")
		verif.Cover("closing")
	}
	verif.Assert(host.hs.UpstreamRequestActive.Count() == 0 && info.rm.Requests().Cur() == 0, "request accounting not released after the exchange")
	_, c2 := exchange("HTTP/1.1 200 OK\r\nContent-Length: 0\r\n\r\n")
	if c2 == nil {
		return
	}
	if kind == 0 {
		verif.Assert(c2 == c1, "a second request did not reuse the idle keep-alive connection")
	} else {
		verif.Assert(c2 != c1, "a request was sent on a connection the upstream had declared closing")
	}
	verif.Cover("end")
}

type zzNBodyRecv struct {
	zzNRecv
	body string
}

func (r *zzNBodyRecv) OnReceive(ctx context.Context, h api.HeaderMap, d buffer.IoBuffer, t api.HeaderMap) {
	if d != nil {
		r.body += string(d.Bytes())
	}
	r.zzNRecv.OnReceive(ctx, h, d, t)
}

// VerifC07_HTTP1ClientDispatchSegmentation: the upstream HTTP/1 stream layer
// (real pool, stream client, stream connection and its response-reading
// goroutine) gets a response with a body in one piece or cut in two at any
// byte. Wherever the cut falls the request receives the same status and body,
// exactly once, and the connection goes back to the pool.
func VerifC07_HTTP1ClientDispatchSegmentation() {
	verif.Switches(0)
	info := &zzInfo{rm: cluster.NewResourceManager(v2.CircuitBreakers{Thresholds: []v2.Thresholds{{MaxConnections: 2, MaxRequests: 2}}}), st: zzClusterStats()}
	host := &zzNHost{zzHost: zzHost{info: info, hs: zzHostStats()}}
	pool := NewConnPool(context.Background(), host).(*connPool)
	wire := []byte("HTTP/1.1 200 OK\r\nX-K: v\r\nContent-Length: 3\r\n\r\nabc")
	cut := verif.Choose("cut", len(wire)+1)
	ctx := buffer.NewBufferPoolContext(variable.NewVariableContext(context.Background()))
	variable.SetString(ctx, types.VarHost, "a.b")
	variable.SetString(ctx, types.VarPath, "/p")
	r := &zzNBodyRecv{}
	_, sender, reason := pool.NewStream(ctx, r)
	verif.Assert(sender != nil && reason == "", "the pool refused a request although it has capacity")
	if sender == nil {
		return
	}
	r.sender = sender
	verif.Assert(sender.AppendHeaders(ctx, mosnhttp.RequestHeader{RequestHeader: &fasthttp.RequestHeader{}}, true) == nil, "request not sent")
	verif.Settle()
	c := host.conns[0]
	feed := func(p []byte) {
		if len(p) == 0 {
			return
		}
		rb := buffer.NewIoBufferBytes(append([]byte{}, p...))
		done := false
		go func() {
			for _, f := range c.filters {
				f.OnData(rb)
			}
			done = true
		}()
		verif.Settle()
		verif.Assert(done && rb.Len() == 0, "the stream layer did not take the bytes of a read")
	}
	feed(wire[:cut])
	if cut < len(wire) {
		verif.Assert(r.replies == 0 || cut >= len(wire), "a response was delivered before it was complete")
	}
	feed(wire[cut:])
	verif.Settle()
	verif.Assert(r.replies == 1 && r.status == 200 && r.body == "abc", "the response handed to the request depends on how the server's bytes were cut into reads")
	verif.Assert(!c.closed && len(pool.availableClients) == 1, "the connection did not go back to the pool after a clean exchange")
	verif.Cover("end")
}

// VerifC17_HostHeader (HTTP/1 half of host rewrite): the Host header of the
// request sent to an HTTP/1.1 upstream is the rewritten authority when the
// route set one, else the request's own host, else the upstream address.
func VerifC17_HostHeader() {
	ctx := variable.NewVariableContext(context.Background())
	own := []string{"", "old.host"}[verif.Choose("request_host", 2)]
	rew := []string{"", "new.host"}[verif.Choose("rewritten_authority", 2)]
	variable.SetString(ctx, types.VarPath, "/p")
	if own != "" {
		variable.SetString(ctx, types.VarHost, own)
	}
	if rew != "" {
		variable.SetString(ctx, types.VarIstioHeaderHost, rew)
	}
	h := mosnhttp.RequestHeader{RequestHeader: &fasthttp.RequestHeader{}}
	FillRequestHeadersFromCtxVar(ctx, h, &net.TCPAddr{IP: net.IPv4(1, 1, 1, 1), Port: 1})
	want := "1.1.1.1:1"
	if own != "" {
		want = own
	}
	if rew != "" {
		want = rew
	}
	verif.Assert(string(h.Host()) == want, "the Host header sent upstream is not the rewritten authority / the request's host / the upstream address, in that order")
	verif.Cover("end")
}

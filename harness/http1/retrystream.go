//verif:pkg mosn.io/mosn/pkg/stream/http
package http

import (
	"context"

	"mosn.io/mosn/pkg/types"
	"mosn.io/mosn/pkg/zzverif/verif"
	"mosn.io/pkg/buffer"
	"mosn.io/pkg/variable"
)

type zzSListener struct{ resets, destroys int }

func (l *zzSListener) OnResetStream(types.StreamResetReason) { l.resets++ }
func (l *zzSListener) OnDestroyStream()                      { l.destroys++ }

// VerifC09_HTTPRetryStream: a retried request asks the HTTP/1 connection for a
// new client stream under the same request context (the per-request buffers,
// hence the stream object, are the same). The first attempt ended by a reset
// or normally; the second attempt's stream must be a fresh one: its end
// (reset or completion) is reported to the pool's listener exactly once, so
// the connection and the request slot can be given back - and the first
// attempt's listener hears nothing more.
func VerifC09_HTTPRetryStream() {
	conn := &clientStreamConnection{}
	ctx := buffer.NewBufferPoolContext(variable.NewVariableContext(context.Background()))
	end := func(s types.Stream, how int) {
		if how == 0 {
			s.ResetStream(types.StreamLocalReset)
		} else {
			s.DestroyStream()
		}
	}
	s1 := conn.NewStream(ctx, nil).GetStream()
	l1 := &zzSListener{}
	s1.AddEventListener(l1)
	how1 := verif.Choose("first_attempt_ends", 2)
	end(s1, how1)
	verif.Assert(l1.destroys == 1 && l1.resets == 1-how1, "the first attempt's end was not reported exactly once")
	s2 := conn.NewStream(ctx, nil).GetStream()
	l2 := &zzSListener{}
	s2.AddEventListener(l2)
	how2 := verif.Choose("second_attempt_ends", 2)
	end(s2, how2)
	verif.Assert(l2.destroys == 1 && l2.resets == 1-how2, "the retry attempt's end is not reported to its listener: its connection and request slot are never given back")
	verif.Assert(l1.destroys == 1 && l1.resets == 1-how1, "the first attempt's listener was notified again by the retry attempt")
	verif.Assert(s2.ID() != 0, "the retry stream has no id")
	verif.Cover("end")
}

//verif:pkg mosn.io/mosn/pkg/stream/http
//verif:init github.com/valyala/fasthttp
package http

import (
	"context"
	"net"

	"github.com/valyala/fasthttp"
	mosnhttp "mosn.io/mosn/pkg/protocol/http"
	"mosn.io/mosn/pkg/zzverif/verif"
	"mosn.io/pkg/variable"
)

type zzAddr struct{}

func (zzAddr) Network() string { return "tcp" }
func (zzAddr) String() string  { return "up:80" }

// VerifC01_HTTP1RequestURI: an HTTP/1.1 request target that passes through
// MOSN without a configured rewrite is forwarded byte for byte: the server
// side's variable injection (path, original path, query string from the
// parsed fasthttp URI) followed by the client side's request-line assembly
// gives back the received request target, for every origin-form target over
// an alphabet that contains the interesting characters ('/', '.', '%', hex
// digits, '?', '=', '*').
func VerifC01_HTTP1RequestURI() {
	alphabet := "a/.%2F?=*"
	n := verif.Len("len", 0, verif.Param("urilen", 3, 4))
	raw := []byte{'/'}
	if n > 0 && verif.Choose("asterisk_form", 8) == 7 {
		raw = []byte{'*'}
		n = 0
	}
	for i := 0; i < n; i++ {
		raw = append(raw, alphabet[verif.Choose("ch", len(alphabet))])
	}
	target := string(raw)
	var req fasthttp.Request
	req.Header.SetMethod("GET")
	req.Header.SetHost("h")
	req.Header.SetRequestURI(target)
	ctx := variable.NewVariableContext(context.Background())
	injectCtxVarFromProtocolHeaders(ctx, mosnhttp.RequestHeader{RequestHeader: &req.Header}, req.URI())
	var out fasthttp.RequestHeader
	FillRequestHeadersFromCtxVar(ctx, mosnhttp.RequestHeader{RequestHeader: &out}, zzAddr{})
	got := string(out.RequestURI())
	q := -1
	for i := 0; i < len(target) && q < 0; i++ {
		if target[i] == '?' {
			q = i
		}
	}
	if q == len(target)-1 {
		verif.Cover("empty-query")
		// empty query: known finding F20 (the '?' is dropped); anything beyond that loss is still a violation
		verif.Assert(got == target || got == target[:q], "HTTP/1.1 request target is not forwarded byte for byte")
		verif.Assert(got == target, "HTTP/1.1 request target with an empty query loses its '?'")
	} else {
		verif.Assert(got == target, "HTTP/1.1 request target is not forwarded byte for byte")
	}
	verif.Assert(string(out.Method()) == "GET", "method changed")
	verif.Cover("end")
}

var _ net.Addr = zzAddr{}

//verif:pkg mosn.io/mosn/pkg/stream/http
package http

import (
	"context"

	"mosn.io/mosn/pkg/zzverif/verif"
	"mosn.io/pkg/buffer"
)

// VerifC02_HTTPBufferRecycle: the per-request HTTP/1 buffers (request,
// response, stream objects on both sides) are recycled through the buffer
// pool. One exchange fills them - bodies (copied or raw), headers, status,
// stream state - and gives them back; the next exchange takes buffers from the
// pool (the recycled ones or fresh ones, both explored) and must find nothing
// of the previous exchange in them: a response written with headers only
// carries no body, no stale header, the default status.
func VerifC02_HTTPBufferRecycle() {
	verif.PoolReuse(true)
	ctx1 := buffer.NewBufferPoolContext(context.Background())
	b1 := httpBuffersByContext(ctx1)
	body := verif.Bytes("previous_body", 2)
	// the previous exchange
	if verif.Choose("raw_body", 2) == 1 {
		b1.serverResponse.SetBodyRaw(body) // what serverStream.AppendData does
		b1.clientRequest.SetBodyRaw(body)
	} else {
		b1.serverResponse.SetBody(body)
		b1.clientRequest.SetBody(body)
	}
	b1.serverResponse.SetStatusCode(503)
	b1.serverResponse.Header.Set("x-prev", "1")
	if verif.Choose("skip_body", 2) == 1 {
		b1.serverResponse.SkipBody = true
	}
	b1.serverRequest.SetBody(body)
	b1.serverRequest.Header.SetRequestURI("/prev")
	b1.clientResponse.SetBody(body)
	b1.clientResponse.SetStatusCode(404)
	b1.clientRequest.Header.Set("x-prev", "1")
	b1.serverStream.stream.id = 7
	b1.clientStream.stream.id = 9
	buffer.PoolContext(ctx1).Give()
	// the next exchange
	ctx2 := buffer.NewBufferPoolContext(context.Background())
	b2 := httpBuffersByContext(ctx2)
	if b2 == b1 {
		verif.Cover("recycled")
	} else {
		verif.Cover("fresh")
	}
	verif.Assert(len(b2.serverResponse.Body()) == 0 && !b2.serverResponse.SkipBody, "a downstream response written on recycled buffers carries the previous exchange's body state")
	verif.Assert(b2.serverResponse.StatusCode() == 200 && len(b2.serverResponse.Header.Peek("x-prev")) == 0, "a downstream response written on recycled buffers carries the previous exchange's status or headers")
	verif.Assert(len(b2.serverRequest.Body()) == 0 && string(b2.serverRequest.Header.RequestURI()) == "/", "recycled downstream request buffers carry the previous request")
	verif.Assert(len(b2.clientRequest.Body()) == 0 && len(b2.clientRequest.Header.Peek("x-prev")) == 0, "an upstream request written on recycled buffers carries the previous exchange's body or headers")
	verif.Assert(len(b2.clientResponse.Body()) == 0 && b2.clientResponse.StatusCode() == 200, "recycled upstream response buffers carry the previous response")
	verif.Assert(b2.serverStream.stream.id == 0 && b2.clientStream.stream.id == 0, "recycled stream objects carry the previous exchange's identity")
	verif.Cover("end")
}

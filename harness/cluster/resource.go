//verif:pkg mosn.io/mosn/pkg/upstream/cluster
package cluster

import (
	"time"

	gometrics "github.com/rcrowley/go-metrics"
	"mosn.io/mosn/pkg/zzverif/verif"
)

type time_Time = time.Time
type gometricsGauge = gometrics.Gauge

// VerifC10_Resource: one operation on an arbitrary resource counter.
func VerifC10_Resource() {
	cur := verif.I64("cur")
	max := verif.U64("max")
	r := &resource{current: cur, max: max}
	switch verif.Choose("op", 3) {
	case 0:
		r.Increase()
		if max == 0 {
			verif.Assert(r.Cur() == cur, "unlimited resource must not count")
		} else {
			verif.Assert(r.Cur() == cur+1, "Increase adds exactly one")
		}
		verif.Cover("inc")
	case 1:
		r.Decrease()
		if max == 0 {
			verif.Assert(r.Cur() == cur, "unlimited resource must not count")
		} else {
			verif.Assert(r.Cur() == cur-1, "Decrease removes exactly one")
		}
		verif.Cover("dec")
	default:
		ok := r.CanCreate()
		if max == 0 {
			verif.Assert(ok, "unlimited resource always admits")
		} else if cur >= 0 {
			verif.Assert(ok == (uint64(cur) < max), "limit trips exactly at the threshold")
		}
		verif.Assert(r.Cur() == cur, "CanCreate must not change the counter")
		verif.Cover("can")
	}
	verif.Assert(r.Max() == max, "max unchanged")
	verif.Cover("end")
}

type zzLBCounter struct{ n int64 }

func (c *zzLBCounter) Clear()                      { c.n = 0 }
func (c *zzLBCounter) Count() int64                { return c.n }
func (c *zzLBCounter) Dec(i int64)                 { c.n -= i }
func (c *zzLBCounter) Inc(i int64)                 { c.n += i }
func (c *zzLBCounter) Snapshot() gometrics.Counter { return c }

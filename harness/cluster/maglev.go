//verif:pkg mosn.io/mosn/pkg/upstream/cluster
package cluster

import (
	"context"
	"strconv"

	maglev "github.com/trainyao/go-maglev"
	"mosn.io/api"
	"mosn.io/mosn/pkg/types"
	"mosn.io/mosn/pkg/zzverif/verif"
	"mosn.io/pkg/variable"
)

type zzMgHash struct{ h uint64 }

func (p zzMgHash) GenerateHash(context.Context) uint64 { return p.h }

type zzMgPolicy struct {
	api.Policy
	h uint64
}

func (p zzMgPolicy) HashPolicy() api.HashPolicy { return zzMgHash{p.h} }

type zzMgRule struct {
	api.RouteRule
	h uint64
}

func (r zzMgRule) Policy() api.Policy { return zzMgPolicy{h: r.h} }

type zzMgRoute struct {
	api.Route
	h uint64
}

func (r zzMgRoute) RouteRule() api.RouteRule { return zzMgRule{h: r.h} }

type zzMgCtx struct {
	*zzLBCtx
	h uint64
}

func (c *zzMgCtx) DownstreamRoute() api.Route { return zzMgRoute{h: c.h} }

// VerifC05_Maglev: the consistent-hash balancer's ChooseHost for every table
// slot the request's hash can land on, every health pattern, as a first
// attempt or as a retry after any previously chosen index: a healthy member
// whenever one exists, none otherwise - never the unhealthy hashed host.
// Under the engine the table lookup is replaced by an arbitrary slot (the
// 65537-entry permutation table is not built); natively the real table is
// built and a hash that lands on the same slot is searched.
func VerifC05_Maglev() {
	n, unequal, c := zzLBSetup()
	hs := zzMakeHosts(n, unequal)
	verif.Assume(n > 0)
	slot := verif.Choose("table_slot", n)
	retry := verif.Choose("retry_after_index", n+1) // n = first attempt
	var lb *maglevLoadBalancer
	var hash uint64
	if verif.Symbolic() {
		verif.Replace("(*github.com/trainyao/go-maglev.Table).Lookup", func(t *maglev.Table, key uint64) int { return slot })
		lb = &maglevLoadBalancer{hosts: NewHostSet(hs), maglev: &maglev.Table{}}
	} else {
		lb = newMaglevLoadBalancer(nil, NewHostSet(hs)).(*maglevLoadBalancer)
		found := false
		for h := uint64(0); h < 1<<20; h++ {
			if lb.maglev.Lookup(h) == slot {
				hash, found = h, true
				break
			}
		}
		verif.Assume(found)
	}
	if retry < n {
		variable.SetString(c.ctx, VarProxyUpstreamIndex, strconv.Itoa(retry))
	}
	r := lb.ChooseHost(&zzMgCtx{zzLBCtx: c, h: hash})
	zzCheckChoice(hs, r, "maglev")
	if r != nil {
		// the recorded index names the chosen host (the next retry starts behind it)
		ind, err := variable.GetString(c.ctx, VarProxyUpstreamIndex)
		i, err2 := strconv.Atoi(ind)
		verif.Assert(err == nil && err2 == nil && i >= 0 && i < n && hs[i] == r, "maglev: the recorded upstream index does not name the chosen host")
		if retry < n && n > 1 {
			healthyOthers := false
			for j, h := range hs {
				if j != retry && h.Health() {
					healthyOthers = true
				}
			}
			if healthyOthers {
				verif.Assert(hs[retry] != r, "maglev: a retry was sent to the host that just failed although another healthy host exists")
			}
		}
		verif.Cover("chosen")
	}
	verif.Cover("end")
}

var _ types.Host

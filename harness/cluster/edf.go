//verif:pkg mosn.io/mosn/pkg/upstream/cluster
package cluster

import (
	"context"
	"math/rand"

	"mosn.io/mosn/pkg/types"
	"mosn.io/mosn/pkg/zzverif/verif"
)

// zzHeapOK: every parent is not greater than its children under edfEntryLess.
func zzHeapOK(h *edfHeap) bool {
	for i := 1; i < h.size; i++ {
		if edfEntryLess(h.elements[i], h.elements[(i-1)/2]) {
			return false
		}
	}
	return true
}

// VerifC06_EdfHeapStep: from any heap of up to m entries that satisfies the
// heap order (deadlines and queue times from a small range so that ties
// occur), one Push, or one "change the root's deadline and Fix(0)" (what
// NextAndPush does), keeps the heap order and the set of entries, and Peek is
// a minimum under (deadline, queuedTime). One inductive step: any history.
func VerifC06_EdfHeapStep() {
	m := verif.Choose("size", verif.Param("heap", 5, 7)+1)
	h := newEdfHeap(16)
	var all []*edfEntry
	for i := 0; i < m; i++ {
		e := &edfEntry{deadline: float64(verif.Choose("deadline", 3)), queuedTime: int64(i)}
		h.elements[i] = e
		all = append(all, e)
	}
	h.size = m
	verif.Assume(zzHeapOK(h)) // representation invariant of the pre-state
	if verif.Choose("op", 2) == 0 || m == 0 {
		e := &edfEntry{deadline: float64(verif.Choose("new_deadline", 3)), queuedTime: int64(m)}
		h.Push(e)
		all = append(all, e)
		verif.Cover("push")
	} else {
		root := h.Peek()
		root.deadline += float64(verif.Choose("increment", 3)) // 1/weight >= 0
		root.queuedTime = int64(m)
		h.Fix(0)
		verif.Cover("fix")
	}
	verif.Assert(h.size == len(all), "heap size")
	verif.Assert(zzHeapOK(h), "heap order broken by one operation")
	// same entries, each once
	for _, e := range all {
		n := 0
		for i := 0; i < h.size; i++ {
			if h.elements[i] == e {
				n++
			}
		}
		verif.Assert(n == 1, "an entry was lost or duplicated")
	}
	top := h.Peek()
	for _, e := range all {
		verif.Assert(!edfEntryLess(e, top), "Peek is not a minimum under (deadline, queuedTime)")
	}
	verif.Cover("end")
}

type zzWItem struct{ w uint32 }

func (i *zzWItem) Weight() uint32 { return i.w }

// VerifC06_EdfShares: with integer weights the EDF scheduler hands out picks
// in proportion: over any window of sum(w) consecutive picks from the start,
// item i is picked exactly w_i times (weights from a small set, two or three items).
func VerifC06_EdfShares() {
	n := 2 + verif.Choose("items", 2)
	s := newEdfScheduler(n)
	items := make([]*zzWItem, n)
	total := 0
	for i := range items {
		w := []uint32{1, 2, 4}[verif.Choose("weight", 3)]
		items[i] = &zzWItem{w}
		total += int(w)
		s.Add(items[i], float64(w))
	}
	counts := make([]int, n)
	for k := 0; k < total; k++ {
		it := s.NextAndPush(func(x WeightItem) float64 { return float64(x.Weight()) }).(*zzWItem)
		for i := range items {
			if items[i] == it {
				counts[i]++
			}
		}
	}
	for i := range items {
		verif.Assert(counts[i] == int(items[i].w), "over one full cycle an item was not picked exactly weight times")
	}
	verif.Cover("end")
}

// VerifC06_WRRShares: the weighted round-robin balancer over 2..3 healthy
// hosts with weights from {1,2,4} (every vector, equal ones included), started
// anywhere in its cycle (the warm-up draw is arbitrary): over sum(w)
// consecutive picks each host is chosen exactly w_i times.
func VerifC06_WRRShares() {
	verif.Replace("math/rand.NewSource", func(int64) rand.Source { return zzAnySource{} })
	n := 2 + verif.Choose("hosts", 2)
	var hs []types.Host
	total := 0
	for i := 0; i < n; i++ {
		w := []uint32{1, 2, 4}[verif.Choose("weight", 3)]
		hs = append(hs, &zzLBHost{name: zzHostNames[i], healthy: true, weight: w})
		total += int(w)
	}
	lb := newWRRLoadBalancer(nil, NewHostSet(hs)).(*WRRLoadBalancer)
	lb.rrLB.(*roundRobinLoadBalancer).rrIndex = uint32(verif.Choose("rr_start", 3))
	ctx := &zzLBCtx{ctx: context.Background()}
	counts := make([]int, n)
	for k := 0; k < total; k++ {
		h := lb.ChooseHost(ctx)
		for i := range hs {
			if hs[i] == h {
				counts[i]++
			}
		}
	}
	for i := range hs {
		verif.Assert(counts[i]*total == int(hs[i].Weight())*total, "over one full cycle a host was not chosen exactly weight times (configured weights ignored or skewed)")
	}
	verif.Cover("end")
}

// VerifC06_WRRLag: the weighted round-robin balancer over three hosts with
// weights from {1,2,4}, any health pattern with at least two healthy hosts,
// started anywhere in its cycle: in every window of consecutive picks the
// counts of two healthy hosts i, j satisfy |n_i/w_i - n_j/w_j| <= 1/w_i + 1/w_j
// (checked in integers), and no unhealthy host is ever picked.
func VerifC06_WRRLag() {
	verif.Replace("math/rand.NewSource", func(int64) rand.Source { return zzAnySource{} })
	n := 3
	var hs []types.Host
	total, healthy := 0, 0
	for i := 0; i < n; i++ {
		w := []uint32{1, 2, 4}[verif.Choose("weight", 3)]
		ok := verif.Choose("healthy", 2) == 1
		if ok {
			healthy++
		}
		hs = append(hs, &zzLBHost{name: zzHostNames[i], healthy: ok, weight: w})
		total += int(w)
	}
	verif.Assume(healthy >= 2)
	lb := newWRRLoadBalancer(nil, NewHostSet(hs)).(*WRRLoadBalancer)
	lb.rrLB.(*roundRobinLoadBalancer).rrIndex = uint32(verif.Choose("rr_start", 3))
	ctx := &zzLBCtx{ctx: context.Background()}
	K := 2 * total
	picks := make([]int, K)
	for k := 0; k < K; k++ {
		h := lb.ChooseHost(ctx)
		picks[k] = -1
		for i := range hs {
			if hs[i] == h {
				picks[k] = i
			}
		}
		verif.Assert(picks[k] >= 0 && hs[picks[k]].Health(), "weighted round-robin picked no host or an unhealthy one although healthy hosts exist")
		if picks[k] < 0 {
			return
		}
	}
	okLag := true
	for a := 0; a < K && okLag; a++ {
		cnt := make([]int, n)
		for b := a; b < K && okLag; b++ {
			cnt[picks[b]]++
			for i := 0; i < n; i++ {
				for j := i + 1; j < n; j++ {
					if !hs[i].Health() || !hs[j].Health() {
						continue
					}
					wi, wj := int(hs[i].Weight()), int(hs[j].Weight())
					d := cnt[i]*wj - cnt[j]*wi
					if d < 0 {
						d = -d
					}
					if d > wi+wj {
						okLag = false
					}
				}
			}
		}
	}
	verif.Assert(okLag, "a window of consecutive picks violates the weighted round-robin lag bound between two healthy hosts")
	if healthy < n {
		verif.Cover("with-unhealthy-host")
	}
	verif.Cover("end")
}

// VerifC06_WRRRecovered: the balancer is built while some (or all) hosts are
// unhealthy - host health changes do not rebuild it - and then every host
// recovers. From then on the configured weights hold again: over one full
// cycle each host is chosen exactly weight times, also the hosts that were
// unhealthy when the balancer was built; with some picks made before the
// recovery, a recovered host is chosen again within two cycles.
func VerifC06_WRRRecovered() {
	verif.Replace("math/rand.NewSource", func(int64) rand.Source { return zzAnySource{} })
	n := 2 + verif.Choose("hosts", 2)
	var hs []types.Host
	var ms []*zzLBHost
	total := 0
	unhealthy := 0
	for i := 0; i < n; i++ {
		w := []uint32{1, 2, 4}[verif.Choose("weight", 3)]
		ok := verif.Choose("healthy_at_build", 2) == 1
		if !ok {
			unhealthy++
		}
		m := &zzLBHost{name: zzHostNames[i], healthy: ok, weight: w}
		ms = append(ms, m)
		hs = append(hs, m)
		total += int(w)
	}
	verif.Assume(unhealthy > 0)
	lb := newWRRLoadBalancer(nil, NewHostSet(hs)).(*WRRLoadBalancer)
	lb.rrLB.(*roundRobinLoadBalancer).rrIndex = uint32(verif.Choose("rr_start", 3))
	ctx := &zzLBCtx{ctx: context.Background()}
	before := 2 * verif.Choose("picks_before_recovery", 2)
	for k := 0; k < before; k++ {
		h := lb.ChooseHost(ctx)
		verif.Assert(h == nil || h.Health(), "an unhealthy host was picked")
	}
	for _, m := range ms {
		m.healthy = true
	}
	counts := make([]int, n)
	rounds := 1
	if before > 0 {
		rounds = 2
	}
	for k := 0; k < rounds*total; k++ {
		h := lb.ChooseHost(ctx)
		for i := range hs {
			if hs[i] == h {
				counts[i]++
			}
		}
	}
	for i := range hs {
		if before == 0 {
			verif.Assert(counts[i] == int(hs[i].Weight()), "after all hosts recovered a host is not chosen exactly weight times per cycle (a host unhealthy when the balancer was built stays out, or weights are ignored)")
		} else {
			verif.Assert(counts[i] > 0, "a recovered host is not chosen within two full cycles")
		}
	}
	verif.Cover("end")
}

// VerifC06_EdfEntryOrder: the heap's ordering function at small and at large
// virtual times. Deadlines are concrete (no float theory): T + 1/w for a
// catalogue of virtual times T up to 1e12 and weight pairs (127,128), (64,127),
// (3,5), (1,128) - at large T the two deadlines differ in their last few bits
// only. Queue times are arbitrary 64-bit values. The entry with the strictly
// smaller deadline is always first, whatever the queue times; only exactly
// equal deadlines are ordered by queue time.
func VerifC06_EdfEntryOrder() {
	ts := []float64{0, 1, 1e3, 2e5, 1e7, 1e9, 1e12}
	ws := [][2]float64{{127, 128}, {64, 127}, {3, 5}, {1, 128}}
	t := ts[verif.Choose("virtual_time", len(ts))]
	w := ws[verif.Choose("weights", len(ws))]
	a := &edfEntry{deadline: t + 1/w[0], queuedTime: int64(verif.U64("queued_a"))}
	b := &edfEntry{deadline: t + 1/w[1], queuedTime: int64(verif.U64("queued_b"))}
	switch {
	case a.deadline < b.deadline:
		verif.Assert(edfEntryLess(a, b) && !edfEntryLess(b, a), "the entry with the strictly earlier deadline is not ordered first")
		verif.Cover("distinct")
	case a.deadline > b.deadline:
		verif.Assert(edfEntryLess(b, a) && !edfEntryLess(a, b), "the entry with the strictly earlier deadline is not ordered first")
		verif.Cover("distinct")
	default:
		// the float sum absorbed the difference: a genuine tie, ordered by age
		verif.Assert(edfEntryLess(a, b) == (a.queuedTime < b.queuedTime), "entries with equal deadlines are not ordered by queue time")
	}
	c := &edfEntry{deadline: a.deadline, queuedTime: int64(verif.U64("queued_c"))}
	verif.Assert(edfEntryLess(a, c) == (a.queuedTime < c.queuedTime), "entries with equal deadlines are not ordered by queue time")
	verif.Cover("end")
}

//verif:pkg mosn.io/mosn/pkg/upstream/cluster
package cluster

import (
	"mosn.io/pkg/variable"
	"math/rand"
	"context"
	"net"

	"mosn.io/api"

	v2 "mosn.io/mosn/pkg/config/v2"
	"mosn.io/mosn/pkg/configmanager"
	"mosn.io/mosn/pkg/types"
	"mosn.io/mosn/pkg/zzverif/verif"
)

var zzAddrs = []string{"10.0.0.1:80", "10.0.0.2:80", "10.0.0.3:80"}

func zzHostCfgs(mask int) []v2.Host { return zzHostCfgsL(mask, "") }

// zzHostCfgsL: hosts with the metadata label version=<label> ("" = no metadata).
func zzHostCfgsL(mask int, label string) []v2.Host {
	var hs []v2.Host
	for i, a := range zzAddrs {
		if mask&(1<<i) != 0 {
			h := v2.Host{HostConfig: v2.HostConfig{Address: a, Hostname: a}}
			if label != "" {
				h.MetaData = api.Metadata{"version": label}
			}
			hs = append(hs, h)
		}
	}
	return hs
}

// zzRecorded: the cluster entry of the recorded (dumped) configuration.
func zzRecorded(name string) (c v2.Cluster, ok bool) {
	configmanager.HandleMOSNConfig(configmanager.CfgTypeCluster, func(v interface{}) {
		m, _ := v.(map[string]v2.Cluster)
		c, ok = m[name]
	})
	return
}

// VerifC12_ClusterHosts: after every operation of a short sequence of cluster
// manager updates (cluster add/update with and without inline hosts, host
// replace / append / remove, cluster removal) the recorded configuration of
// the cluster lists exactly the hosts the live cluster serves, in the same
// order, carries the attributes of the last cluster update, and the live host
// list is what the operations' documented meaning gives.
func VerifC12_ClusterHosts() {
	verif.Replace("mosn.io/mosn/pkg/configmanager.tryDump", func() {})
	// metrics registries (reflection-driven) are replaced by empty stats records: no
	// operation explored here reads or writes a statistic
	verif.Replace("mosn.io/mosn/pkg/upstream/cluster.newHostStats", func(string, string) *types.HostStats { return &types.HostStats{} })
	verif.Replace("mosn.io/mosn/pkg/upstream/cluster.newClusterStats", func(string) *types.ClusterStats { return &types.ClusterStats{} })
	// address pre-resolution (net.ResolveTCPAddr: resolver I/O) is not the subject
	verif.Replace("mosn.io/mosn/pkg/upstream/cluster.GetOrCreateAddr", func(string) net.Addr { return nil })
	verif.Replace("math/rand.NewSource", func(int64) rand.Source { return zzAnySource{} })
	configmanager.Reset()
	cm := &clusterManager{protocolConnPool: newConnPool(false)}
	steps := verif.Param("cmsteps", 3, 4)
	exists := false
	var model []string // addresses the live cluster must serve, in order
	maxReq := uint32(0)
	// circuit breaker thresholds of the successive cluster updates: set, removed, set to another value
	thresholds := []uint32{2, 0, 5, 0}
	maxConn := uint32(0)
	for s := 0; s < steps; s++ {
		switch verif.Choose("op", 6) {
		case 0: // CDS add/update; inline hosts in the config are not what the cluster serves
			maxReq = uint32(s + 1)
			c := v2.Cluster{Name: "c", LbType: v2.LB_ROUNDROBIN, MaxRequestPerConn: maxReq, Hosts: zzHostCfgs(verif.Choose("inline_hosts", 2) * 4)}
			maxConn = thresholds[s%len(thresholds)]
			if maxConn > 0 {
				c.CirBreThresholds = v2.CircuitBreakers{Thresholds: []v2.Thresholds{{MaxConnections: maxConn, MaxRequests: maxConn}}}
			}
			verif.Assert(cm.AddOrUpdatePrimaryCluster(c) == nil, "cluster update refused")
			if !exists {
				model = nil
			}
			exists = true
		case 1: // CDS+EDS in one call
			maxReq = uint32(s + 1)
			mask := 1 + verif.Choose("hosts", 3)
			c := v2.Cluster{Name: "c", LbType: v2.LB_ROUNDROBIN, MaxRequestPerConn: maxReq, Hosts: zzHostCfgs(mask)}
			maxConn = thresholds[s%len(thresholds)]
			if maxConn > 0 {
				c.CirBreThresholds = v2.CircuitBreakers{Thresholds: []v2.Thresholds{{MaxConnections: maxConn, MaxRequests: maxConn}}}
			}
			verif.Assert(cm.AddOrUpdateClusterAndHost(c, zzHostCfgs(mask)) == nil, "cluster update refused")
			model = nil
			for _, h := range zzHostCfgs(mask) {
				model = append(model, h.Address)
			}
			exists = true
		case 2: // EDS replace (the same addresses may come back with another metadata label)
			mask := verif.Choose("hosts", 4)
			label := []string{"v1", "v2", ""}[verif.Choose("label", verif.Param("labels", 2, 3))]
			err := cm.UpdateClusterHosts("c", zzHostCfgsL(mask, label))
			verif.Assert((err == nil) == exists, "host update on a missing cluster must fail, on an existing one succeed")
			if exists {
				model = nil
				for _, h := range zzHostCfgs(mask) {
					model = append(model, h.Address)
				}
			}
		case 3: // append
			err := cm.AppendClusterHosts("c", zzHostCfgs(4))
			verif.Assert((err == nil) == exists, "host append on a missing cluster must fail, on an existing one succeed")
			if exists {
				model = zzDistinct(append([]string{zzAddrs[2]}, model...)) // a host set is distinct by address, first kept
			}
		case 4: // remove by address
			k := verif.Choose("remove", 3)
			err := cm.RemoveClusterHosts("c", []string{zzAddrs[k]})
			verif.Assert((err == nil) == exists, "host removal on a missing cluster must fail, on an existing one succeed")
			if exists {
				// removes one host with that address; the remaining hosts are kept sorted by address
				var rest []string
				removed := false
				for _, a := range zzSorted(model) {
					if a == zzAddrs[k] && !removed {
						removed = true
						continue
					}
					rest = append(rest, a)
				}
				model = rest
			}
		default: // removal of the cluster
			err := cm.RemovePrimaryCluster("c")
			verif.Assert((err == nil) == exists, "removing a missing cluster must fail, an existing one succeed")
			exists = false
			model = nil
		}
		// live
		var live []string
		var liveMeta []string
		snap := cm.GetClusterSnapshot(context.Background(), "c")
		verif.Assert((snap != nil) == exists, "live cluster presence differs from the operations applied")
		if snap != nil {
			snap.HostSet().Range(func(h types.Host) bool {
				live = append(live, h.AddressString())
				liveMeta = append(liveMeta, h.Metadata()["version"])
				return true
			})
		}
		rec, ok := zzRecorded("c")
		verif.Assert(ok == exists, "recorded configuration lists a cluster that does not exist live (or misses a live one)")
		if ok && exists {
			verif.Assert(rec.MaxRequestPerConn == maxReq, "recorded cluster attributes are not those of the last update")
			verif.Assert(snap.ClusterInfo().MaxRequestsPerConn() == maxReq, "live cluster attributes are not those of the last update")
			rm := snap.ClusterInfo().ResourceManager()
			verif.Assert(rm.Connections().Max() == uint64(maxConn) && rm.Requests().Max() == uint64(maxConn), "the live circuit breaker thresholds are not those of the last cluster update (a removed limit is still enforced, or a new one is not)")
			recMax := uint32(0)
			if len(rec.CirBreThresholds.Thresholds) > 0 {
				recMax = rec.CirBreThresholds.Thresholds[0].MaxConnections
			}
			verif.Assert(recMax == maxConn, "the recorded circuit breaker thresholds are not those of the last cluster update")
			same := len(rec.Hosts) == len(live)
			for i := 0; same && i < len(live); i++ {
				same = rec.Hosts[i].Address == live[i] && rec.Hosts[i].MetaData["version"] == liveMeta[i]
			}
			verif.Assert(same, "recorded host list (addresses and metadata) differs from the hosts the live cluster serves")
			okModel := len(model) == len(live)
			for i := 0; okModel && i < len(live); i++ {
				okModel = model[i] == live[i]
			}
			verif.Assert(okModel, "live host list differs from what the update operations mean")
			// a lookup through the cluster's balancer only ever returns a host the operations left in the cluster
			h := snap.LoadBalancer().ChooseHost(&zzLBCtx{ctx: variable.NewVariableContext(context.Background())})
			if len(model) == 0 {
				verif.Assert(h == nil, "a lookup returned a host although the cluster has none")
			} else {
				in := false
				for _, a := range model {
					if h != nil && h.AddressString() == a {
						in = true
					}
				}
				verif.Assert(in, "a lookup returned a host that was removed from the cluster (or none although hosts exist)")
			}
		}
	}
	verif.Cover("end")
}

func zzSorted(a []string) []string {
	out := append([]string(nil), a...)
	for i := 1; i < len(out); i++ {
		for j := i; j > 0 && out[j] < out[j-1]; j-- {
			out[j], out[j-1] = out[j-1], out[j]
		}
	}
	return out
}

func zzDistinct(a []string) []string {
	var out []string
	for _, x := range a {
		dup := false
		for _, y := range out {
			dup = dup || x == y
		}
		if !dup {
			out = append(out, x)
		}
	}
	return out
}

// VerifC05_LookupDuringClusterUpdate: a lookup that overlaps an update of an
// existing cluster (configuration update that inherits the hosts, or a
// combined cluster-and-hosts update) sees the cluster entirely before or
// entirely after the update - never a published cluster whose hosts have not
// been installed yet: with healthy hosts before and after, a host is chosen.
func VerifC05_LookupDuringClusterUpdate() {
	verif.Switches(verif.Param("lookup_switches", 3, 4))
	verif.Replace("mosn.io/mosn/pkg/configmanager.tryDump", func() {})
	verif.Replace("mosn.io/mosn/pkg/upstream/cluster.newHostStats", func(string, string) *types.HostStats { return &types.HostStats{} })
	verif.Replace("mosn.io/mosn/pkg/upstream/cluster.newClusterStats", func(string) *types.ClusterStats { return &types.ClusterStats{} })
	verif.Replace("mosn.io/mosn/pkg/upstream/cluster.GetOrCreateAddr", func(string) net.Addr { return nil })
	configmanager.Reset()
	cm := &clusterManager{protocolConnPool: newConnPool(false)}
	c := v2.Cluster{Name: "c", LbType: v2.LB_ROUNDROBIN}
	verif.Assume(cm.AddOrUpdateClusterAndHost(c, zzHostCfgs(3)) == nil) // two hosts
	kind := verif.Choose("update_kind", 2)
	done := false
	go func() {
		c2 := v2.Cluster{Name: "c", LbType: v2.LB_ROUNDROBIN, MaxRequestPerConn: 9}
		if kind == 0 {
			cm.AddOrUpdatePrimaryCluster(c2) // hosts are inherited
		} else {
			cm.AddOrUpdateClusterAndHost(c2, zzHostCfgs(6)) // two hosts again (one kept, one new)
		}
		done = true
	}()
	// the lookup of a request, at any point of the update
	verif.EngineOnly("the lookup must fall between two steps of the concurrent update: needs a controlled schedule")
	snap := cm.GetClusterSnapshot(context.Background(), "c")
	verif.Assert(snap != nil, "the cluster disappeared during its own update")
	if snap != nil {
		n := snap.HostSet().Size()
		verif.Assert(n == 2, "a lookup during a cluster update saw a host set that is neither the old nor the new one")
		if done {
			verif.Cover("after")
		} else {
			verif.Cover("during-or-before")
		}
	}
	verif.Settle()
	verif.Cover("end")
}

// VerifC05_ClusterHosts: the same exploration counted for C05 - after any short
// sequence of host-set updates (replace, append, removal of one or two
// addresses, cluster update) a lookup returns only a member of the host set the
// operations left behind.
func VerifC05_ClusterHosts() {
	VerifC12_ClusterHosts()
	verif.Cover("c05")
}

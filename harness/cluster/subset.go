//verif:pkg mosn.io/mosn/pkg/upstream/cluster
package cluster

import (
	"context"
	"math/rand"
	"net"

	"mosn.io/api"
	v2 "mosn.io/mosn/pkg/config/v2"
	"mosn.io/mosn/pkg/types"
	"mosn.io/mosn/pkg/zzverif/verif"
	"mosn.io/pkg/variable"
)

type zzSubGauge struct{ n int64 }

func (g *zzSubGauge) Snapshot() gometricsGauge { return g }
func (g *zzSubGauge) Update(v int64)           { g.n = v }
func (g *zzSubGauge) Value() int64             { return g.n }

type zzSubInfo struct {
	types.ClusterInfo
	sub types.LBSubsetInfo
	st  *types.ClusterStats
}

func (i *zzSubInfo) Name() string                     { return "c" }
func (i *zzSubInfo) LbType() types.LoadBalancerType   { return types.RoundRobin }
func (i *zzSubInfo) LbSubsetInfo() types.LBSubsetInfo { return i.sub }
func (i *zzSubInfo) Stats() *types.ClusterStats       { return i.st }
func (i *zzSubInfo) SlowStart() types.SlowStart       { return types.SlowStart{} }
func (i *zzSubInfo) LbConfig() *v2.LbConfig           { return nil }

type zzMetaHost struct {
	zzLBHost
	meta api.Metadata
}

func (h *zzMetaHost) Metadata() api.Metadata { return h.meta }

type zzCriterion struct{ k, v string }

func (c *zzCriterion) MetadataKeyName() string { return c.k }
func (c *zzCriterion) MetadataValue() string   { return c.v }

type zzCriteria struct{ cs []api.MetadataMatchCriterion }

func (c *zzCriteria) MetadataMatchCriteria() []api.MetadataMatchCriterion { return c.cs }
func (c *zzCriteria) MergeMatchCriteria(map[string]string) api.MetadataMatchCriteria {
	return c
}

type zzSubCtx struct {
	ctx  context.Context
	crit api.MetadataMatchCriteria
}

func (c *zzSubCtx) MetadataMatchCriteria() api.MetadataMatchCriteria { return c.crit }
func (c *zzSubCtx) DownstreamConnection() net.Conn                   { return nil }
func (c *zzSubCtx) DownstreamHeaders() api.HeaderMap                 { return nil }
func (c *zzSubCtx) DownstreamContext() context.Context               { return c.ctx }
func (c *zzSubCtx) DownstreamCluster() types.ClusterInfo             { return nil }
func (c *zzSubCtx) DownstreamRoute() api.Route                       { return nil }

func zzHas(h types.Host, kvs []zzCriterion) bool {
	m := h.Metadata()
	for _, kv := range kvs {
		v, ok := m[kv.k]
		if !ok || v != kv.v {
			return false
		}
	}
	return true
}

// VerifC15_Subset: metadata match returns only hosts carrying every criteria
// pair when a selector with exactly the criteria's keys exists and such a host
// exists; otherwise exactly the fallback policy's host set. Both builders
// (filter and pre-index) must agree.
func VerifC15_Subset() {
	verif.Replace("math/rand.NewSource", func(int64) rand.Source { return zzAnySource{} })
	n := verif.Param("hosts", 2, 3)
	var hs []types.Host
	for i := 0; i < n; i++ {
		meta := api.Metadata{}
		hasK1, hasK2 := false, false
		if verif.Tier() == 0 {
			switch verif.Choose("keys", 3) { // quick: k1 only, k1+k2, none
			case 0:
				hasK1 = true
			case 1:
				hasK1, hasK2 = true, true
			}
		} else {
			hasK1, hasK2 = verif.Choose("has_k1", 2) == 1, verif.Choose("has_k2", 2) == 1
		}
		if hasK1 {
			meta["k1"] = verif.Str("v1", 1)
		}
		if hasK2 {
			meta["k2"] = verif.Str("v2", 1)
		}
		h := &zzMetaHost{meta: meta}
		h.name, h.healthy, h.weight = zzHostNames[i], true, 10
		hs = append(hs, h)
	}
	// selectors: a subset of {[k1],[k2],[k1,k2]}
	var sel [][]string
	var hasSel [3]bool
	repeatKey := false
	longFirst := false // the two-key selector is listed before the one-key selector that is its sorted prefix
	if verif.Tier() == 0 {
		switch verif.Choose("selectors", 6) { // quick: {}, {[k1]}, {[k1,k2]}, {[k1],[k2]}, {[k1,k2],[k1]}, {[k2,k1,k2]}
		case 5:
			// a selector may name a key more than once (not next to each other): it is the same key set
			hasSel[2] = true
			repeatKey = true
		case 1:
			hasSel[0] = true
		case 2:
			hasSel[2] = true
		case 3:
			hasSel[0], hasSel[1] = true, true
		case 4:
			hasSel[0], hasSel[2] = true, true
			longFirst = true
		}
	} else {
		hasSel = [3]bool{verif.Choose("sel_k1", 2) == 1, verif.Choose("sel_k2", 2) == 1, verif.Choose("sel_k1k2", 2) == 1}
		longFirst = verif.Choose("long_selector_first", 2) == 1
		repeatKey = verif.Choose("selector_repeats_key", 2) == 1
	}
	twoKeys := []string{"k2", "k1"}
	if repeatKey {
		twoKeys = []string{"k2", "k1", "k2"}
	}
	if longFirst && hasSel[2] {
		sel = append(sel, twoKeys)
	}
	if hasSel[0] {
		sel = append(sel, []string{"k1"})
	}
	if hasSel[1] {
		sel = append(sel, []string{"k2"})
	}
	if hasSel[2] && !longFirst {
		sel = append(sel, twoKeys)
	}
	policy := verif.Choose("fallback", 3) // 0 none, 1 any, 2 default subset
	dv := verif.Str("default_v1", 1)
	cfg := &v2.LBSubsetConfig{FallBackPolicy: uint8(policy), SubsetSelectors: sel, DefaultSubset: map[string]string{"k1": dv}}
	info := &zzSubInfo{sub: NewLBSubsetInfo(cfg), st: &types.ClusterStats{LBSubSetsFallBack: &zzLBCounter{}, LBSubsetsCreated: &zzSubGauge{}}}
	// criteria: which keys, with which values (k3 is a key no host has)
	var crit []zzCriterion
	var cs []api.MetadataMatchCriterion
	shape := verif.Choose("criteria", 5) // 0: k1, 1: k2, 2: k1+k2, 3: k3, 4: none
	if shape == 0 || shape == 2 {
		crit = append(crit, zzCriterion{"k1", verif.Str("c1", 1)})
	}
	if shape == 1 || shape == 2 {
		crit = append(crit, zzCriterion{"k2", verif.Str("c2", 1)})
	}
	if shape == 3 {
		crit = append(crit, zzCriterion{"k3", "x"})
	}
	for i := range crit {
		cs = append(cs, &crit[i])
	}
	ctx := &zzSubCtx{ctx: variable.NewVariableContext(context.Background())}
	if shape != 4 {
		ctx.crit = &zzCriteria{cs}
	}
	// reference
	selectorExists := (shape == 0 && hasSel[0]) || (shape == 1 && hasSel[1]) || (shape == 2 && hasSel[2])
	matching := 0
	for _, h := range hs {
		if zzHas(h, crit) {
			matching++
		}
	}
	for variant := 0; variant < 2; variant++ {
		var lb types.LoadBalancer
		if variant == 0 {
			lb = NewSubsetLoadBalancer(info, NewHostSet(hs))
		} else {
			lb = NewSubsetLoadBalancerPreIndex(info, NewHostSet(hs))
		}
		r := lb.ChooseHost(ctx)
		member := r == nil
		for _, h := range hs {
			if r == h {
				member = true
			}
		}
		verif.Assert(member, "subset balancer chose a host outside the cluster")
		want := 0 // size of the host set the request may be sent to
		switch {
		case shape == 4:
			verif.Assert(r != nil, "no criteria: any host of the cluster")
			want = n
		case selectorExists && matching > 0:
			verif.Assert(r != nil && zzHas(r, crit), "subset match must return a host carrying every criteria pair")
			want = matching
			verif.Cover("matched")
		case policy == 0:
			verif.Assert(r == nil, "fallback none must not return a host")
			verif.Cover("fallback-none")
		case policy == 1:
			verif.Assert(r != nil, "fallback any-endpoint must return some host")
			want = n
			verif.Cover("fallback-any")
		default:
			def := []zzCriterion{{"k1", dv}}
			anyDef := false
			for _, h := range hs {
				if zzHas(h, def) {
					anyDef = true
					want++
				}
			}
			if anyDef {
				verif.Assert(r != nil && zzHas(r, def), "fallback default-subset must return a host of the default subset")
			} else {
				verif.Assert(r == nil, "empty default subset must not return a host")
			}
			verif.Cover("fallback-default")
		}
		// HostNum / IsExistsHosts gate the request in the cluster manager: they must
		// describe the same host set ChooseHost draws from (match, else the fallback).
		var mc api.MetadataMatchCriteria
		if shape != 4 {
			mc = ctx.crit
		}
		verif.Assert(lb.HostNum(mc) == want, "HostNum is not the size of the matched subset / fallback host set")
		verif.Assert(lb.IsExistsHosts(mc) == (want > 0), "IsExistsHosts disagrees with the matched subset / fallback host set")
	}
	verif.Cover("end")
}

// VerifC15_SubsetHealth: health inside the subset layer. The request's
// criteria match a non-empty subset; hosts are healthy or not in every
// pattern. A healthy host of the matched subset is returned when one exists;
// when the subset has no usable host the fallback policy applies (none: no
// host; any-endpoint: a healthy host of the cluster if there is one;
// default-subset: a healthy host of the default subset if there is one).
// Never an unhealthy host, never a host outside the applicable set, and no
// host only if the applicable sets hold no healthy one (C05 through C15).
func VerifC15_SubsetHealth() {
	verif.Replace("math/rand.NewSource", func(int64) rand.Source { return zzAnySource{} })
	vals := []string{"a", "a", "b"}
	var hs []types.Host
	for i := 0; i < 3; i++ {
		h := &zzMetaHost{meta: api.Metadata{"k1": vals[i]}}
		h.name, h.healthy, h.weight = zzHostNames[i], verif.Choose("healthy", 2) == 1, 10
		hs = append(hs, h)
	}
	policy := verif.Choose("fallback", 3)
	dv := []string{"a", "b"}[verif.Choose("default_value", 2)]
	cfg := &v2.LBSubsetConfig{FallBackPolicy: uint8(policy), SubsetSelectors: [][]string{{"k1"}}, DefaultSubset: map[string]string{"k1": dv}}
	info := &zzSubInfo{sub: NewLBSubsetInfo(cfg), st: &types.ClusterStats{LBSubSetsFallBack: &zzLBCounter{}, LBSubsetsCreated: &zzSubGauge{}}}
	crit := []zzCriterion{{"k1", []string{"a", "b"}[verif.Choose("criteria_value", 2)]}}
	ctx := &zzSubCtx{ctx: variable.NewVariableContext(context.Background())}
	ctx.crit = &zzCriteria{[]api.MetadataMatchCriterion{&crit[0]}}
	healthyIn := func(kvs []zzCriterion) int {
		n := 0
		for _, h := range hs {
			if h.Health() && zzHas(h, kvs) {
				n++
			}
		}
		return n
	}
	for variant := 0; variant < 2; variant++ {
		var lb types.LoadBalancer
		if variant == 0 {
			lb = NewSubsetLoadBalancer(info, NewHostSet(hs))
		} else {
			lb = NewSubsetLoadBalancerPreIndex(info, NewHostSet(hs))
		}
		r := lb.ChooseHost(ctx)
		if r != nil {
			verif.Assert(r.Health(), "subset balancer returned an unhealthy host")
		}
		switch {
		case healthyIn(crit) > 0:
			verif.Assert(r != nil && zzHas(r, crit), "a healthy host of the matched subset exists and must be chosen")
			verif.Cover("matched")
		case policy == 0:
			verif.Assert(r == nil, "fallback none must not return a host")
		case policy == 1:
			verif.Assert((r != nil) == (healthyIn(nil) > 0), "matched subset has no usable host: any-endpoint fallback returns a healthy cluster member iff one exists")
			verif.Cover("fallback-any")
		default:
			def := []zzCriterion{{"k1", dv}}
			verif.Assert((r != nil) == (healthyIn(def) > 0), "matched subset has no usable host: default-subset fallback returns a healthy default-subset host iff one exists")
			if r != nil {
				verif.Assert(zzHas(r, def), "default-subset fallback returned a host outside the default subset")
			}
			verif.Cover("fallback-default")
		}
	}
	verif.Cover("end")
}

// VerifC05_SubsetHealth: the same exploration counted for C05 (a healthy
// member is returned whenever the applicable host set has one).
func VerifC05_SubsetHealth() {
	VerifC15_SubsetHealth()
	verif.Cover("subset-health")
}

// VerifC15_SubsetFourHosts: four hosts with every assignment of two values to
// two metadata keys, selectors [k1] and [k2]: for single-key criteria both
// builders send the request only to hosts carrying the pair and report the
// subset's true size (distinct subsets whose host-index sets have the same
// minimum, maximum and size occur here, which three hosts cannot produce).
func VerifC15_SubsetFourHosts() {
	verif.Replace("math/rand.NewSource", func(int64) rand.Source { return zzAnySource{} })
	var hs []types.Host
	for i := 0; i < 4; i++ {
		h := &zzMetaHost{meta: api.Metadata{"k1": []string{"a", "b"}[verif.Choose("v1", 2)], "k2": []string{"a", "b"}[verif.Choose("v2", 2)]}}
		h.name, h.healthy, h.weight = zzHostNames[i], true, 10
		hs = append(hs, h)
	}
	cfg := &v2.LBSubsetConfig{FallBackPolicy: 0, SubsetSelectors: [][]string{{"k1"}, {"k2"}}}
	info := &zzSubInfo{sub: NewLBSubsetInfo(cfg), st: &types.ClusterStats{LBSubSetsFallBack: &zzLBCounter{}, LBSubsetsCreated: &zzSubGauge{}}}
	for variant := 0; variant < 2; variant++ {
		var lb types.LoadBalancer
		if variant == 0 {
			lb = NewSubsetLoadBalancer(info, NewHostSet(hs))
		} else {
			lb = NewSubsetLoadBalancerPreIndex(info, NewHostSet(hs))
		}
		for _, k := range []string{"k1", "k2"} {
			for _, v := range []string{"a", "b"} {
				crit := []zzCriterion{{k, v}}
				ctx := &zzSubCtx{ctx: variable.NewVariableContext(context.Background())}
				ctx.crit = &zzCriteria{[]api.MetadataMatchCriterion{&crit[0]}}
				matching := 0
				for _, h := range hs {
					if zzHas(h, crit) {
						matching++
					}
				}
				verif.Assert(lb.HostNum(ctx.crit) == matching, "HostNum of a subset differs from the number of hosts carrying the pair")
				// every host of the subset's balancer: round-robin visits them all in `matching` picks
				for pick := 0; pick < matching; pick++ {
					r := lb.ChooseHost(ctx)
					verif.Assert(r != nil && zzHas(r, crit), "a request was sent to a host that does not carry the criteria pair")
				}
				if matching == 0 {
					verif.Assert(lb.ChooseHost(ctx) == nil, "no host carries the pair and fallback is none: no host")
				}
			}
		}
	}
	verif.Cover("end")
}

// VerifC05_SubsetFourHosts: the same exploration counted for C05 (a host
// outside the applicable set is never returned).
func VerifC05_SubsetFourHosts() {
	VerifC15_SubsetFourHosts()
	verif.Cover("four-hosts")
}

// VerifC15_SubsetDeepSelector: one selector of 1..4 keys; three hosts agree on
// all but the last key, whose value is x or y per host (every assignment).
// For criteria naming all selector keys both builders report the subset's
// true size and only choose hosts carrying every pair (the pre-index builder
// builds its key combinations incrementally from shared prefixes, which only
// shows with three or more keys).
func VerifC15_SubsetDeepSelector() {
	verif.Replace("math/rand.NewSource", func(int64) rand.Source { return zzAnySource{} })
	keys := []string{"k1", "k2", "k3", "k4"}[:1+verif.Choose("selector_keys", 4)]
	last := keys[len(keys)-1]
	var hs []types.Host
	for i := 0; i < 3; i++ {
		meta := api.Metadata{}
		for _, k := range keys {
			meta[k] = "a"
		}
		meta[last] = []string{"x", "y"}[verif.Choose("last_value", 2)]
		h := &zzMetaHost{meta: meta}
		h.name, h.healthy, h.weight = zzHostNames[i], true, 10
		hs = append(hs, h)
	}
	// selector keys are given in reverse order: the balancer sorts them
	var sel []string
	for i := len(keys) - 1; i >= 0; i-- {
		sel = append(sel, keys[i])
	}
	cfg := &v2.LBSubsetConfig{FallBackPolicy: 0, SubsetSelectors: [][]string{sel}}
	info := &zzSubInfo{sub: NewLBSubsetInfo(cfg), st: &types.ClusterStats{LBSubSetsFallBack: &zzLBCounter{}, LBSubsetsCreated: &zzSubGauge{}}}
	for variant := 0; variant < 2; variant++ {
		var lb types.LoadBalancer
		if variant == 0 {
			lb = NewSubsetLoadBalancer(info, NewHostSet(hs))
		} else {
			lb = NewSubsetLoadBalancerPreIndex(info, NewHostSet(hs))
		}
		for _, v := range []string{"x", "y"} {
			var crit []zzCriterion
			for _, k := range keys {
				crit = append(crit, zzCriterion{k, "a"})
			}
			crit[len(crit)-1].v = v
			var cs []api.MetadataMatchCriterion
			for i := range crit {
				cs = append(cs, &crit[i])
			}
			ctx := &zzSubCtx{ctx: variable.NewVariableContext(context.Background())}
			ctx.crit = &zzCriteria{cs}
			matching := 0
			for _, h := range hs {
				if zzHas(h, crit) {
					matching++
				}
			}
			verif.Assert(lb.HostNum(ctx.crit) == matching, "HostNum of a multi-key subset differs from the number of hosts carrying every pair")
			r := lb.ChooseHost(ctx)
			if matching == 0 {
				verif.Assert(r == nil, "no host carries the pairs and fallback is none: no host")
			} else {
				verif.Assert(r != nil && zzHas(r, crit), "a request was not sent to a host carrying every criteria pair although the subset exists")
			}
		}
	}
	verif.Cover("end")
}

// VerifC15_SubsetEmptyValue: metadata values may be the empty string. Three
// hosts - k1 set to "", k1 set to "a", k1 absent - one selector [k1], every
// fallback policy, default subset {k1: ""} or {k1: "a"}, criteria k1="" or
// k1="a": a host without the key never counts as carrying k1="" (for the
// match, for the default subset, for HostNum), with both builders.
func VerifC15_SubsetEmptyValue() {
	verif.Replace("math/rand.NewSource", func(int64) rand.Source { return zzAnySource{} })
	metas := []api.Metadata{{"k1": ""}, {"k1": "a"}, {"k2": "z"}}
	var hs []types.Host
	for i := 0; i < 3; i++ {
		if verif.Choose("present", 2) == 0 && i < 2 {
			continue // every combination of the two keyed hosts; the host without the key is always there
		}
		h := &zzMetaHost{meta: metas[i]}
		h.name, h.healthy, h.weight = zzHostNames[i], true, 10
		hs = append(hs, h)
	}
	n := len(hs)
	policy := verif.Choose("fallback", 3)
	dv := []string{"", "a"}[verif.Choose("default_value", 2)]
	cfg := &v2.LBSubsetConfig{FallBackPolicy: uint8(policy), SubsetSelectors: [][]string{{"k1"}}, DefaultSubset: map[string]string{"k1": dv}}
	info := &zzSubInfo{sub: NewLBSubsetInfo(cfg), st: &types.ClusterStats{LBSubSetsFallBack: &zzLBCounter{}, LBSubsetsCreated: &zzSubGauge{}}}
	crit := []zzCriterion{{"k1", []string{"", "a"}[verif.Choose("criteria_value", 2)]}}
	ctx := &zzSubCtx{ctx: variable.NewVariableContext(context.Background())}
	ctx.crit = &zzCriteria{[]api.MetadataMatchCriterion{&crit[0]}}
	count := func(kvs []zzCriterion) int {
		k := 0
		for _, h := range hs {
			if zzHas(h, kvs) {
				k++
			}
		}
		return k
	}
	def := []zzCriterion{{"k1", dv}}
	for variant := 0; variant < 2; variant++ {
		var lb types.LoadBalancer
		if variant == 0 {
			lb = NewSubsetLoadBalancer(info, NewHostSet(hs))
		} else {
			lb = NewSubsetLoadBalancerPreIndex(info, NewHostSet(hs))
		}
		r := lb.ChooseHost(ctx)
		want := 0
		switch {
		case count(crit) > 0:
			verif.Assert(r != nil && zzHas(r, crit), "subset match must return a host carrying the criteria pair (a host without the key does not carry an empty value)")
			want = count(crit)
			verif.Cover("matched")
		case policy == 0:
			verif.Assert(r == nil, "fallback none must not return a host")
		case policy == 1:
			verif.Assert(r != nil, "fallback any-endpoint must return some host")
			want = n
		default:
			if count(def) > 0 {
				verif.Assert(r != nil && zzHas(r, def), "fallback default-subset must return a host of the default subset (a host without the key is not in it)")
			} else {
				verif.Assert(r == nil, "empty default subset must not return a host")
			}
			want = count(def)
			verif.Cover("fallback-default")
		}
		verif.Assert(lb.HostNum(ctx.crit) == want, "HostNum is not the size of the matched subset / fallback host set")
		verif.Assert(lb.IsExistsHosts(ctx.crit) == (want > 0), "IsExistsHosts disagrees with the matched subset / fallback host set")
	}
	verif.Cover("end")
}

// VerifC15_SubsetThreeKeys: one selector [k1,k2,k3] and a default subset over
// the same three keys; two (thorough: three) hosts carry every key with either
// of two values, every assignment; criteria over all three keys, every
// combination of values. A request is sent only to a host carrying all three
// pairs - in particular not to a host that carries the trailing pair(s) only -
// else to the fallback (none / any / the hosts carrying the whole default
// subset); HostNum and IsExistsHosts describe the same set. Both builders.
func VerifC15_SubsetThreeKeys() {
	verif.Replace("math/rand.NewSource", func(int64) rand.Source { return zzAnySource{} })
	keys := []string{"k1", "k2", "k3"}
	vals := []string{"a", "b"}
	n := verif.Param("three_key_hosts", 2, 3)
	var hs []types.Host
	for i := 0; i < n; i++ {
		meta := api.Metadata{}
		for _, k := range keys {
			meta[k] = vals[verif.Choose("host_"+k, 2)]
		}
		h := &zzMetaHost{meta: meta}
		h.name, h.healthy, h.weight = zzHostNames[i], true, 10
		hs = append(hs, h)
	}
	policy := verif.Choose("fallback", 3) // 0 none, 1 any, 2 default subset
	def := []zzCriterion{{"k1", "a"}, {"k2", vals[verif.Choose("default_k2", 2)]}, {"k3", "a"}}
	dmap := map[string]string{}
	for _, c := range def {
		dmap[c.k] = c.v
	}
	cfg := &v2.LBSubsetConfig{FallBackPolicy: uint8(policy), SubsetSelectors: [][]string{{"k3", "k1", "k2"}}, DefaultSubset: dmap}
	info := &zzSubInfo{sub: NewLBSubsetInfo(cfg), st: &types.ClusterStats{LBSubSetsFallBack: &zzLBCounter{}, LBSubsetsCreated: &zzSubGauge{}}}
	var crit []zzCriterion
	var cs []api.MetadataMatchCriterion
	for _, k := range keys {
		crit = append(crit, zzCriterion{k, vals[verif.Choose("crit_"+k, 2)]})
	}
	for i := range crit {
		cs = append(cs, &crit[i])
	}
	ctx := &zzSubCtx{ctx: variable.NewVariableContext(context.Background())}
	ctx.crit = &zzCriteria{cs}
	matching, inDefault := 0, 0
	for _, h := range hs {
		if zzHas(h, crit) {
			matching++
		}
		if zzHas(h, def) {
			inDefault++
		}
	}
	for variant := 0; variant < 2; variant++ {
		var lb types.LoadBalancer
		if variant == 0 {
			lb = NewSubsetLoadBalancer(info, NewHostSet(hs))
		} else {
			lb = NewSubsetLoadBalancerPreIndex(info, NewHostSet(hs))
		}
		r := lb.ChooseHost(ctx)
		want := 0
		switch {
		case matching > 0:
			verif.Assert(r != nil && zzHas(r, crit), "a request was sent to a host that does not carry every criteria pair although such a host exists")
			want = matching
			verif.Cover("matched")
		case policy == 0:
			verif.Assert(r == nil, "no host carries the three pairs and fallback is none: a host was returned (a host carrying only some of the pairs)")
			verif.Cover("fallback-none")
		case policy == 1:
			verif.Assert(r != nil, "fallback any-endpoint must return some host")
			want = n
		default:
			if inDefault > 0 {
				verif.Assert(r != nil && zzHas(r, def), "fallback default-subset returned a host that does not carry the whole default subset")
				verif.Cover("fallback-default")
			} else {
				verif.Assert(r == nil, "no host carries the whole default subset: the default fallback must not return a host")
				verif.Cover("fallback-default-empty")
			}
			want = inDefault
		}
		verif.Assert(lb.HostNum(ctx.crit) == want, "HostNum is not the size of the matched subset / fallback host set")
		verif.Assert(lb.IsExistsHosts(ctx.crit) == (want > 0), "IsExistsHosts disagrees with the matched subset / fallback host set")
	}
	verif.Cover("end")
}

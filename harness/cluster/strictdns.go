//verif:pkg mosn.io/mosn/pkg/upstream/cluster
package cluster

import (
	"net"
	"time"

	"mosn.io/api"
	v2 "mosn.io/mosn/pkg/config/v2"
	"mosn.io/mosn/pkg/network"
	"mosn.io/mosn/pkg/types"
	"mosn.io/mosn/pkg/zzverif/verif"
	"mosn.io/pkg/utils"
)

// VerifC16_ResolvedHostsFlagWord: a strict-DNS cluster resolves one configured name to two
// (thorough: three) addresses. Health flags are keyed by address: every resolved host
// shares its flag word with every other host object of the same address (a host of a static
// cluster, the same address resolved again) and with nobody else - a condition set on one
// endpoint makes exactly that endpoint unhealthy, not its siblings behind the same name.
// DNS resolution is replaced by a scripted answer (engine only).
func VerifC16_ResolvedHostsFlagWord() {
	verif.EngineOnly("DNS resolution is replaced by a scripted answer")
	verif.Replace("mosn.io/mosn/pkg/upstream/cluster.newHostStats", func(string, string) *types.HostStats { return &types.HostStats{} })
	verif.Replace("mosn.io/mosn/pkg/upstream/cluster.newClusterStats", func(string) *types.ClusterStats { return &types.ClusterStats{} })
	verif.Replace("mosn.io/mosn/pkg/upstream/cluster.GetOrCreateAddr", func(string) net.Addr { return nil })
	n := verif.Param("resolved_addresses", 2, 3)
	ips := []string{"10.9.7.1", "10.9.7.2", "10.9.7.3"}[:n]
	verif.Replace("(*mosn.io/mosn/pkg/network.DnsResolver).DnsResolve", func(dr *network.DnsResolver, name string, fam v2.DnsLookupFamily) *[]network.DnsResponse {
		var out []network.DnsResponse
		for _, ip := range ips {
			out = append(out, network.DnsResponse{Address: ip, Ttl: time.Minute})
		}
		return &out
	})
	sdc := &strictDnsCluster{simpleCluster: newSimpleCluster(v2.Cluster{Name: "c", LbType: v2.LB_ROUNDROBIN}).(*simpleCluster), dnsResolver: &network.DnsResolver{}}
	hc := v2.Host{}
	hc.Address = "svc.example.com:80"
	rt := &ResolveTarget{config: &hc, dnsAddress: "svc.example.com", port: "80", strictDnsCluster: sdc,
		resolveTimeout: utils.NewTimer(time.Hour, func() {}), refreshTimeout: time.Hour, dnsRefreshRate: make(chan time.Duration, 4)}
	sdc.resolveTargets = []*ResolveTarget{rt}
	// (the cluster starts from the configured, unresolved host list: here none besides the name)
	sdc.simpleCluster.UpdateHosts(NewHostSet([]types.Host{}))
	rt.OnResolve()
	var hosts []types.Host
	sdc.hostSet.Range(func(h types.Host) bool { hosts = append(hosts, h); return true })
	verif.Assert(len(hosts) == n, "the cluster does not serve one host per resolved address")
	if len(hosts) != n {
		return
	}
	// a host object of the same address built elsewhere (a static cluster, a later resolution)
	twinCfg := v2.Host{}
	victim := verif.Choose("flagged_host", n)
	twinCfg.Address = hosts[victim].AddressString()
	twin := NewSimpleHost(twinCfg, sdc.info)
	cond := []api.HealthFlag{api.FAILED_ACTIVE_HC, api.FAILED_OUTLIER_CHECK}[verif.Choose("condition", 2)]
	for _, h := range hosts {
		verif.Assert(h.Health(), "a freshly resolved host is not healthy")
	}
	hosts[victim].SetHealthFlag(cond)
	for i, h := range hosts {
		if i == victim {
			verif.Assert(!h.Health() && h.ContainHealthFlag(cond), "the condition set on an endpoint is not reported by it")
		} else {
			verif.Assert(h.Health() && !h.ContainHealthFlag(cond), "a condition set on one resolved endpoint appears on another endpoint behind the same name (they share a flag word)")
		}
	}
	verif.Assert(!twin.Health() && twin.ContainHealthFlag(cond), "another host object of the same address does not see the condition (flag words are per address)")
	twin.ClearHealthFlag(cond)
	verif.Assert(hosts[victim].Health(), "a condition cleared through another host object of the same address stays set")
	verif.Cover("end")
}

//verif:pkg mosn.io/mosn/pkg/upstream/cluster
package cluster

import (
	"context"
	"math/rand"
	"net"

	"mosn.io/api"
	"mosn.io/mosn/pkg/types"
	"mosn.io/mosn/pkg/zzverif/verif"
	"mosn.io/pkg/variable"
)

// zzAnySource: every draw of the balancer's random source is arbitrary.
type zzAnySource struct{}

func (zzAnySource) Int63() int64 { return int64(verif.U32("draw")&0x7fffffff) << 32 }
func (zzAnySource) Seed(int64)   {}

type zzLBHost struct {
	types.Host
	name    string
	healthy bool
	weight  uint32
	stats   *types.HostStats
}

func (h *zzLBHost) Health() bool                { return h.healthy }
func (h *zzLBHost) Weight() uint32              { return h.weight }
func (h *zzLBHost) AddressString() string       { return h.name }
func (h *zzLBHost) Hostname() string            { return h.name }
func (h *zzLBHost) HostStats() *types.HostStats { return h.stats }
func (h *zzLBHost) Metadata() api.Metadata      { return nil }
func (h *zzLBHost) LastHealthCheckPassTime() time_Time { return time_Time{} }

type zzLBCtx struct {
	ctx context.Context
}

func (c *zzLBCtx) MetadataMatchCriteria() api.MetadataMatchCriteria { return nil }
func (c *zzLBCtx) DownstreamConnection() net.Conn                   { return nil }
func (c *zzLBCtx) DownstreamHeaders() api.HeaderMap                 { return nil }
func (c *zzLBCtx) DownstreamContext() context.Context               { return c.ctx }
func (c *zzLBCtx) DownstreamCluster() types.ClusterInfo             { return nil }
func (c *zzLBCtx) DownstreamRoute() api.Route                       { return nil }

var zzHostNames = []string{"h0", "h1", "h2", "h3", "h4"}

// zzMakeHosts: n hosts, each healthy or not (symbolic), weights equal or a
// fixed unequal vector, small symbolic active-request/connection counts.
func zzMakeHosts(n int, unequal bool) []types.Host {
	var hs []types.Host
	for i := 0; i < n; i++ {
		w := uint32(10)
		if unequal {
			w = uint32(1 + 2*i)
		}
		act := int64(i % 2)
		if !unequal {
			// with equal weights only comparisons of the counts are used: keep them symbolic
			act = int64(verif.U8("active") & 3)
		}
		hs = append(hs, &zzLBHost{name: zzHostNames[i], healthy: verif.Bool("healthy"), weight: w,
			stats: &types.HostStats{UpstreamRequestActive: &zzLBCounter{act}, UpstreamConnectionActive: &zzLBCounter{act}}})
	}
	return hs
}

func zzCheckChoice(hs []types.Host, r types.Host, what string) {
	anyHealthy := false
	member := r == nil
	for _, h := range hs {
		if h.Health() {
			anyHealthy = true
		}
		if r != nil && r == h {
			member = true
		}
	}
	verif.Assert(member, what+": chose a host that is not a member of the cluster")
	if anyHealthy {
		verif.Assert(r != nil && r.Health(), what+": healthy hosts exist but an unhealthy host or none was chosen")
	}
	if r == nil {
		verif.Assert(!anyHealthy, what+": no host chosen although a healthy one exists")
	}
}

// zzCursor: a round-robin cursor in [0,5] or within 6 of wrap-around (every
// residue modulo the host count, and the uint32 wrap). Forked, not symbolic:
// cursor % hosts is a 32-bit remainder, which costs seconds per query.
func zzCursor() uint32 {
	return uint32(verif.Choose("rrbase", 2))*0xfffffffa + uint32(verif.Choose("rr", 6))
}

func zzLBSetup() (int, bool, *zzLBCtx) {
	return zzLBSetupN(verif.Param("hosts", 3, 4))
}

func zzLBSetupN(maxHosts int) (int, bool, *zzLBCtx) {
	// seeding a real rand source is 607 LCG steps per balancer: replace it (the
	// balancer's source is overridden with an arbitrary one anyway)
	verif.Replace("math/rand.NewSource", func(int64) rand.Source { return zzAnySource{} })
	n := verif.Choose("n", maxHosts+1)
	unequal := verif.Choose("unequal", 2) == 1
	return n, unequal, &zzLBCtx{ctx: variable.NewVariableContext(context.Background())}
}

func VerifC05_Random() {
	n, unequal, ctx := zzLBSetup()
	hs := zzMakeHosts(n, unequal)
	lb := newRandomLoadBalancer(nil, NewHostSet(hs)).(*randomLoadBalancer)
	lb.rand = rand.New(zzAnySource{})
	lb.rrLB.(*roundRobinLoadBalancer).rrIndex = zzCursor()
	zzCheckChoice(hs, lb.ChooseHost(ctx), "random")
	zzCheckChoice(hs, lb.ChooseHost(ctx), "random (2nd)")
	verif.Cover("end")
}

func VerifC05_RoundRobin() {
	n, unequal, ctx := zzLBSetup()
	hs := zzMakeHosts(n, unequal)
	lb := rrFactory.newRoundRobinLoadBalancer(nil, NewHostSet(hs)).(*roundRobinLoadBalancer)
	lb.rrIndex = zzCursor() // any cursor, including just before wrap-around
	zzCheckChoice(hs, lb.ChooseHost(ctx), "round-robin")
	zzCheckChoice(hs, lb.ChooseHost(ctx), "round-robin (2nd)")
	verif.Cover("end")
}

func VerifC05_WRR() {
	n, unequal, ctx := zzLBSetup()
	hs := zzMakeHosts(n, unequal)
	lb := newWRRLoadBalancer(nil, NewHostSet(hs)).(*WRRLoadBalancer)
	lb.rand = rand.New(zzAnySource{})
	lb.rrLB.(*roundRobinLoadBalancer).rrIndex = zzCursor()
	zzCheckChoice(hs, lb.ChooseHost(ctx), "weighted round-robin")
	zzCheckChoice(hs, lb.ChooseHost(ctx), "weighted round-robin (2nd)")
	verif.Cover("end")
}

func VerifC05_LeastRequest() {
	n, unequal, ctx := zzLBSetupN(verif.Param("hostsL", 2, 3))
	hs := zzMakeHosts(n, unequal)
	lb := newLeastActiveRequestLoadBalancer(nil, NewHostSet(hs)).(*leastActiveRequestLoadBalancer)
	lb.rand = rand.New(zzAnySource{})
	zzCheckChoice(hs, lb.ChooseHost(ctx), "least-request")
	zzCheckChoice(hs, lb.ChooseHost(ctx), "least-request (2nd)")
	verif.Cover("end")
}

func VerifC05_LeastConnection() {
	n, unequal, ctx := zzLBSetupN(verif.Param("hostsL", 2, 3))
	hs := zzMakeHosts(n, unequal)
	lb := newLeastActiveConnectionLoadBalancer(nil, NewHostSet(hs)).(*leastActiveConnectionLoadBalancer)
	lb.rand = rand.New(zzAnySource{})
	zzCheckChoice(hs, lb.ChooseHost(ctx), "least-connection")
	zzCheckChoice(hs, lb.ChooseHost(ctx), "least-connection (2nd)")
	verif.Cover("end")
}

func VerifC05_RequestRR() {
	n, unequal, ctx := zzLBSetup()
	hs := zzMakeHosts(n, unequal)
	lb := newReqRoundRobinLoadBalancer(nil, NewHostSet(hs))
	zzCheckChoice(hs, lb.ChooseHost(ctx), "request round-robin")
	zzCheckChoice(hs, lb.ChooseHost(ctx), "request round-robin (re-entry)")
	verif.Cover("end")
}

// VerifC05_MaglevFallback: the scan that replaces an unhealthy (or retried)
// maglev pick, from any starting index.
func VerifC05_MaglevFallback() {
	n, unequal, _ := zzLBSetup()
	hs := zzMakeHosts(n, unequal)
	lb := &maglevLoadBalancer{hosts: NewHostSet(hs)}
	idx := verif.Choose("index", 9)
	if n > 0 {
		r, _ := lb.chooseHostFromHostList(idx)
		zzCheckChoice(hs, r, "maglev fallback")
	}
	verif.Cover("end")
}

//verif:pkg mosn.io/mosn/pkg/upstream/cluster
package cluster

import (
	"math/rand"

	gometrics "github.com/rcrowley/go-metrics"
	"mosn.io/mosn/pkg/types"
	"mosn.io/mosn/pkg/zzverif/verif"
	"mosn.io/pkg/log"
)

type zzRate struct{ r float64 }

func (e zzRate) Rate() float64            { return e.r }
func (e zzRate) Snapshot() gometrics.EWMA { return e }
func (e zzRate) Tick()                    {}
func (e zzRate) Update(int64)             {}

type zzEwmaInfo struct {
	types.ClusterInfo
	st *types.ClusterStats
}

func (i *zzEwmaInfo) Stats() *types.ClusterStats { return i.st }

type zzEwmaHost struct {
	zzLBHost
	info *zzEwmaInfo
}

func (h *zzEwmaHost) ClusterInfo() types.ClusterInfo { return h.info }

// VerifC05_PeakEwma: the peak-EWMA balancer (power of two choices over a
// latency / error-rate score) with 0..4 hosts of equal weight, each healthy
// or not, arbitrary random draws, one lookup. Scores are concrete (request
// durations 1, 2, 3, 4 ms, 0..1 active requests; the engine has no float
// theory) - the subject is the membership / health clause: with more hosts
// than samples, a lookup whose samples all hit unhealthy hosts falls back to
// the health-aware scan and still finds the healthy host. The process log
// level must not matter (under the engine every level guard is false;
// natively each level is tried).
func VerifC05_PeakEwma() {
	n, _, ctx := zzLBSetupN(4)
	info := &zzEwmaInfo{st: &types.ClusterStats{UpstreamRequestDurationEWMA: zzRate{0}}}
	var hs []types.Host
	for i := 0; i < n; i++ {
		h := &zzEwmaHost{info: info}
		h.name, h.healthy, h.weight = zzHostNames[i], verif.Bool("healthy"), 10
		h.stats = &types.HostStats{UpstreamRequestActive: &zzLBCounter{int64(i % 2)}, UpstreamConnectionActive: &zzLBCounter{0},
			UpstreamRequestDurationEWMA: zzRate{float64(i+1) * 1e6}, UpstreamResponseTotalEWMA: zzRate{10},
			UpstreamResponseClientErrorEWMA: zzRate{0}, UpstreamResponseServerErrorEWMA: zzRate{float64(i % 2)}}
		hs = append(hs, h)
	}
	levels := []log.Level{log.INFO}
	if !verif.Symbolic() {
		levels = []log.Level{log.FATAL, log.ERROR, log.WARN, log.INFO, log.DEBUG}
		defer log.DefaultLogger.SetLogLevel(log.DefaultLogger.GetLogLevel())
	}
	for _, lv := range levels {
		if !verif.Symbolic() {
			log.DefaultLogger.SetLogLevel(lv)
		}
		lb := newPeakEwmaLoadBalancer(nil, NewHostSet(hs)).(*peakEwmaLoadBalancer)
		lb.rand = rand.New(zzAnySource{})
		lb.rrLB.(*roundRobinLoadBalancer).rrIndex = uint32(verif.Choose("rr", 4))
		zzCheckChoice(hs, lb.ChooseHost(ctx), "peak-EWMA")
	}
	if n > 2 {
		verif.Cover("more hosts than samples")
	}
	verif.Cover("end")
}

//verif:pkg mosn.io/mosn/pkg/upstream/cluster
package cluster

import (
	"math/rand"
	"sync"
	"sync/atomic"
	"time"

	"mosn.io/api"
	"mosn.io/mosn/pkg/zzverif/verif"
)

// VerifC16_FlagWord: a concurrent set of one condition and clear of another on
// the same host's flag word lose nothing and invent nothing, under every
// interleaving at the atomic operations.
func VerifC16_FlagWord() {
	verif.Switches(verif.Param("switches", 3, 4))
	f0 := verif.U64("f0")
	a := verif.U64("a")
	b := verif.U64("b")
	verif.Assume(a&b == 0 && a != 0 && b != 0)
	tries := 1
	if !verif.Symbolic() {
		// natively the schedule cannot be forced: widen the window and repeat
		tries = 3000
		verifYieldHook = func() { time.Sleep(time.Duration(rand.Intn(40)) * time.Microsecond) }
		defer func() { verifYieldHook = nil }()
	}
	for t := 0; t < tries; t++ {
		word := f0
		p := &word
		var wg sync.WaitGroup
		wg.Add(2)
		go func() { SetHealthFlag(p, api.HealthFlag(a)); wg.Done() }()
		go func() { ClearHealthFlag(p, api.HealthFlag(b)); wg.Done() }()
		wg.Wait()
		final := atomic.LoadUint64(p)
		verif.Assert(final == (f0|a)&^b, "concurrent set/clear lost or invented a health condition")
	}
	verif.Cover("end")
}

// VerifC16_FlagWord3_T: two setters and one clearer (thorough tier).
func VerifC16_FlagWord3_T() {
	verif.Switches(4)
	f0 := verif.U64("f0")
	a := verif.U64("a")
	b := verif.U64("b")
	c := verif.U64("c")
	verif.Assume(a&b == 0 && a&c == 0 && b&c == 0)
	word := f0
	p := &word
	var wg sync.WaitGroup
	wg.Add(3)
	go func() { SetHealthFlag(p, api.HealthFlag(a)); wg.Done() }()
	go func() { ClearHealthFlag(p, api.HealthFlag(b)); wg.Done() }()
	go func() { SetHealthFlag(p, api.HealthFlag(c)); wg.Done() }()
	wg.Wait()
	final := atomic.LoadUint64(p)
	verif.Assert(final == (f0|a|c)&^b, "concurrent set/clear lost or invented a health condition")
	verif.Cover("end")
}

// VerifC16_HealthMeaning: a host is healthy exactly when no health condition
// is set in its flag word - for every 64-bit word, and after setting or
// clearing any condition through the host's own methods; each condition is
// reported by ContainHealthFlag exactly when its bit is set.
func VerifC16_HealthMeaning() {
	word := verif.U64("flag_word")
	h := &simpleHost{healthFlags: &word}
	verif.Assert(h.Health() == (word == 0), "Health() is not 'no condition set'")
	verif.Assert(h.ContainHealthFlag(api.FAILED_ACTIVE_HC) == (word&uint64(api.FAILED_ACTIVE_HC) != 0), "ContainHealthFlag(active) does not reflect its bit")
	verif.Assert(h.ContainHealthFlag(api.FAILED_OUTLIER_CHECK) == (word&uint64(api.FAILED_OUTLIER_CHECK) != 0), "ContainHealthFlag(outlier) does not reflect its bit")
	flag := []api.HealthFlag{api.FAILED_ACTIVE_HC, api.FAILED_OUTLIER_CHECK}[verif.Choose("flag", 2)]
	want := word
	if verif.Choose("set", 2) == 1 {
		h.SetHealthFlag(flag)
		want |= uint64(flag)
	} else {
		h.ClearHealthFlag(flag)
		want &^= uint64(flag)
	}
	verif.Assert(h.HealthFlag() == api.HealthFlag(want), "setting/clearing one condition changed another")
	verif.Assert(h.Health() == (want == 0), "after a set/clear Health() is not 'no condition set'")
	verif.Cover("end")
}

// VerifC16_FlagWordShared: host objects of one address created concurrently
// (the same endpoint in two clusters updated at once) and afterwards all
// share one health flag word, under every interleaving of the two creators
// at the store's operations: a condition set through one is seen through the
// others.
func VerifC16_FlagWordShared() {
	verif.Switches(verif.Param("flag_switches", 3, 4))
	existing := verif.Choose("address_known_before", 2) == 1
	healthStore = sync.Map{}
	if existing {
		GetHealthFlagPointer("a:1")
	}
	var p1 *uint64
	done := false
	go func() {
		p1 = GetHealthFlagPointer("a:1")
		done = true
	}()
	verif.EngineOnly("the two creators must interleave inside GetHealthFlagPointer: needs a controlled schedule")
	p2 := GetHealthFlagPointer("a:1")
	verif.Settle()
	verif.Assume(done)
	p3 := GetHealthFlagPointer("a:1")
	verif.Assert(p1 == p2, "two host objects of one address created concurrently do not share a health flag word")
	verif.Assert(p3 == p1 && p3 == p2, "a host object created later does not share the address's health flag word")
	SetHealthFlag(p1, api.FAILED_ACTIVE_HC)
	SetHealthFlag(p2, api.FAILED_OUTLIER_CHECK)
	verif.Assert(api.HealthFlag(*p3) == api.FAILED_ACTIVE_HC|api.FAILED_OUTLIER_CHECK, "a health condition set through one host object is not seen through another of the same address")
	verif.Cover("end")
}

//verif:pkg mosn.io/mosn/pkg/network
package network

import (
	"io"
	"net"
	"time"

	"mosn.io/api"
	"mosn.io/mosn/pkg/zzverif/verif"
	"mosn.io/pkg/buffer"
)

type zzRead struct {
	data []byte
	err  error
}

// zzRawConn is the kernel side of a connection: a script of Read results.
type zzRawConn struct {
	net.Conn
	script []zzRead
}

func (c *zzRawConn) Read(p []byte) (int, error) {
	if len(c.script) == 0 {
		return 0, io.EOF
	}
	r := c.script[0]
	c.script = c.script[1:]
	n := copy(p, r.data)
	return n, r.err
}
func (c *zzRawConn) SetReadDeadline(time.Time) error { return nil }
func (c *zzRawConn) LocalAddr() net.Addr             { return nil }
func (c *zzRawConn) RemoteAddr() net.Addr            { return nil }

type zzSink struct {
	got []byte
}

func (s *zzSink) OnData(b buffer.IoBuffer) api.FilterStatus {
	s.got = append(s.got, b.Bytes()...)
	b.Drain(b.Len())
	return api.Stop
}
func (s *zzSink) OnNewConnection() api.FilterStatus                       { return api.Continue }
func (s *zzSink) InitializeReadFilterCallbacks(cb api.ReadFilterCallbacks) {}

// VerifC07_ReadLoopDelivery: the connection's read step delivers every byte
// the kernel hands over to the read filters, however the bytes are split over
// reads - including the bytes that arrive in the same Read as io.EOF (a TLS
// connection returns its last record together with the peer's close).
func VerifC07_ReadLoopDelivery() {
	stream := verif.Bytes("stream", 4)
	cut := verif.Choose("cut", 5) // first read: stream[:cut]
	eofWithData := verif.Choose("eof_with_last_data", 2) == 1
	raw := &zzRawConn{}
	if cut > 0 {
		raw.script = append(raw.script, zzRead{data: stream[:cut]})
	}
	last := zzRead{data: stream[cut:]}
	if eofWithData {
		last.err = io.EOF
		raw.script = append(raw.script, last)
	} else {
		if cut < len(stream) {
			raw.script = append(raw.script, last)
		}
		raw.script = append(raw.script, zzRead{err: io.EOF})
	}
	c := &connection{rawConnection: raw, readEnabled: true, network: "tcp", defaultReadBufferSize: 64}
	c.filterManager = NewFilterManager(c)
	sink := &zzSink{}
	c.filterManager.AddReadFilter(sink)
	var err error
	for i := 0; i < 4 && err == nil; i++ {
		err = c.doRead()
	}
	verif.Assert(err == io.EOF, "the read step must report the end of the stream")
	verif.Assert(string(sink.got) == string(stream), "bytes handed over by the kernel were not delivered to the read filters (lost at the end of the stream)")
	if eofWithData {
		verif.Cover("eof-with-data")
	}
	verif.Cover("end")
}

//verif:pkg mosn.io/mosn/pkg/zzverif/matchers
package matchers

import (
	"context"

	"mosn.io/api"
	"mosn.io/mosn/pkg/protocol"
	"mosn.io/mosn/pkg/protocol/xprotocol/bolt"
	"mosn.io/mosn/pkg/protocol/xprotocol/boltv2"
	"mosn.io/mosn/pkg/protocol/xprotocol/dubbo"
	"mosn.io/mosn/pkg/protocol/xprotocol/dubbothrift"
	"mosn.io/mosn/pkg/protocol/xprotocol/tars"
	"mosn.io/mosn/pkg/stream/http"
	"mosn.io/mosn/pkg/stream/http2"
	"mosn.io/mosn/pkg/zzverif/verif"
)

const (
	zzAgain = iota
	zzSuccess
	zzFailed
)

var zzNames = []string{"bolt", "boltv2", "dubbo", "dubbo-thrift", "tars", "http1", "http2"}

func zzX(m api.ProtocolMatch, s []byte) int {
	switch m(s) {
	case api.MatchSuccess:
		return zzSuccess
	case api.MatchFailed:
		return zzFailed
	}
	return zzAgain
}

func zzE(err error) int {
	switch err {
	case nil:
		return zzSuccess
	case protocol.FAILED:
		return zzFailed
	}
	return zzAgain
}

// zzAll asks every protocol matcher that automatic detection consults.
func zzAll(s []byte) []int {
	ctx := context.Background()
	return []int{
		zzX((&bolt.XCodec{}).ProtocolMatch(), s),
		zzX((&boltv2.XCodec{}).ProtocolMatch(), s),
		zzX((&dubbo.XCodec{}).ProtocolMatch(), s),
		zzX((&dubbothrift.XCodec{}).ProtocolMatch(), s),
		zzX((&tars.XCodec{}).ProtocolMatch(), s),
		zzE((&http.StreamConnFactory{}).ProtocolMatch(ctx, "", s)),
		zzE((&http2.StreamConnFactory{}).ProtocolMatch(ctx, "", s)),
	}
}

// VerifC07_MatcherMonotone: a verdict given on a prefix never changes when
// more bytes arrive (so detection does not depend on where the reads fall).
func VerifC07_MatcherMonotone() {
	verif.NoPanic()
	n := verif.Len("n", 0, verif.Param("MN", 20, 26))
	s := verif.Bytes("s", n)
	cut := verif.Concrete(verif.IntRange("cut", 0, n))
	rp := zzAll(s[:cut])
	rs := zzAll(s)
	for i := range rp {
		verif.Assert(!(rp[i] == zzSuccess && rs[i] != zzSuccess), "matcher "+zzNames[i]+" accepted a prefix but not the longer input")
		verif.Assert(!(rp[i] == zzFailed && rs[i] != zzFailed), "matcher "+zzNames[i]+" rejected a prefix but not the longer input")
	}
	verif.Cover("end")
}

// VerifC07_MatcherExclusive: no byte string is claimed by two protocols (the
// factories are consulted in map order, so a double claim makes the detected
// protocol depend on something other than the bytes).
func VerifC07_MatcherExclusive() {
	verif.NoPanic()
	n := verif.Len("n", 0, verif.Param("MN", 20, 26))
	s := verif.Bytes("s", n)
	r := zzAll(s)
	for i := range r {
		for j := i + 1; j < len(r); j++ {
			verif.Assert(!(r[i] == zzSuccess && r[j] == zzSuccess), "matchers "+zzNames[i]+" and "+zzNames[j]+" both claim the same bytes")
		}
	}
	verif.Cover("end")
}

// VerifC08_MatchersArbitrary: every protocol matcher that automatic detection
// consults, on an arbitrary byte string of 0..N bytes (every length, so also
// strings that end right behind a recognised token): none panics or reads
// outside the received bytes, each answers match / no match / need more.
func VerifC08_MatchersArbitrary() {
	verif.NoPanic()
	n := verif.Len("n", 0, verif.Param("MN", 20, 26))
	s := verif.Bytes("s", n)
	r := zzAll(s)
	for i := range r {
		verif.Assert(r[i] == zzAgain || r[i] == zzSuccess || r[i] == zzFailed, "matcher "+zzNames[i]+" gave no verdict")
	}
	verif.Cover("end")
}

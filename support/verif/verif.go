// Package verif is the harness API. Under the symbolic engine (vcheck) every
// function here is intercepted by name and these bodies are never executed.
// Compiled natively (go test with an overlay) the bodies below implement the
// replay semantics: values come from a model file produced by the solver.
package verif

import (
	"encoding/json"
	"fmt"
	"os"
	"reflect"
	"sync"
	"time"
)

type model struct {
	Model   map[string]uint64 `json:"model"`
	Harness string            `json:"harness"`
	Msg     string            `json:"assertion"`
}

type state struct {
	m        map[string]uint64
	counts   map[string]int
	noPanic  bool
	failed   []string
	diverged string
	covers   []string
}

var (
	mu  sync.Mutex
	cur *state
)

type assertFailed struct{ msg string }
type engineOnly struct{ why string }

// EngineOnly marks the rest of this run as not replayable natively (it needs
// an environment that only exists as a stub under the engine, e.g. a dial).
func EngineOnly(why string) {
	if !Symbolic() {
		panic(engineOnly{why})
	}
}

type assumeFailed struct{ msg string }

func next(name string) uint64 {
	mu.Lock()
	defer mu.Unlock()
	if cur == nil {
		panic("verif: no replay model loaded (run through vcheck --replay)")
	}
	k := cur.counts[name]
	cur.counts[name] = k + 1
	return cur.m[fmt.Sprintf("%s#%d", name, k)]
}

// LastU32 returns the value most recently produced by U32(name) (0 if none).
func LastU32(name string) uint32 {
	mu.Lock()
	defer mu.Unlock()
	k := cur.counts[name]
	if k == 0 {
		return 0
	}
	return uint32(cur.m[fmt.Sprintf("%s#%d", name, k-1)])
}

func Bool(name string) bool  { return next(name)&1 == 1 }
func U8(name string) uint8   { return uint8(next(name)) }
func U16(name string) uint16 { return uint16(next(name)) }
func U32(name string) uint32 { return uint32(next(name)) }
func U64(name string) uint64 { return next(name) }
func I8(name string) int8    { return int8(next(name)) }
func I16(name string) int16  { return int16(next(name)) }
func I32(name string) int32  { return int32(next(name)) }
func I64(name string) int64  { return int64(next(name)) }
func Int(name string) int    { return int(int64(next(name))) }

// IntRange returns an arbitrary int in [lo,hi] (kept symbolic by the engine).
func IntRange(name string, lo, hi int) int {
	v := int(int64(next(name)))
	if v < lo || v > hi {
		panic(assumeFailed{fmt.Sprintf("IntRange %s=%d outside [%d,%d]", name, v, lo, hi)})
	}
	return v
}

// Len returns an arbitrary int in [lo,hi]; the engine forks over its values.
func Len(name string, lo, hi int) int { return IntRange(name, lo, hi) }

// Choose returns an arbitrary int in [0,n); the engine forks over its values.
func Choose(name string, n int) int { return IntRange(name, 0, n-1) }

// Concrete makes the engine fork over the feasible values of x.
func Concrete(x int) int { return x }

func Bytes(name string, n int) []byte {
	b := make([]byte, n)
	for i := range b {
		b[i] = uint8(next(name))
	}
	return b
}

func Str(name string, n int) string { return string(Bytes(name, n)) }

// WithStaleCap returns a copy of b whose capacity exceeds its length by extra
// bytes. Under the engine those bytes are poison (reading one is recorded);
// natively they hold 0xA5.
func WithStaleCap(b []byte, extra int) []byte {
	out := make([]byte, len(b)+extra)
	copy(out, b)
	for i := len(b); i < len(out); i++ {
		out[i] = 0xA5
	}
	return out[:len(b)]
}

// Havoc overwrites every byte of b (up to its capacity) with arbitrary values.
func Havoc(b []byte) {
	b = b[:cap(b)]
	for i := range b {
		b[i] = uint8(next("havoc"))
	}
}

// StaleReads is the number of reads of stale-capacity bytes so far (engine only).
func StaleReads() int { return 0 }

// MaxAlloc is the largest make() so far on this path (engine only).
func MaxAlloc() int { return 0 }

// AllocLimit makes any make() whose size depends on the input and can exceed n a violation (engine only).
func AllocLimit(n int) {}

// AllocCut ends (without verdict) every path that allocates an input-sized buffer larger than n: a stated cut (engine only).
func AllocCut(n int) {}

// AllocCeiling makes any single make() of more than n elements - whether its size is symbolic or
// not - a violation (engine only; natively the harness checks what it can observe).
func AllocCeiling(n int) {}

func Assume(c bool) {
	if !c {
		panic(assumeFailed{"assumption false"})
	}
}

func Assert(c bool, msg string) {
	if !c {
		mu.Lock()
		dup := false
		for _, f := range cur.failed {
			if f == msg {
				dup = true
			}
		}
		if !dup {
			cur.failed = append(cur.failed, msg)
		}
		mu.Unlock()
	}
}

func Cover(label string) {
	mu.Lock()
	cur.covers = append(cur.covers, label)
	mu.Unlock()
}
func Note(s string) {}
func NoPanic() {
	mu.Lock()
	cur.noPanic = true
	mu.Unlock()
}
func AllowPanic() {
	mu.Lock()
	cur.noPanic = false
	mu.Unlock()
}
func Fuel(n int)                    {}
func Tier() int                     { return tier }
func Symbolic() bool                { return false }
func Replace(target string, fn any) {}
func StubPackage(path string)       {}
func InitPackage(path string)       {}
func MapOrderNondet(on bool)        {}
func GoMode(m int)                  {}
func Switches(n int)                {}
func Yield()                        {}

// Settle lets every other goroutine run until it blocks or exits (natively: a short sleep).
func Settle()                 { time.Sleep(30 * time.Millisecond) }
func NumTimers() int          { return 0 }
func FireTimer(i int) bool    { return false }
func DeepEqual(a, b any) bool { return reflect.DeepEqual(a, b) }

// CountString counts the strings equal to s reachable from v through
// pointers, interfaces, structs (unexported fields too), slices, arrays and maps.
func CountString(v any, s string) int {
	return countString(reflect.ValueOf(v), s, map[uintptr]bool{}, 0)
}

func countString(v reflect.Value, s string, seen map[uintptr]bool, depth int) int {
	if !v.IsValid() || depth > 64 {
		return 0
	}
	switch v.Kind() {
	case reflect.String:
		if v.String() == s {
			return 1
		}
	case reflect.Ptr:
		if v.IsNil() || seen[v.Pointer()] {
			return 0
		}
		seen[v.Pointer()] = true
		return countString(v.Elem(), s, seen, depth+1)
	case reflect.Interface:
		if v.IsNil() {
			return 0
		}
		return countString(v.Elem(), s, seen, depth+1)
	case reflect.Struct:
		n := 0
		for i := 0; i < v.NumField(); i++ {
			n += countString(v.Field(i), s, seen, depth+1)
		}
		return n
	case reflect.Slice:
		if v.IsNil() || v.Len() == 0 {
			return 0
		}
		if seen[v.Pointer()] {
			return 0
		}
		seen[v.Pointer()] = true
		fallthrough
	case reflect.Array:
		n := 0
		for i := 0; i < v.Len(); i++ {
			n += countString(v.Index(i), s, seen, depth+1)
		}
		return n
	case reflect.Map:
		if v.IsNil() || seen[v.Pointer()] {
			return 0
		}
		seen[v.Pointer()] = true
		n := 0
		it := v.MapRange()
		for it.Next() {
			n += countString(it.Key(), s, seen, depth+1) + countString(it.Value(), s, seen, depth+1)
		}
		return n
	}
	return 0
}
func UF8(name string, a, b uint8) byte { return 0 }

var tier int

// Param returns quick in the quick tier and thorough in the thorough tier
// (or an override given on the vcheck command line).
func Param(name string, quick, thorough int) int {
	if v, ok := params[name]; ok {
		return v
	}
	if tier == 0 {
		return quick
	}
	return thorough
}

var params = map[string]int{}

// Protect runs f and reports whether it panicked.
func Protect(f func()) (panicked bool) {
	defer func() {
		if r := recover(); r != nil {
			switch r.(type) {
			case assertFailed, assumeFailed:
				panic(r)
			}
			panicked = true
		}
	}()
	f()
	return false
}

// ReplayCase is one model to replay.
type ReplayCase struct {
	Model   map[string]uint64 `json:"model"`
	Harness string            `json:"harness"`
	Tier    int               `json:"tier"`
	Params  map[string]int    `json:"params"`
	Tag     string            `json:"tag"`
}

// Outcome of one native replay.
type Outcome struct {
	Tag     string   `json:"tag"`
	Harness string   `json:"harness"`
	Result  string   `json:"result"` // passed | violated | diverged | panicked
	Failed  []string `json:"failed,omitempty"`
	Detail  string   `json:"detail,omitempty"`
	Covers  []string `json:"covers,omitempty"`
}

// MustFinish: the code under test must come back (Finished is called) within n
// interpreter steps under the engine; natively within three seconds. A native
// run that does not come back is reported as violated with the same message,
// the cases not yet run are reported as not-run, and the process exits (the
// stuck goroutine cannot be stopped).
func MustFinish(n int, msg string) {
	mu.Lock()
	st := cur
	mu.Unlock()
	finishTimer = time.AfterFunc(3*time.Second, func() {
		mu.Lock()
		o := Outcome{Tag: replayCases[replayIdx].Tag, Harness: replayCases[replayIdx].Harness, Result: "violated",
			Failed: append(append([]string{}, st.failed...), "engine: "+msg), Detail: "did not return within 3s", Covers: st.covers}
		outs := append(append([]Outcome{}, replayOuts...), o)
		for _, c := range replayCases[replayIdx+1:] {
			outs = append(outs, Outcome{Tag: c.Tag, Harness: c.Harness, Result: "not-run"})
		}
		b, _ := json.MarshalIndent(outs, "", " ")
		os.WriteFile(os.Getenv("VERIF_REPLAY_OUT"), b, 0644)
		os.Exit(0)
	})
}

// Finished ends the MustFinish watch.
func Finished() {
	if finishTimer != nil {
		finishTimer.Stop()
		finishTimer = nil
	}
}

var (
	finishTimer *time.Timer
	replayCases []ReplayCase
	replayOuts  []Outcome
	replayIdx   int
)

// RunReplay executes the cases of the file named by $VERIF_REPLAY against the
// harness table and writes outcomes to $VERIF_REPLAY_OUT.
func RunReplay(table map[string]func()) {
	data, err := os.ReadFile(os.Getenv("VERIF_REPLAY"))
	if err != nil {
		panic(err)
	}
	var cases []ReplayCase
	if err := json.Unmarshal(data, &cases); err != nil {
		panic(err)
	}
	var outs []Outcome
	replayCases = cases
	for ci, c := range cases {
		Finished() // a watch left over by a case that panicked
		mu.Lock()
		replayIdx, replayOuts = ci, outs
		mu.Unlock()
		f := table[c.Harness]
		o := Outcome{Tag: c.Tag, Harness: c.Harness}
		if f == nil {
			o.Result = "diverged"
			o.Detail = "no such harness"
			outs = append(outs, o)
			continue
		}
		st := &state{m: c.Model, counts: map[string]int{}}
		mu.Lock()
		cur = st
		tier = c.Tier
		params = c.Params
		if params == nil {
			params = map[string]int{}
		}
		mu.Unlock()
		func() {
			defer func() {
				if r := recover(); r != nil {
					switch p := r.(type) {
					case engineOnly:
						o.Result = "engine-only"
						o.Detail = p.why
					case assumeFailed:
						st.diverged = p.msg
					default:
						if st.noPanic {
							st.failed = append(st.failed, fmt.Sprintf("no-panic: %v", r))
						} else {
							o.Detail = fmt.Sprintf("panic: %v", r)
							o.Result = "panicked"
						}
					}
				}
			}()
			f()
			Finished()
		}()
		switch {
		case o.Result == "engine-only" && len(st.failed) == 0:
		case len(st.failed) > 0:
			// failures recorded before a later assumption failed still stand:
			// the solver's model only fixes the symbols created up to the violation
			o.Result = "violated"
			o.Failed = st.failed
			o.Detail = st.diverged
		case st.diverged != "":
			o.Result = "diverged"
			o.Detail = st.diverged
		case o.Result == "":
			o.Result = "passed"
		}
		o.Covers = st.covers
		outs = append(outs, o)
	}
	b, _ := json.MarshalIndent(outs, "", " ")
	if err := os.WriteFile(os.Getenv("VERIF_REPLAY_OUT"), b, 0644); err != nil {
		panic(err)
	}
}

// PoolReuse switches sync.Pool to recycling mode under the engine: Get returns
// either a fresh object or the object put back last (both are explored).
// Natively sync.Pool does what it does.
func PoolReuse(on bool) {}

// ParkSleepers(1): under the engine a goroutine (other than the harness's own)
// that calls time.Sleep blocks until WakeSleepers, so the harness can act while
// the code is inside a back-off. Natively sleeps are real and these are no-ops.
func ParkSleepers(on int) {}
func Sleepers() int       { return 0 }
func WakeSleepers()       {}
